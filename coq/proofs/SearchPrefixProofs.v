(* SearchPrefixProofs.v — proofs of C13 (second form): the cache writes of an interrupted search
   (any limits, any monotone clock, any monotone stop oracle) are an initial segment of the cache
   writes of the same search left uninterrupted; and, with the cache on, the cache content is
   determined by the initial cache and the writes recorded in the trace. *)
From Coq Require Import NArith ZArith List Lia Bool FMapPositive.
Import ListNotations.
From RCE Require Import model.Search proofs.SearchAbortProofs.
Open Scope Z_scope.

(* ------------------------------------------------------------------ *)
(* states that differ only in flag / clock-read / flag-load counters    *)
(* ------------------------------------------------------------------ *)
Section Core.
  Variable mv : Type.
  Definition core (s t : St mv) : Prop :=
    tt mv t = tt mv s /\ kill mv t = kill mv s /\ nodes mv t = nodes mv s
    /\ seldepth mv t = seldepth mv s /\ best_move mv t = best_move mv s
    /\ best_score mv t = best_score mv s /\ trace mv t = trace mv s.

  Lemma core_refl s : core s s.
  Proof. repeat split. Qed.
End Core.

(* ------------------------------------------------------------------ *)
(* the part of a loop iteration after the child has come back           *)
(* ------------------------------------------------------------------ *)
Section Tails.
  Variables pos mv : Type.
  Variable moves : pos -> list mv.
  Variable legal : pos -> mv -> bool.
  Variable make : pos -> mv -> pos.
  Variable in_check : pos -> bool.
  Variable evalf : pos -> Z.
  Variable is_cap is_promo : mv -> bool.
  Variable cap_score : mv -> N.
  Variable mv_eqb : mv -> mv -> bool.
  Variable key : pos -> N.
  Variable halfmove : pos -> N.
  Variable repeated : pos -> bool.
  Variable default_mv : mv.
  Variable lim : Limits.
  Variable clock : nat -> N.
  Variable ext_stop : nat -> bool.
  Variable tt_on : bool.

  Local Notation State := (St mv).
  Local Notation abt := (aborted mv lim clock ext_stop).
  Local Notation start := (alpha_beta_start pos mv moves legal make in_check evalf is_cap is_promo cap_score
                                   mv_eqb key halfmove repeated default_mv lim clock ext_stop tt_on).
  Local Notation iter := (iter_loop pos mv moves legal make in_check evalf is_cap is_promo cap_score mv_eqb key
                                   halfmove repeated default_mv lim clock ext_stop tt_on).
  Local Notation tins := (tt_insert mv ext_stop).
  Local Notation skill := (store_killers mv is_cap is_promo mv_eqb).
  Local Notation cscore := (child_score pos mv).
  Local Notation ablp := (abloop pos mv legal make in_check is_cap is_promo mv_eqb key lim clock ext_stop).
  Local Notation rootlp := (rootloop pos mv legal make key lim clock ext_stop).

  Definition abtail (rec : State -> pos -> Z -> Z -> State * Z) (p : pos) (a0 beta : Z) (depth ply : nat)
             (t : list mv) (m : mv) (alpha : Z) (best : mv) (pvs : bool) (cnt : nat) (s1 : State) (sc : Z)
    : Z * State :=
    let (ab0, s) := abt s1 ply in
    if ab0 then (0, s)
    else if sc >=? beta then (beta, skill (tins s (key p) (mkE mv sc depth Lower m)) ply m)
    else if sc >? alpha then ablp rec p a0 beta depth ply t s sc m true (S cnt)
    else ablp rec p a0 beta depth ply t s alpha best pvs (S cnt).

  Lemma abloop_cons rec p a0 beta depth ply m t s alpha best pvs cnt :
    ablp rec p a0 beta depth ply (m :: t) s alpha best pvs cnt =
    if negb (legal p m) then ablp rec p a0 beta depth ply t s alpha best pvs cnt
    else let (s1, sc) := cscore rec (enter_node mv s (S ply) true) (make p m) alpha beta pvs in
         abtail rec p a0 beta depth ply t m alpha best pvs cnt s1 sc.
  Proof. reflexivity. Qed.

  Definition roottail (rec : State -> pos -> Z -> Z -> State * Z) (p : pos) (depth : nat)
             (t : list mv) (m : mv) (alpha : Z) (best : mv) (pvs : bool) (cnt : nat) (s1 : State) (sc : Z)
    : State :=
    let (ab0, s) := abt s1 0 in
    if ab0 then
      match best_score mv s with
      | Some bs => if alpha >? bs then set_best mv s (Some best) (Some alpha) else s
      | None => s
      end
    else if sc >? alpha then rootlp rec p depth t s sc m true (S cnt)
    else rootlp rec p depth t s alpha best pvs (S cnt).

  Lemma rootloop_cons rec p depth m t s alpha best pvs cnt :
    rootlp rec p depth (m :: t) s alpha best pvs cnt =
    if negb (legal p m) then rootlp rec p depth t s alpha best pvs cnt
    else let (s1, sc) := cscore rec (enter_node mv s 1 false) (make p m) alpha SCORE_MAX pvs in
         roottail rec p depth t m alpha best pvs cnt s1 sc.
  Proof. reflexivity. Qed.

  Definition rootend (p : pos) (depth : nat) (alpha : Z) (best : mv) (s0 : State) : State :=
    let (ab0, s) := abt s0 0 in
    if ab0 then s
    else set_best mv (tins s (key p) (mkE mv alpha depth Exact best)) (Some best) (Some alpha).

  Lemma rootloop_nil rec p depth s alpha best pvs cnt :
    rootlp rec p depth [] s alpha best pvs cnt =
    match cnt with O => s | S _ => rootend p depth alpha best s end.
  Proof. destruct cnt; reflexivity. Qed.

  Definition itertail (n' d : nat) (p : pos) (out : list (Output mv)) (s1 : State) : State * list (Output mv) :=
    let (ab0, s) := abt s1 0 in
    if ab0 then (s, out)
    else iter n' (S d) s p (info_line mv s d (get_pv pos mv legal make key s p d) :: out).

  Lemma iter_S n' d s p out : iter (S n') d s p out = itertail n' d p out (start s p d).
  Proof. reflexivity. Qed.

  Lemma abt_core (s : State) ply : core mv s (snd (abt s ply)).
  Proof.
    unfold aborted, is_running. cbv beta iota.
    destruct (negb (flag_now mv ext_stop s)); [repeat split|].
    unfold limits_exceeded.
    destruct (Nat.eqb ply PLY_MAX); [repeat split|].
    destruct (l_nodes lim) as [nn|].
    - destruct (N.leb nn _); [repeat split|].
      destruct (l_movetime lim) as [mt|]; [destruct (N.leb mt _)|]; repeat split.
    - destruct (l_movetime lim) as [mt|]; [destruct (N.leb mt _)|]; repeat split.
  Qed.
End Tails.

(* ------------------------------------------------------------------ *)
(* a generic invariant: any relation that is transitive, holds between   *)
(* states with the same cache and trace, and holds across a cache write  *)
(* ------------------------------------------------------------------ *)
Section Frame.
  Variables pos mv : Type.
  Variable moves : pos -> list mv.
  Variable legal : pos -> mv -> bool.
  Variable make : pos -> mv -> pos.
  Variable in_check : pos -> bool.
  Variable evalf : pos -> Z.
  Variable is_cap is_promo : mv -> bool.
  Variable cap_score : mv -> N.
  Variable mv_eqb : mv -> mv -> bool.
  Variable key : pos -> N.
  Variable halfmove : pos -> N.
  Variable repeated : pos -> bool.
  Variable default_mv : mv.
  Variable lim : Limits.
  Variable clock : nat -> N.
  Variable ext_stop : nat -> bool.
  Variable tt_on : bool.

  Local Notation State := (St mv).
  Local Notation trc := (trace mv).
  Local Notation abt := (aborted mv lim clock ext_stop).
  Local Notation qs := (quiescence pos mv moves legal make evalf is_cap is_promo cap_score mv_eqb key
                                   lim clock ext_stop).
  Local Notation ab := (alpha_beta pos mv moves legal make in_check evalf is_cap is_promo cap_score mv_eqb key
                                   halfmove repeated default_mv lim clock ext_stop tt_on).
  Local Notation start := (alpha_beta_start pos mv moves legal make in_check evalf is_cap is_promo cap_score
                                   mv_eqb key halfmove repeated default_mv lim clock ext_stop tt_on).
  Local Notation iter := (iter_loop pos mv moves legal make in_check evalf is_cap is_promo cap_score mv_eqb key
                                   halfmove repeated default_mv lim clock ext_stop tt_on).
  Local Notation order := (order_moves pos mv is_cap is_promo cap_score mv_eqb key).
  Local Notation tins := (tt_insert mv ext_stop).
  Local Notation skill := (store_killers mv is_cap is_promo mv_eqb).
  Local Notation cscore := (child_score pos mv).
  Local Notation qlp := (qloop pos mv legal make).
  Local Notation ablp := (abloop pos mv legal make in_check is_cap is_promo mv_eqb key lim clock ext_stop).
  Local Notation rootlp := (rootloop pos mv legal make key lim clock ext_stop).
  Local Notation q_rec := (qrec pos mv moves legal make evalf is_cap is_promo cap_score mv_eqb key
                                lim clock ext_stop).
  Local Notation ab_rec := (abrec pos mv moves legal make in_check evalf is_cap is_promo cap_score mv_eqb key
                                  halfmove repeated default_mv lim clock ext_stop tt_on).
  Local Notation abtl := (abtail pos mv legal make in_check is_cap is_promo mv_eqb key lim clock ext_stop).
  Local Notation roottl := (roottail pos mv legal make key lim clock ext_stop).
  Local Notation rootnd := (rootend pos mv key lim clock ext_stop).
  Local Notation itertl := (itertail pos mv moves legal make in_check evalf is_cap is_promo cap_score mv_eqb key
                                     halfmove repeated default_mv lim clock ext_stop tt_on).

  Variable R : State -> State -> Prop.
  Hypothesis R_trans : forall a b c, R a b -> R b c -> R a c.
  Hypothesis R_frame : forall s t, tt mv t = tt mv s -> trc t = trc s -> R s t.
  Hypothesis R_tins : forall s k e, R s (tins s k e).
  Hypothesis R_empty : tt_on = false -> forall s, R s (set_tt mv s (PositiveMap.empty _)).

  Lemma R_refl s : R s s.
  Proof. apply R_frame; reflexivity. Qed.

  Lemma R_core s t : core mv s t -> R s t.
  Proof. intros [A [_ [_ [_ [_ [_ B]]]]]]. apply R_frame; assumption. Qed.

  Lemma R_abt s ply : R s (snd (abt s ply)).
  Proof. apply R_core, abt_core. Qed.

  Lemma R_skill (s : State) ply m : R s (skill s ply m).
  Proof.
    unfold store_killers. destruct (is_cap m || is_promo m); [apply R_refl|].
    destruct (okill_eqb mv mv_eqb m _); [apply R_refl|]. apply R_frame; reflexivity.
  Qed.

  Definition keepsQ (rec : State -> pos -> Z -> Z -> Z * State) : Prop :=
    forall s c a b, R s (snd (rec s c a b)).
  Definition keepsA (rec : State -> pos -> Z -> Z -> State * Z) : Prop :=
    forall s c a b, R s (fst (rec s c a b)).

  Lemma qloop_R rec p beta ply : keepsQ rec ->
    forall ms s alpha, R s (snd (qlp rec p beta ply ms s alpha)).
  Proof.
    intros Hrec. induction ms as [|m t IH]; intros s alpha; cbn [qloop]; [apply R_refl|].
    destruct (negb (legal p m)); [apply IH|]. cbv zeta.
    pose proof (Hrec (enter_node mv s (S ply) true) (make p m) (sneg beta) (sneg alpha)) as H1.
    destruct (rec _ _ _ _) as [r s1]. cbn [snd] in H1.
    assert (H0 : R s s1).
    { eapply R_trans; [|exact H1]. apply R_frame; reflexivity. }
    destruct (sneg r >=? beta); [exact H0|].
    eapply R_trans; [exact H0|apply IH].
  Qed.

  Lemma qs_R : forall f s p a b ply, R s (snd (qs f s p a b ply)).
  Proof.
    induction f as [|f IH]; intros s p a b ply; [apply R_refl|].
    rewrite gqs_S. pose proof (R_abt s ply) as HA.
    destruct (abt s ply) as [b0 s1]. cbn [snd] in HA.
    destruct b0; [exact HA|].
    destruct (evalf p >=? b); [exact HA|].
    eapply R_trans; [exact HA|]. apply qloop_R.
    intros s' c a' b'. unfold qrec. apply IH.
  Qed.

  Lemma cscore_R rec s c alpha beta pvs : keepsA rec ->
    R s (fst (cscore rec s c alpha beta pvs)).
  Proof.
    intros Hrec. unfold child_score. destruct pvs.
    - pose proof (Hrec s c (sneg alpha - 1) (sneg alpha)) as H1.
      destruct (rec s c (sneg alpha - 1) (sneg alpha)) as [s1 r1]. cbn [fst] in H1.
      destruct ((alpha <? sneg r1) && (sneg r1 <? beta)); [|exact H1].
      pose proof (Hrec s1 c (sneg beta) (sneg alpha)) as H2.
      destruct (rec s1 c (sneg beta) (sneg alpha)) as [s2 r2]. cbn [fst] in H2 |- *.
      eapply R_trans; eassumption.
    - pose proof (Hrec s c (sneg beta) (sneg alpha)) as H1.
      destruct (rec s c (sneg beta) (sneg alpha)) as [s1 r1]. exact H1.
  Qed.

  Lemma abtail_R rec p a0 beta depth ply t m alpha best pvs cnt s1 sc :
    (forall s alpha best pvs cnt, R s (snd (ablp rec p a0 beta depth ply t s alpha best pvs cnt))) ->
    R s1 (snd (abtl rec p a0 beta depth ply t m alpha best pvs cnt s1 sc)).
  Proof.
    intros IH. unfold abtail.
    pose proof (R_abt s1 ply) as HA.
    destruct (abt s1 ply) as [b0 s2]. cbn [snd] in HA.
    destruct b0; [exact HA|].
    destruct (sc >=? beta).
    - cbn [snd]. eapply R_trans; [exact HA|]. eapply R_trans; [apply R_tins | apply R_skill].
    - destruct (sc >? alpha); (eapply R_trans; [exact HA | apply IH]).
  Qed.

  Lemma abloop_R rec p a0 beta depth ply : keepsA rec ->
    forall ms s alpha best pvs cnt, R s (snd (ablp rec p a0 beta depth ply ms s alpha best pvs cnt)).
  Proof.
    intros Hrec. induction ms as [|m t IH]; intros s alpha best pvs cnt.
    - cbn [abloop]. destruct cnt; cbn [snd]; [apply R_refl | apply R_tins].
    - rewrite abloop_cons. destruct (negb (legal p m)); [apply IH|].
      pose proof (cscore_R rec (enter_node mv s (S ply) true) (make p m) alpha beta pvs Hrec) as H1.
      destruct (cscore rec _ _ _ _ _) as [s1 sc]. cbn [fst] in H1.
      eapply R_trans; [apply (R_frame s (enter_node mv s (S ply) true)); reflexivity|].
      eapply R_trans; [exact H1|]. apply abtail_R. exact IH.
  Qed.

  Lemma ab_R : forall f s p a b d ply, R s (snd (ab f s p a b d ply)).
  Proof.
    induction f as [|f IH]; intros s p a b d ply; [apply R_refl|].
    rewrite gab_S. pose proof (R_abt s ply) as HA.
    destruct (abt s ply) as [b0 s1]. cbn [snd] in HA.
    destruct b0; [exact HA|].
    destruct (N.leb 100 (halfmove p)); [exact HA|].
    destruct (repeated p); [exact HA|].
    cbv zeta.
    set (s2 := if tt_on then s1 else set_tt mv s1 (PositiveMap.empty _)).
    assert (H2 : R s s2).
    { eapply R_trans; [exact HA|]. subst s2. destruct tt_on eqn:Et; [apply R_refl|].
      apply R_empty. reflexivity. }
    clearbody s2.
    destruct (probe pos mv key s2 p d a b) as [[[v|] alpha0] beta].
    - exact H2.
    - destruct (if in_check p then S d else d) as [|dm1].
      + eapply R_trans; [exact H2 | apply qs_R].
      + eapply R_trans; [exact H2|]. apply abloop_R.
        intros s' c a' b'. unfold abrec. specialize (IH s' c a' b' dm1 (S ply)).
        destruct (ab f s' c a' b' dm1 (S ply)) as [r s'']. exact IH.
  Qed.

  Lemma abrec_R f dm1 ply : keepsA (ab_rec f dm1 ply).
  Proof.
    intros s c a b. unfold abrec. pose proof (ab_R f s c a b dm1 (S ply)) as H.
    destruct (ab f s c a b dm1 (S ply)) as [r s']. exact H.
  Qed.

  Lemma rootend_R p depth alpha best s : R s (rootnd p depth alpha best s).
  Proof.
    unfold rootend. pose proof (R_abt s 0) as HA.
    destruct (abt s 0) as [b0 s1]. cbn [snd] in HA.
    destruct b0; [exact HA|].
    eapply R_trans; [exact HA|]. eapply R_trans; [apply R_tins|]. apply R_frame; reflexivity.
  Qed.

  Lemma roottail_R rec p depth t m alpha best pvs cnt s1 sc :
    (forall s alpha best pvs cnt, R s (rootlp rec p depth t s alpha best pvs cnt)) ->
    R s1 (roottl rec p depth t m alpha best pvs cnt s1 sc).
  Proof.
    intros IH. unfold roottail.
    pose proof (R_abt s1 0) as HA.
    destruct (abt s1 0) as [b0 s2]. cbn [snd] in HA.
    destruct b0.
    - destruct (best_score mv s2) as [bs|]; [|exact HA].
      destruct (alpha >? bs); [|exact HA].
      eapply R_trans; [exact HA|]. apply R_frame; reflexivity.
    - destruct (sc >? alpha); (eapply R_trans; [exact HA | apply IH]).
  Qed.

  Lemma rootloop_R rec p depth : keepsA rec ->
    forall ms s alpha best pvs cnt, R s (rootlp rec p depth ms s alpha best pvs cnt).
  Proof.
    intros Hrec. induction ms as [|m t IH]; intros s alpha best pvs cnt.
    - rewrite rootloop_nil. destruct cnt; [apply R_refl | apply rootend_R].
    - rewrite rootloop_cons. destruct (negb (legal p m)); [apply IH|].
      pose proof (cscore_R rec (enter_node mv s 1 false) (make p m) alpha SCORE_MAX pvs Hrec) as H1.
      destruct (cscore rec _ _ _ _ _) as [s1 sc]. cbn [fst] in H1.
      eapply R_trans; [apply (R_frame s (enter_node mv s 1 false)); reflexivity|].
      eapply R_trans; [exact H1|]. apply roottail_R. exact IH.
  Qed.

  Lemma start_R s p d : R s (start s p d).
  Proof.
    rewrite gstart_eq. destruct (moves p); [apply R_refl|].
    apply rootloop_R, abrec_R.
  Qed.

  Lemma itertail_R n' d p out s1 :
    (forall d s out, R s (fst (iter n' d s p out))) ->
    R s1 (fst (itertl n' d p out s1)).
  Proof.
    intros IH. unfold itertail.
    pose proof (R_abt s1 0) as HA.
    destruct (abt s1 0) as [b0 s2]. cbn [snd] in HA.
    destruct b0; cbn [fst]; [exact HA|].
    eapply R_trans; [exact HA | apply IH].
  Qed.

  Lemma iter_R p : forall k d s out, R s (fst (iter k d s p out)).
  Proof.
    induction k as [|k IH]; intros d s out; [apply R_refl|].
    rewrite iter_S. eapply R_trans; [apply start_R|]. apply itertail_R. exact IH.
  Qed.
End Frame.

(* ------------------------------------------------------------------ *)
(* the interrupted run against the uninterrupted run                    *)
(* ------------------------------------------------------------------ *)
Definition mono_clk (clock : nat -> N) : Prop := forall i j, (i <= j)%nat -> (clock i <= clock j)%N.
Definition mono_stp (ext_stop : nat -> bool) : Prop :=
  forall i j, (i <= j)%nat -> ext_stop i = true -> ext_stop j = true.

Section Prefix.
  Variables pos mv : Type.
  Variable moves : pos -> list mv.
  Variable legal : pos -> mv -> bool.
  Variable make : pos -> mv -> pos.
  Variable in_check : pos -> bool.
  Variable evalf : pos -> Z.
  Variable is_cap is_promo : mv -> bool.
  Variable cap_score : mv -> N.
  Variable mv_eqb : mv -> mv -> bool.
  Variable key : pos -> N.
  Variable halfmove : pos -> N.
  Variable repeated : pos -> bool.
  Variable default_mv : mv.
  Variable tt_on : bool.
  Variable lim : Limits.
  Variable clock clock' : nat -> N.
  Variable ext_stop : nat -> bool.
  Hypothesis clock_mono : mono_clk clock.
  Hypothesis stop_mono : mono_stp ext_stop.

  Local Notation never := (fun _ : nat => false).
  Local Notation State := (St mv).
  Local Notation run_ := (running mv).
  Local Notation trc := (trace mv).
  Local Notation abtC := (aborted mv lim clock ext_stop).
  Local Notation abtF := (aborted mv no_limits clock' never).
  Local Notation lexC := (limits_exceeded mv lim clock).
  Local Notation qsC := (quiescence pos mv moves legal make evalf is_cap is_promo cap_score mv_eqb key
                                   lim clock ext_stop).
  Local Notation qsF := (quiescence pos mv moves legal make evalf is_cap is_promo cap_score mv_eqb key
                                   no_limits clock' never).
  Local Notation abC := (alpha_beta pos mv moves legal make in_check evalf is_cap is_promo cap_score mv_eqb key
                                   halfmove repeated default_mv lim clock ext_stop tt_on).
  Local Notation abF := (alpha_beta pos mv moves legal make in_check evalf is_cap is_promo cap_score mv_eqb key
                                   halfmove repeated default_mv no_limits clock' never tt_on).
  Local Notation startC := (alpha_beta_start pos mv moves legal make in_check evalf is_cap is_promo cap_score
                                   mv_eqb key halfmove repeated default_mv lim clock ext_stop tt_on).
  Local Notation startF := (alpha_beta_start pos mv moves legal make in_check evalf is_cap is_promo cap_score
                                   mv_eqb key halfmove repeated default_mv no_limits clock' never tt_on).
  Local Notation iterC := (iter_loop pos mv moves legal make in_check evalf is_cap is_promo cap_score mv_eqb key
                                   halfmove repeated default_mv lim clock ext_stop tt_on).
  Local Notation iterF := (iter_loop pos mv moves legal make in_check evalf is_cap is_promo cap_score mv_eqb key
                                   halfmove repeated default_mv no_limits clock' never tt_on).
  Local Notation srchC := (search pos mv moves legal make in_check evalf is_cap is_promo cap_score mv_eqb key
                                   halfmove repeated default_mv lim clock ext_stop tt_on).
  Local Notation srchF := (search pos mv moves legal make in_check evalf is_cap is_promo cap_score mv_eqb key
                                   halfmove repeated default_mv no_limits clock' never tt_on).
  Local Notation order := (order_moves pos mv is_cap is_promo cap_score mv_eqb key).
  Local Notation tinsC := (tt_insert mv ext_stop).
  Local Notation tinsF := (tt_insert mv never).
  Local Notation skill := (store_killers mv is_cap is_promo mv_eqb).
  Local Notation cscore := (child_score pos mv).
  Local Notation qlp := (qloop pos mv legal make).
  Local Notation ablpC := (abloop pos mv legal make in_check is_cap is_promo mv_eqb key lim clock ext_stop).
  Local Notation ablpF := (abloop pos mv legal make in_check is_cap is_promo mv_eqb key no_limits clock' never).
  Local Notation rootlpC := (rootloop pos mv legal make key lim clock ext_stop).
  Local Notation rootlpF := (rootloop pos mv legal make key no_limits clock' never).
  Local Notation q_recC := (qrec pos mv moves legal make evalf is_cap is_promo cap_score mv_eqb key
                                lim clock ext_stop).
  Local Notation q_recF := (qrec pos mv moves legal make evalf is_cap is_promo cap_score mv_eqb key
                                no_limits clock' never).
  Local Notation ab_recC := (abrec pos mv moves legal make in_check evalf is_cap is_promo cap_score mv_eqb key
                                  halfmove repeated default_mv lim clock ext_stop tt_on).
  Local Notation ab_recF := (abrec pos mv moves legal make in_check evalf is_cap is_promo cap_score mv_eqb key
                                  halfmove repeated default_mv no_limits clock' never tt_on).
  Local Notation abtlC := (abtail pos mv legal make in_check is_cap is_promo mv_eqb key lim clock ext_stop).
  Local Notation abtlF := (abtail pos mv legal make in_check is_cap is_promo mv_eqb key no_limits clock' never).
  Local Notation roottlC := (roottail pos mv legal make key lim clock ext_stop).
  Local Notation roottlF := (roottail pos mv legal make key no_limits clock' never).
  Local Notation rootndC := (rootend pos mv key lim clock ext_stop).
  Local Notation rootndF := (rootend pos mv key no_limits clock' never).
  Local Notation itertlC := (itertail pos mv moves legal make in_check evalf is_cap is_promo cap_score mv_eqb key
                                     halfmove repeated default_mv lim clock ext_stop tt_on).
  Local Notation itertlF := (itertail pos mv moves legal make in_check evalf is_cap is_promo cap_score mv_eqb key
                                     halfmove repeated default_mv no_limits clock' never tt_on).

  (* a write without the flag component *)
  Definition wrp (w : WriteEv mv) : N * TTEntry mv * N := fst w.

  (* ---------------- the two runs in lockstep ---------------- *)
  Definition sim (s s' : State) : Prop :=
    tt mv s = tt mv s' /\ kill mv s = kill mv s' /\ nodes mv s = nodes mv s'
    /\ seldepth mv s = seldepth mv s' /\ best_move mv s = best_move mv s'
    /\ best_score mv s = best_score mv s' /\ map wrp (trc s) = map wrp (trc s')
    /\ run_ s = true /\ run_ s' = true.

  Lemma sim_core s s' t t' : sim s s' -> core mv s t -> core mv s' t' -> run_ t = true -> run_ t' = true ->
    sim t t'.
  Proof.
    unfold sim, core.
    intros [A1 [A2 [A3 [A4 [A5 [A6 [A7 _]]]]]]] [B1 [B2 [B3 [B4 [B5 [B6 B7]]]]]]
           [C1 [C2 [C3 [C4 [C5 [C6 C7]]]]]] Hr Hr'.
    repeat split; congruence.
  Qed.

  Lemma sim_enter s s' ply u : sim s s' -> sim (enter_node mv s ply u) (enter_node mv s' ply u).
  Proof.
    unfold sim. intros [A1 [A2 [A3 [A4 [A5 [A6 [A7 [A8 A9]]]]]]]].
    cbn [tt kill nodes seldepth best_move best_score trace running enter_node].
    repeat split; try assumption; [congruence|]. destruct u; congruence.
  Qed.

  Lemma sim_tins s s' k e : sim s s' -> sim (tinsC s k e) (tinsF s' k e).
  Proof.
    unfold sim. intros [A1 [A2 [A3 [A4 [A5 [A6 [A7 [A8 A9]]]]]]]].
    cbn [tt kill nodes seldepth best_move best_score trace running tt_insert map].
    unfold wrp at 1 3. cbn [fst].
    repeat split; try assumption; congruence.
  Qed.

  Lemma sim_skill s s' ply m : sim s s' -> sim (skill s ply m) (skill s' ply m).
  Proof.
    intros H. pose proof H as [A1 [A2 [A3 [A4 [A5 [A6 [A7 [A8 A9]]]]]]]].
    unfold store_killers. destruct (is_cap m || is_promo m); [exact H|].
    rewrite <- A2. destruct (okill_eqb mv mv_eqb m _); [exact H|].
    unfold sim. cbn [tt kill nodes seldepth best_move best_score trace running set_kill].
    repeat split; try assumption; congruence.
  Qed.

  Lemma sim_set_tt s s' t : sim s s' -> sim (set_tt mv s t) (set_tt mv s' t).
  Proof.
    unfold sim. intros [A1 [A2 [A3 [A4 [A5 [A6 [A7 [A8 A9]]]]]]]].
    cbn [tt kill nodes seldepth best_move best_score trace running set_tt].
    repeat split; assumption.
  Qed.

  Lemma sim_set_best s s' m v : sim s s' -> sim (set_best mv s m v) (set_best mv s' m v).
  Proof.
    unfold sim. intros [A1 [A2 [A3 [A4 [A5 [A6 [A7 [A8 A9]]]]]]]].
    cbn [tt kill nodes seldepth best_move best_score trace running set_best].
    repeat split; assumption.
  Qed.

  Lemma order_sim s s' p ply ms : sim s s' -> order s p ply ms = order s' p ply ms.
  Proof.
    intros [A1 [A2 _]]. unfold order_moves, tt_get. rewrite A1, A2. reflexivity.
  Qed.

  Lemma probe_sim s s' p d a b : sim s s' -> probe pos mv key s p d a b = probe pos mv key s' p d a b.
  Proof.
    intros [A1 _]. unfold probe, tt_get. rewrite A1. reflexivity.
  Qed.

  Lemma sim_bs s s' : sim s s' -> best_score mv s = best_score mv s'.
  Proof. intros H. apply H. Qed.

  (* ---------------- the trace of the full run only grows ---------------- *)
  Definition grows (s t : State) : Prop := exists l, trc t = l ++ trc s.
  Definition ext (t t' : State) : Prop := exists l, map wrp (trc t') = l ++ map wrp (trc t).

  Lemma grows_trans a b c : grows a b -> grows b c -> grows a c.
  Proof. intros [l1 H1] [l2 H2]. exists (l2 ++ l1). rewrite H2, H1. apply app_assoc. Qed.
  Lemma grows_frame (s t : State) : tt mv t = tt mv s -> trc t = trc s -> grows s t.
  Proof. intros _ H. exists []. exact H. Qed.
  Lemma grows_tins (s : State) k e : grows s (tinsF s k e).
  Proof. exists [(k, e, nodes mv s, flag_now mv never s)]. reflexivity. Qed.
  Lemma grows_empty : tt_on = false -> forall s : State, grows s (set_tt mv s (PositiveMap.empty _)).
  Proof. intros _ s. exists []. reflexivity. Qed.

  Lemma ext_sim t t' : sim t t' -> ext t t'.
  Proof. intros H. exists []. symmetry. apply H. Qed.
  Lemma ext_grows t t' t'' : ext t t' -> grows t' t'' -> ext t t''.
  Proof.
    intros [l1 H1] [l2 H2]. exists (map wrp l2 ++ l1). rewrite H2, map_app, H1. apply app_assoc.
  Qed.
  Lemma ext_trc t t2 t' : ext t t' -> trc t2 = trc t -> ext t2 t'.
  Proof. intros [l H] E. exists l. rewrite E. exact H. Qed.

  Ltac frame_hyps :=
    first [exact grows_trans | exact grows_frame | exact grows_tins | exact grows_empty].

  Lemma qloop_grows rec p beta ply : keepsQ pos mv grows rec ->
    forall ms s alpha, grows s (snd (qlp rec p beta ply ms s alpha)).
  Proof. apply qloop_R; frame_hyps. Qed.
  Lemma qsF_grows : forall f s p a b ply, grows s (snd (qsF f s p a b ply)).
  Proof. apply qs_R; frame_hyps. Qed.
  Lemma q_recF_grows f ply : keepsQ pos mv grows (q_recF f ply).
  Proof. intros s c a b. unfold qrec. apply qsF_grows. Qed.
  Lemma cscore_grows rec s c alpha beta pvs : keepsA pos mv grows rec ->
    grows s (fst (cscore rec s c alpha beta pvs)).
  Proof. apply cscore_R; frame_hyps. Qed.
  Lemma abloopF_grows rec p a0 beta depth ply : keepsA pos mv grows rec ->
    forall ms s alpha best pvs cnt, grows s (snd (ablpF rec p a0 beta depth ply ms s alpha best pvs cnt)).
  Proof. apply abloop_R; frame_hyps. Qed.
  Lemma abtailF_grows rec p a0 beta depth ply t m alpha best pvs cnt s1 sc : keepsA pos mv grows rec ->
    grows s1 (snd (abtlF rec p a0 beta depth ply t m alpha best pvs cnt s1 sc)).
  Proof.
    intros Hrec. apply abtail_R; try frame_hyps. apply abloopF_grows. exact Hrec.
  Qed.
  Lemma abF_grows : forall f s p a b d ply, grows s (snd (abF f s p a b d ply)).
  Proof. apply ab_R; frame_hyps. Qed.
  Lemma ab_recF_grows f dm1 ply : keepsA pos mv grows (ab_recF f dm1 ply).
  Proof. apply abrec_R; frame_hyps. Qed.
  Lemma rootendF_grows p depth alpha best s : grows s (rootndF p depth alpha best s).
  Proof. apply rootend_R; frame_hyps. Qed.
  Lemma rootloopF_grows rec p depth : keepsA pos mv grows rec ->
    forall ms s alpha best pvs cnt, grows s (rootlpF rec p depth ms s alpha best pvs cnt).
  Proof. apply rootloop_R; frame_hyps. Qed.
  Lemma roottailF_grows rec p depth t m alpha best pvs cnt s1 sc : keepsA pos mv grows rec ->
    grows s1 (roottlF rec p depth t m alpha best pvs cnt s1 sc).
  Proof.
    intros Hrec. apply roottail_R; try frame_hyps. apply rootloopF_grows. exact Hrec.
  Qed.
  Lemma startF_grows s p d : grows s (startF s p d).
  Proof. apply start_R; frame_hyps. Qed.
  Lemma iterF_grows p : forall k d s out, grows s (fst (iterF k d s p out)).
  Proof. apply iter_R; frame_hyps. Qed.
  Lemma itertailF_grows n' d p out s1 : grows s1 (fst (itertlF n' d p out s1)).
  Proof. apply itertail_R; try frame_hyps. intros d0 s out0. apply iterF_grows. Qed.

  (* ---------------- interrupted, for good ---------------- *)
  Definition AbL (s : State) : Prop :=
    (exists n, l_nodes lim = Some n /\ (n <= nodes mv s)%N)
    \/ (exists mt, l_movetime lim = Some mt /\ (mt <= clock (reads mv s))%N)
    \/ (l_any_clock lim = true /\ (l_timer lim <= clock (reads mv s))%N).
  Definition Ab (s : State) : Prop :=
    run_ s = false \/ ext_stop (loads mv s) = true \/ AbL s.

  Lemma clock_S k : (clock k <= clock (S k))%N.
  Proof. apply clock_mono. lia. Qed.

  Lemma AbL_tick_read s : AbL s -> AbL (tick_read mv s).
  Proof.
    unfold AbL. cbn [nodes reads tick_read]. pose proof (clock_S (reads mv s)) as Hc.
    intros [H|[[mt [H1 H2]]|[H1 H2]]].
    - left. exact H.
    - right. left. exists mt. split; [exact H1|lia].
    - right. right. split; [exact H1|lia].
  Qed.

  Lemma Ab_tick_read s : Ab s -> Ab (tick_read mv s).
  Proof.
    intros [H|[H|H]]; [left; exact H | right; left; exact H | right; right; apply AbL_tick_read, H].
  Qed.

  Lemma Ab_tick_load s : Ab s -> Ab (tick_load mv s).
  Proof.
    intros [H|[H|H]]; [left; exact H | right; left | right; right; exact H].
    cbn [loads tick_load]. apply (stop_mono (loads mv s)); [lia | exact H].
  Qed.

  Lemma Ab_stop s : Ab (set_running mv s false).
  Proof. left. reflexivity. Qed.

  Lemma Ab_enter s ply u : Ab s -> Ab (enter_node mv s ply u).
  Proof.
    intros [H|[H|H]]; [left; exact H | right; left; exact H | right; right].
    unfold AbL in *. cbn [nodes reads enter_node].
    destruct H as [[n [H1 H2]]|H]; [|right; exact H].
    left. exists n. split; [exact H1|lia].
  Qed.

  Lemma Ab_set_best s m v : Ab s -> Ab (set_best mv s m v).
  Proof. intros H. exact H. Qed.

  Lemma lex_mono s ply : Ab s -> Ab (snd (lexC s ply)).
  Proof.
    intros H. unfold limits_exceeded.
    destruct (Nat.eqb ply PLY_MAX); [exact H|].
    destruct (match l_nodes lim with Some n => N.leb n (nodes mv s) | None => false end); [apply Ab_stop|].
    destruct (l_movetime lim) as [mt|].
    - destruct (N.leb mt (clock (reads mv s))); [apply Ab_stop|].
      cbn [snd]. apply Ab_tick_read, Ab_tick_read, H.
    - cbn [snd]. apply Ab_tick_read, H.
  Qed.

  Lemma lex_fst s ply : AbL s -> fst (lexC s ply) = true.
  Proof.
    intros H. unfold limits_exceeded.
    destruct (Nat.eqb ply PLY_MAX); [reflexivity|].
    destruct (match l_nodes lim with Some n => N.leb n (nodes mv s) | None => false end) eqn:En;
      [reflexivity|].
    destruct H as [[n [H1 H2]]|[[mt [H1 H2]]|[H1 H2]]].
    - rewrite H1 in En. apply N.leb_le in H2. congruence.
    - rewrite H1. apply N.leb_le in H2. rewrite H2. reflexivity.
    - pose proof (clock_S (reads mv s)) as Hc.
      destruct (l_movetime lim) as [mt|].
      + destruct (N.leb mt (clock (reads mv s))); [reflexivity|].
        cbn [fst reads tick_read]. rewrite H1.
        assert (E : N.leb (l_timer lim) (clock (S (reads mv s))) = true) by (apply N.leb_le; lia).
        rewrite E. apply orb_true_r.
      + cbn [fst]. rewrite H1.
        assert (E : N.leb (l_timer lim) (clock (reads mv s)) = true) by (apply N.leb_le; lia).
        rewrite E. reflexivity.
  Qed.

  Lemma lex_cases s ply :
    (fst (lexC s ply) = Nat.eqb ply 255 /\ run_ (snd (lexC s ply)) = run_ s)
    \/ (fst (lexC s ply) = true /\ Ab (snd (lexC s ply))).
  Proof.
    unfold limits_exceeded, PLY_MAX.
    destruct (Nat.eqb ply 255); [left; split; reflexivity|].
    destruct (match l_nodes lim with Some n => N.leb n (nodes mv s) | None => false end);
      [right; split; [reflexivity | apply Ab_stop]|].
    destruct (l_movetime lim) as [mt|] eqn:Lm.
    - destruct (N.leb mt (clock (reads mv s))); [right; split; [reflexivity | apply Ab_stop]|].
      cbn [fst snd reads tick_read].
      destruct (N.leb mt (clock (S (reads mv s)))) eqn:E1; cbn [orb].
      + right. split; [reflexivity|]. right. right. right. left. exists mt. split; [exact Lm|].
        cbn [reads tick_read]. apply N.leb_le in E1. pose proof (clock_S (S (reads mv s))). lia.
      + destruct (l_any_clock lim) eqn:La; cbn [andb]; [|left; split; reflexivity].
        destruct (N.leb (l_timer lim) (clock (S (reads mv s)))) eqn:E2; [|left; split; reflexivity].
        right. split; [reflexivity|]. right. right. right. right. split; [exact La|].
        cbn [reads tick_read]. apply N.leb_le in E2. pose proof (clock_S (S (reads mv s))). lia.
    - cbn [fst snd orb].
      destruct (l_any_clock lim) eqn:La; cbn [andb]; [|left; split; reflexivity].
      destruct (N.leb (l_timer lim) (clock (reads mv s))) eqn:E2; [|left; split; reflexivity].
      right. split; [reflexivity|]. right. right. right. right. split; [exact La|].
      cbn [reads tick_read]. apply N.leb_le in E2. pose proof (clock_S (reads mv s)). lia.
  Qed.

  Lemma abtC_eq s ply :
    abtC s ply = if negb (run_ s && negb (ext_stop (loads mv s))) then (true, tick_load mv s)
                 else lexC (tick_load mv s) ply.
  Proof. reflexivity. Qed.

  Lemma abtC_Ab s ply : Ab s -> fst (abtC s ply) = true /\ Ab (snd (abtC s ply)).
  Proof.
    intros H. rewrite abtC_eq.
    destruct (run_ s) eqn:Hr; cbn [andb negb]; [|split; [reflexivity | apply Ab_tick_load, H]].
    destruct (ext_stop (loads mv s)) eqn:He; cbn [negb]; [split; [reflexivity | apply Ab_tick_load, H]|].
    split; [|apply lex_mono, Ab_tick_load, H].
    apply lex_fst. destruct H as [H|[H|H]]; [congruence | congruence | exact H].
  Qed.

  Lemma abtC_cases s ply :
    (fst (abtC s ply) = Nat.eqb ply 255 /\ run_ (snd (abtC s ply)) = true)
    \/ (fst (abtC s ply) = true /\ Ab (snd (abtC s ply))).
  Proof.
    rewrite abtC_eq.
    destruct (run_ s) eqn:Hr; cbn [andb negb].
    - destruct (ext_stop (loads mv s)) eqn:He; cbn [negb].
      + right. split; [reflexivity|]. apply Ab_tick_load. right. left. exact He.
      + destruct (lex_cases (tick_load mv s) ply) as [[H1 H2]|H]; [left | right; exact H].
        split; [exact H1|]. rewrite H2. exact Hr.
    - right. split; [reflexivity|]. left. exact Hr.
  Qed.

  Lemma abtF_run (s : State) ply : run_ s = true ->
    fst (abtF s ply) = Nat.eqb ply 255 /\ run_ (snd (abtF s ply)) = true.
  Proof.
    intros H. unfold aborted, is_running, flag_now, limits_exceeded, PLY_MAX.
    rewrite H. cbn [andb negb].
    destruct (Nat.eqb ply 255); split; try reflexivity; exact H.
  Qed.

  Lemma abt_pair s s' ply : sim s s' ->
    (fst (abtC s ply) = fst (abtF s' ply) /\ sim (snd (abtC s ply)) (snd (abtF s' ply)))
    \/ (fst (abtC s ply) = true /\ Ab (snd (abtC s ply)) /\ trc (snd (abtC s ply)) = trc s).
  Proof.
    intros H.
    pose proof (abt_core mv lim clock ext_stop s ply) as C.
    pose proof (abt_core mv no_limits clock' never s' ply) as C'.
    destruct (abtF_run s' ply) as [F1 F2]; [apply H|].
    destruct (abtC_cases s ply) as [[H1 H2]|[H1 H2]].
    - left. split; [congruence|]. eapply sim_core; eassumption.
    - right. split; [exact H1|]. split; [exact H2|]. apply C.
  Qed.

  (* ---------------- from an interrupted state nothing more is written ---------------- *)
  Definition inertQ (rec : State -> pos -> Z -> Z -> Z * State) : Prop :=
    forall s c a b, Ab s -> Ab (snd (rec s c a b)) /\ trc (snd (rec s c a b)) = trc s.
  Definition inertA (rec : State -> pos -> Z -> Z -> State * Z) : Prop :=
    forall s c a b, Ab s -> Ab (fst (rec s c a b)) /\ trc (fst (rec s c a b)) = trc s.

  Lemma abtC_inert s ply : Ab s ->
    fst (abtC s ply) = true /\ Ab (snd (abtC s ply)) /\ trc (snd (abtC s ply)) = trc s.
  Proof.
    intros H. destruct (abtC_Ab s ply H) as [H1 H2]. split; [exact H1|]. split; [exact H2|].
    apply (abt_core mv lim clock ext_stop s ply).
  Qed.

  Lemma qloop_inert rec p beta ply : inertQ rec ->
    forall ms s alpha, Ab s ->
      Ab (snd (qlp rec p beta ply ms s alpha)) /\ trc (snd (qlp rec p beta ply ms s alpha)) = trc s.
  Proof.
    intros Hrec. induction ms as [|m t IH]; intros s alpha Hs; cbn [qloop]; [split; [exact Hs|reflexivity]|].
    destruct (negb (legal p m)); [apply IH, Hs|]. cbv zeta.
    destruct (Hrec (enter_node mv s (S ply) true) (make p m) (sneg beta) (sneg alpha)
                   (Ab_enter s (S ply) true Hs)) as [H1 H2].
    destruct (rec _ _ _ _) as [r s1]. cbn [snd] in H1, H2.
    change (trc s1 = trc s) in H2.
    destruct (sneg r >=? beta); [split; assumption|].
    destruct (IH s1 (if sneg r >? alpha then sneg r else alpha) H1) as [I1 I2].
    split; [exact I1 | congruence].
  Qed.

  Lemma qsC_inert : forall f s p a b ply, Ab s ->
    Ab (snd (qsC f s p a b ply)) /\ trc (snd (qsC f s p a b ply)) = trc s.
  Proof.
    intros [|f] s p a b ply Hs; [split; [exact Hs|reflexivity]|].
    rewrite gqs_S. destruct (abtC_inert s ply Hs) as [H1 [H2 H3]].
    destruct (abtC s ply) as [b0 s1]. cbn [fst snd] in H1, H2, H3. subst b0.
    split; assumption.
  Qed.

  Lemma abC_inert : forall f s p a b d ply, Ab s ->
    Ab (snd (abC f s p a b d ply)) /\ trc (snd (abC f s p a b d ply)) = trc s.
  Proof.
    intros [|f] s p a b d ply Hs; [split; [exact Hs|reflexivity]|].
    rewrite gab_S. destruct (abtC_inert s ply Hs) as [H1 [H2 H3]].
    destruct (abtC s ply) as [b0 s1]. cbn [fst snd] in H1, H2, H3. subst b0.
    split; assumption.
  Qed.

  Lemma q_recC_inert f ply : inertQ (q_recC f ply).
  Proof. intros s c a b Hs. unfold qrec. apply qsC_inert, Hs. Qed.

  Lemma ab_recC_inert f dm1 ply : inertA (ab_recC f dm1 ply).
  Proof.
    intros s c a b Hs. unfold abrec. pose proof (abC_inert f s c a b dm1 (S ply) Hs) as H.
    destruct (abC f s c a b dm1 (S ply)) as [r s']. exact H.
  Qed.

  Lemma cscore_inert rec s c alpha beta pvs : inertA rec -> Ab s ->
    Ab (fst (cscore rec s c alpha beta pvs)) /\ trc (fst (cscore rec s c alpha beta pvs)) = trc s.
  Proof.
    intros Hrec Hs. unfold child_score. destruct pvs.
    - destruct (Hrec s c (sneg alpha - 1) (sneg alpha) Hs) as [H1 H2].
      destruct (rec s c (sneg alpha - 1) (sneg alpha)) as [s1 r1]. cbn [fst] in H1, H2.
      destruct ((alpha <? sneg r1) && (sneg r1 <? beta)); [|split; assumption].
      destruct (Hrec s1 c (sneg beta) (sneg alpha) H1) as [H3 H4].
      destruct (rec s1 c (sneg beta) (sneg alpha)) as [s2 r2]. cbn [fst] in H3, H4 |- *.
      split; [exact H3 | congruence].
    - destruct (Hrec s c (sneg beta) (sneg alpha) Hs) as [H1 H2].
      destruct (rec s c (sneg beta) (sneg alpha)) as [s1 r1]. cbn [fst] in H1, H2 |- *.
      split; assumption.
  Qed.

  (* ---------------- lockstep or cut ---------------- *)
  Definition outZ (x x' : Z * State) : Prop :=
    (sim (snd x) (snd x') /\ fst x = fst x') \/ (Ab (snd x) /\ ext (snd x) (snd x')).
  Definition outA (x x' : State * Z) : Prop :=
    (sim (fst x) (fst x') /\ snd x = snd x') \/ (Ab (fst x) /\ ext (fst x) (fst x')).
  Definition outS (t t' : State) : Prop := sim t t' \/ (Ab t /\ ext t t').

  Definition simQ (recC recF : State -> pos -> Z -> Z -> Z * State) : Prop :=
    forall s s' c a b, sim s s' -> outZ (recC s c a b) (recF s' c a b).
  Definition simA (recC recF : State -> pos -> Z -> Z -> State * Z) : Prop :=
    forall s s' c a b, sim s s' -> outA (recC s c a b) (recF s' c a b).

  Lemma grows_refl (s : State) : grows s s.
  Proof. exists []. reflexivity. Qed.

  Lemma cut_intro (t t' s1 s1' : State) :
    Ab t -> trc t = trc s1 -> ext s1 s1' -> grows s1' t' -> Ab t /\ ext t t'.
  Proof.
    intros A T E G. split; [exact A|]. eapply ext_grows; [|exact G]. eapply ext_trc; eassumption.
  Qed.

  Lemma qloop_sim recC recF p beta ply : simQ recC recF -> inertQ recC -> keepsQ pos mv grows recF ->
    forall ms s s' alpha, sim s s' ->
      outZ (qlp recC p beta ply ms s alpha) (qlp recF p beta ply ms s' alpha).
  Proof.
    intros HS HI HG. induction ms as [|m t IH]; intros s s' alpha Hs; cbn [qloop].
    - left. split; [exact Hs | reflexivity].
    - destruct (negb (legal p m)); [apply IH, Hs|]. cbv zeta.
      pose proof (HS _ _ (make p m) (sneg beta) (sneg alpha) (sim_enter s s' (S ply) true Hs)) as H1.
      destruct (recC _ _ _ _) as [r s1]. destruct (recF _ _ _ _) as [r' s1'].
      unfold outZ in H1. cbn [fst snd] in H1.
      destruct H1 as [[S1 <-]|[A1 E1]].
      + destruct (sneg r >=? beta); [left; split; [exact S1|reflexivity]|]. apply IH, S1.
      + right.
        match goal with |- Ab (snd ?X) /\ ext (snd ?X) (snd ?Y) =>
          assert (C : Ab (snd X) /\ trc (snd X) = trc s1);
            [|assert (F : grows s1' (snd Y)); [|apply (cut_intro _ _ s1 s1'); [apply C|apply C|exact E1|exact F]]]
        end.
        * destruct (sneg r >=? beta); [split; [exact A1|reflexivity]|]. apply qloop_inert; assumption.
        * destruct (sneg r' >=? beta); [apply grows_refl|]. apply qloop_grows, HG.
  Qed.

  Lemma qs_sim : forall f s s' p a b ply, sim s s' -> outZ (qsC f s p a b ply) (qsF f s' p a b ply).
  Proof.
    induction f as [|f IH]; intros s s' p a b ply Hs; [left; split; [exact Hs|reflexivity]|].
    pose proof (qsF_grows (S f) s' p a b ply) as G.
    rewrite gqs_S in G. rewrite !gqs_S.
    pose proof (abt_pair s s' ply Hs) as HP.
    destruct (abtC s ply) as [b0 s1]. destruct (abtF s' ply) as [b0' s1'].
    cbn [fst snd] in HP. destruct HP as [[<- S1]|[-> [A1 T1]]].
    2:{ right. apply (cut_intro _ _ s s'); [exact A1 | exact T1 | apply ext_sim, Hs | exact G]. }
    clear G.
    destruct b0; [left; split; [exact S1|reflexivity]|].
    destruct (evalf p >=? b); [left; split; [exact S1|reflexivity]|].
    rewrite (order_sim s1 s1' p ply _ S1).
    apply qloop_sim; [|apply q_recC_inert|apply q_recF_grows|exact S1].
    intros t t' c a' b' St. unfold qrec. apply IH, St.
  Qed.

  Lemma q_rec_sim f ply : simQ (q_recC f ply) (q_recF f ply).
  Proof. intros t t' c a' b' St. unfold qrec. apply qs_sim, St. Qed.

  Lemma cscore_sim recC recF s s' c alpha beta pvs :
    simA recC recF -> inertA recC -> keepsA pos mv grows recF -> sim s s' ->
    outA (cscore recC s c alpha beta pvs) (cscore recF s' c alpha beta pvs).
  Proof.
    intros HS HI HG Hs. unfold child_score. destruct pvs.
    - pose proof (HS s s' c (sneg alpha - 1) (sneg alpha) Hs) as H1.
      destruct (recC s c (sneg alpha - 1) (sneg alpha)) as [s1 r1].
      destruct (recF s' c (sneg alpha - 1) (sneg alpha)) as [s1' r1'].
      unfold outA in H1. cbn [fst snd] in H1.
      destruct H1 as [[S1 <-]|[A1 E1]].
      + destruct ((alpha <? sneg r1) && (sneg r1 <? beta)); [|left; split; [exact S1|reflexivity]].
        pose proof (HS s1 s1' c (sneg beta) (sneg alpha) S1) as H2.
        destruct (recC s1 c (sneg beta) (sneg alpha)) as [s2 r2].
        destruct (recF s1' c (sneg beta) (sneg alpha)) as [s2' r2'].
        unfold outA in H2 |- *. cbn [fst snd] in H2 |- *.
        destruct H2 as [[S2 <-]|[A2 E2]]; [left; split; [exact S2|reflexivity] | right; split; assumption].
      + right.
        match goal with |- Ab (fst ?X) /\ ext (fst ?X) (fst ?Y) =>
          assert (C : Ab (fst X) /\ trc (fst X) = trc s1);
            [|assert (F : grows s1' (fst Y)); [|apply (cut_intro _ _ s1 s1'); [apply C|apply C|exact E1|exact F]]]
        end.
        * destruct ((alpha <? sneg r1) && (sneg r1 <? beta)); [|split; [exact A1|reflexivity]].
          pose proof (HI s1 c (sneg beta) (sneg alpha) A1) as H2.
          destruct (recC s1 c (sneg beta) (sneg alpha)) as [s2 r2]. exact H2.
        * destruct ((alpha <? sneg r1') && (sneg r1' <? beta)); [|apply grows_refl].
          pose proof (HG s1' c (sneg beta) (sneg alpha)) as H2.
          destruct (recF s1' c (sneg beta) (sneg alpha)) as [s2' r2']. exact H2.
    - pose proof (HS s s' c (sneg beta) (sneg alpha) Hs) as H1.
      destruct (recC s c (sneg beta) (sneg alpha)) as [s1 r1].
      destruct (recF s' c (sneg beta) (sneg alpha)) as [s1' r1'].
      unfold outA in H1 |- *. cbn [fst snd] in H1 |- *.
      destruct H1 as [[S1 <-]|[A1 E1]]; [left; split; [exact S1|reflexivity] | right; split; assumption].
  Qed.

  Lemma abloop_sim recC recF p a0 beta depth ply :
    simA recC recF -> inertA recC -> keepsA pos mv grows recF ->
    forall ms s s' alpha best pvs cnt, sim s s' ->
      outZ (ablpC recC p a0 beta depth ply ms s alpha best pvs cnt)
           (ablpF recF p a0 beta depth ply ms s' alpha best pvs cnt).
  Proof.
    intros HS HI HG. induction ms as [|m t IH]; intros s s' alpha best pvs cnt Hs.
    - cbn [abloop]. destruct cnt; left; cbn [fst snd]; (split; [|reflexivity]);
        [exact Hs | apply sim_tins, Hs].
    - rewrite !abloop_cons. destruct (negb (legal p m)); [apply IH, Hs|].
      pose proof (cscore_sim recC recF _ _ (make p m) alpha beta pvs HS HI HG
                             (sim_enter s s' (S ply) true Hs)) as H1.
      destruct (cscore recC _ _ _ _ _) as [s1 sc]. destruct (cscore recF _ _ _ _ _) as [s1' sc'].
      unfold outA in H1. cbn [fst snd] in H1.
      pose proof (abtailF_grows recF p a0 beta depth ply t m alpha best pvs cnt s1' sc' HG) as G.
      destruct H1 as [[S1 <-]|[A1 E1]].
      + unfold abtail in *.
        pose proof (abt_pair s1 s1' ply S1) as HP.
        destruct (abtC s1 ply) as [b0 s2]. destruct (abtF s1' ply) as [b0' s2'].
        cbn [fst snd] in HP. destruct HP as [[<- S2]|[-> [A2 T2]]].
        * destruct b0; [left; split; [exact S2|reflexivity]|].
          destruct (sc >=? beta);
            [left; cbn [fst snd]; split; [apply sim_skill, sim_tins, S2 | reflexivity]|].
          destruct (sc >? alpha); apply IH, S2.
        * right. apply (cut_intro _ _ s1 s1'); [exact A2 | exact T2 | apply ext_sim, S1 | exact G].
      + right. unfold abtail at 1 2.
        destruct (abtC_inert s1 ply A1) as [B1 [B2 B3]].
        destruct (abtC s1 ply) as [b0 s2]. cbn [fst snd] in B1, B2, B3. subst b0.
        apply (cut_intro _ _ s1 s1'); [exact B2 | exact B3 | exact E1 | exact G].
  Qed.

  Lemma ab_sim : forall f s s' p a b d ply, sim s s' -> outZ (abC f s p a b d ply) (abF f s' p a b d ply).
  Proof.
    induction f as [|f IH]; intros s s' p a b d ply Hs; [left; split; [exact Hs|reflexivity]|].
    pose proof (abF_grows (S f) s' p a b d ply) as G.
    rewrite gab_S in G. rewrite !gab_S.
    pose proof (abt_pair s s' ply Hs) as HP.
    destruct (abtC s ply) as [b0 s1]. destruct (abtF s' ply) as [b0' s1'].
    cbn [fst snd] in HP. destruct HP as [[<- S1]|[-> [A1 T1]]].
    2:{ right. apply (cut_intro _ _ s s'); [exact A1 | exact T1 | apply ext_sim, Hs | exact G]. }
    clear G.
    destruct b0; [left; split; [exact S1|reflexivity]|].
    destruct (N.leb 100 (halfmove p)); [left; split; [exact S1|reflexivity]|].
    destruct (repeated p); [left; split; [exact S1|reflexivity]|].
    cbv zeta.
    set (s2 := if tt_on then s1 else set_tt mv s1 (PositiveMap.empty _)).
    set (s2' := if tt_on then s1' else set_tt mv s1' (PositiveMap.empty _)).
    assert (S2 : sim s2 s2').
    { subst s2 s2'. destruct tt_on; [exact S1 | apply sim_set_tt, S1]. }
    clearbody s2 s2'.
    rewrite (probe_sim s2 s2' p d a b S2).
    destruct (probe pos mv key s2' p d a b) as [[[v|] alpha0] beta].
    - left. split; [exact S2|reflexivity].
    - destruct (if in_check p then S d else d) as [|dm1].
      + apply qs_sim, S2.
      + rewrite (order_sim s2 s2' p ply _ S2).
        apply abloop_sim; [|apply ab_recC_inert|apply ab_recF_grows|exact S2].
        intros t t' c a' b' St. unfold abrec. specialize (IH t t' c a' b' dm1 (S ply) St).
        destruct (abC f t c a' b' dm1 (S ply)) as [r u].
        destruct (abF f t' c a' b' dm1 (S ply)) as [r' u']. exact IH.
  Qed.

  Lemma ab_rec_sim f dm1 ply : simA (ab_recC f dm1 ply) (ab_recF f dm1 ply).
  Proof.
    intros t t' c a' b' St. unfold abrec. pose proof (ab_sim f t t' c a' b' dm1 (S ply) St) as H.
    destruct (abC f t c a' b' dm1 (S ply)) as [r u].
    destruct (abF f t' c a' b' dm1 (S ply)) as [r' u']. exact H.
  Qed.

  (* ---------------- the root ---------------- *)
  Lemma rootend_sim p depth alpha best s s' : sim s s' ->
    outS (rootndC p depth alpha best s) (rootndF p depth alpha best s').
  Proof.
    intros Hs. pose proof (rootendF_grows p depth alpha best s') as G. unfold rootend in *.
    pose proof (abt_pair s s' 0 Hs) as HP.
    destruct (abtC s 0) as [b0 s1]. destruct (abtF s' 0) as [b0' s1'].
    cbn [fst snd] in HP. destruct HP as [[<- S1]|[-> [A1 T1]]].
    - destruct b0; left; [exact S1 | apply sim_set_best, sim_tins, S1].
    - right. apply (cut_intro _ _ s s'); [exact A1 | exact T1 | apply ext_sim, Hs | exact G].
  Qed.

  Definition partial (s : State) (alpha : Z) (best : mv) : State :=
    match best_score mv s with
    | Some bs => if alpha >? bs then set_best mv s (Some best) (Some alpha) else s
    | None => s
    end.

  Lemma partial_keep s alpha best : Ab s -> Ab (partial s alpha best) /\ trc (partial s alpha best) = trc s.
  Proof.
    intros H. unfold partial. destruct (best_score mv s) as [bs|]; [|split; [exact H|reflexivity]].
    destruct (alpha >? bs); split; try exact H; reflexivity.
  Qed.

  Lemma partial_sim s s' alpha best : sim s s' -> sim (partial s alpha best) (partial s' alpha best).
  Proof.
    intros H. unfold partial. rewrite (sim_bs s s' H).
    destruct (best_score mv s') as [bs|]; [|exact H].
    destruct (alpha >? bs); [apply sim_set_best, H | exact H].
  Qed.

  Lemma rootloop_sim recC recF p depth :
    simA recC recF -> inertA recC -> keepsA pos mv grows recF ->
    forall ms s s' alpha best pvs cnt, sim s s' ->
      outS (rootlpC recC p depth ms s alpha best pvs cnt) (rootlpF recF p depth ms s' alpha best pvs cnt).
  Proof.
    intros HS HI HG. induction ms as [|m t IH]; intros s s' alpha best pvs cnt Hs.
    - rewrite !rootloop_nil. destruct cnt; [left; exact Hs | apply rootend_sim, Hs].
    - rewrite !rootloop_cons. destruct (negb (legal p m)); [apply IH, Hs|].
      pose proof (cscore_sim recC recF _ _ (make p m) alpha SCORE_MAX pvs HS HI HG
                             (sim_enter s s' 1 false Hs)) as H1.
      destruct (cscore recC _ _ _ _ _) as [s1 sc]. destruct (cscore recF _ _ _ _ _) as [s1' sc'].
      unfold outA in H1. cbn [fst snd] in H1.
      pose proof (roottailF_grows recF p depth t m alpha best pvs cnt s1' sc' HG) as G.
      destruct H1 as [[S1 <-]|[A1 E1]].
      + unfold roottail in *.
        pose proof (abt_pair s1 s1' 0 S1) as HP.
        destruct (abtC s1 0) as [b0 s2]. destruct (abtF s1' 0) as [b0' s2'].
        cbn [fst snd] in HP. destruct HP as [[<- S2]|[-> [A2 T2]]].
        * destruct b0; [left; apply (partial_sim s2 s2' alpha best S2)|].
          destruct (sc >? alpha); apply IH, S2.
        * right. destruct (partial_keep s2 alpha best A2) as [P1 P2].
          apply (cut_intro _ _ s1 s1'); [exact P1 | | apply ext_sim, S1 | exact G].
          unfold partial in P2. rewrite P2. exact T2.
      + right. unfold roottail at 1 2.
        destruct (abtC_inert s1 0 A1) as [B1 [B2 B3]].
        destruct (abtC s1 0) as [b0 s2]. cbn [fst snd] in B1, B2, B3. subst b0.
        destruct (partial_keep s2 alpha best B2) as [P1 P2].
        apply (cut_intro _ _ s1 s1'); [exact P1 | | exact E1 | exact G].
        unfold partial in P2. rewrite P2. exact B3.
  Qed.

  Lemma start_sim s s' p d : sim s s' -> outS (startC s p d) (startF s' p d).
  Proof.
    intros Hs. rewrite !gstart_eq. destruct (moves p) as [|m0 ms]; [left; exact Hs|].
    rewrite (order_sim s s' p 0%nat _ Hs).
    apply rootloop_sim; [apply ab_rec_sim | apply ab_recC_inert | apply ab_recF_grows | exact Hs].
  Qed.

  Lemma iter_sim p : forall k d s s' out out', sim s s' ->
    outS (fst (iterC k d s p out)) (fst (iterF k d s' p out')).
  Proof.
    induction k as [|k IH]; intros d s s' out out' Hs; [left; exact Hs|].
    rewrite !iter_S.
    pose proof (start_sim s s' p d Hs) as H1.
    set (t := startC s p d) in *. set (t' := startF s' p d) in *. clearbody t t'.
    pose proof (itertailF_grows k d p out' t') as G.
    destruct H1 as [S1|[A1 E1]].
    - unfold itertail in *.
      pose proof (abt_pair t t' 0 S1) as HP.
      destruct (abtC t 0) as [b0 s2]. destruct (abtF t' 0) as [b0' s2'].
      cbn [fst snd] in HP. destruct HP as [[<- S2]|[-> [A2 T2]]].
      + destruct b0; cbn [fst]; [left; exact S2 | apply IH, S2].
      + right. cbn [fst]. apply (cut_intro _ _ t t'); [exact A2 | exact T2 | apply ext_sim, S1 | exact G].
    - right. unfold itertail at 1 2.
      destruct (abtC_inert t 0 A1) as [B1 [B2 B3]].
      destruct (abtC t 0) as [b0 s2]. cbn [fst snd] in B1, B2, B3. subst b0. cbn [fst].
      apply (cut_intro _ _ t t'); [exact B2 | exact B3 | exact E1 | exact G].
  Qed.

  Lemma sim_refl s : run_ s = true -> sim s s.
  Proof. intros H. unfold sim. repeat split; assumption. Qed.

  Lemma search_prefix : forall (s0 : State) (p : pos) (D : option nat), run_ s0 = true ->
    exists later, map wrp (trc (fst (srchF s0 p D))) = later ++ map wrp (trc (fst (srchC s0 p D))).
  Proof.
    intros s0 p D H0. unfold search.
    pose proof (iter_sim p (match D with Some d => d | None => 255%nat end) 1%nat s0 s0 [] []
                         (sim_refl s0 H0)) as H.
    destruct (iterC _ 1%nat s0 p []) as [s out]. destruct (iterF _ 1%nat s0 p []) as [s' out'].
    cbn [fst snd set_running trace] in H |- *.
    destruct H as [S|[_ E]]; [exact (ext_sim _ _ S) | exact E].
  Qed.
End Prefix.

(* ------------------------------------------------------------------ *)
(* with the cache on, the cache is the initial cache plus the writes     *)
(* ------------------------------------------------------------------ *)
Lemma kpos_inj' a b : kpos a = kpos b -> a = b.
Proof. unfold kpos. intros H. rewrite <- (N.pos_pred_succ a), <- (N.pos_pred_succ b), H. reflexivity. Qed.

Section Cache.
  Variables pos mv : Type.
  Variable moves : pos -> list mv.
  Variable legal : pos -> mv -> bool.
  Variable make : pos -> mv -> pos.
  Variable in_check : pos -> bool.
  Variable evalf : pos -> Z.
  Variable is_cap is_promo : mv -> bool.
  Variable cap_score : mv -> N.
  Variable mv_eqb : mv -> mv -> bool.
  Variable key : pos -> N.
  Variable halfmove : pos -> N.
  Variable repeated : pos -> bool.
  Variable default_mv : mv.
  Variable tt_on : bool.
  Variable lim : Limits.
  Variable clock : nat -> N.
  Variable ext_stop : nat -> bool.
  Hypothesis cache_on : tt_on = true.

  Local Notation State := (St mv).
  Local Notation trc := (trace mv).
  Local Notation tins := (tt_insert mv ext_stop).
  Local Notation iter := (iter_loop pos mv moves legal make in_check evalf is_cap is_promo cap_score mv_eqb key
                                   halfmove repeated default_mv lim clock ext_stop tt_on).
  Local Notation srch := (search pos mv moves legal make in_check evalf is_cap is_promo cap_score mv_eqb key
                                   halfmove repeated default_mv lim clock ext_stop tt_on).

  Definition lookup (new : list (WriteEv mv)) (k : N) (dflt : option (TTEntry mv)) : option (TTEntry mv) :=
    match find (fun w => N.eqb (fst (fst (fst w))) k) new with
    | Some w => Some (snd (fst (fst w)))
    | None => dflt
    end.

  Lemma lookup_app l2 l1 k d : lookup (l2 ++ l1) k d = lookup l2 k (lookup l1 k d).
  Proof.
    unfold lookup. induction l2 as [|w l2 IH]; [reflexivity|].
    cbn [app find]. destruct (N.eqb (fst (fst (fst w))) k); [reflexivity | exact IH].
  Qed.

  Definition RC (s t : State) : Prop :=
    exists new, trc t = new ++ trc s /\ forall k, tt_get mv t k = lookup new k (tt_get mv s k).

  Lemma RC_trans a b c : RC a b -> RC b c -> RC a c.
  Proof.
    intros [n1 [T1 G1]] [n2 [T2 G2]]. exists (n2 ++ n1). split.
    - rewrite T2, T1. apply app_assoc.
    - intros k. rewrite G2, G1. symmetry. apply lookup_app.
  Qed.

  Lemma RC_frame (s t : State) : tt mv t = tt mv s -> trc t = trc s -> RC s t.
  Proof.
    intros H1 H2. exists []. split; [exact H2|]. intros k. unfold tt_get, lookup. cbn [find].
    rewrite H1. reflexivity.
  Qed.

  Lemma RC_tins (s : State) k e : RC s (tins s k e).
  Proof.
    exists [(k, e, nodes mv s, flag_now mv ext_stop s)]. split; [reflexivity|].
    intros k'. unfold tt_get, lookup. cbn [find fst snd tt tt_insert].
    destruct (N.eqb k k') eqn:E.
    - apply N.eqb_eq in E. subst k'. apply PositiveMap.gss.
    - apply N.eqb_neq in E. apply PositiveMap.gso. intros H. apply kpos_inj' in H. congruence.
  Qed.

  Lemma RC_empty : tt_on = false -> forall s : State, RC s (set_tt mv s (PositiveMap.empty _)).
  Proof. intros H. congruence. Qed.

  Lemma iter_RC p : forall k d s out, RC s (fst (iter k d s p out)).
  Proof.
    apply iter_R; first [exact RC_trans | exact RC_frame | exact RC_tins | exact RC_empty].
  Qed.

  Lemma firstn_new (A : Type) (new old : list A) :
    firstn (length (new ++ old) - length old) (new ++ old) = new.
  Proof.
    rewrite app_length.
    replace (length new + length old - length old)%nat with (length new) by lia.
    rewrite firstn_app, firstn_all, Nat.sub_diag. cbn [firstn]. apply app_nil_r.
  Qed.

  Lemma search_cache : forall (s0 : State) (p : pos) (D : option nat) k,
    tt_get mv (fst (srch s0 p D)) k
    = lookup (firstn (length (trc (fst (srch s0 p D))) - length (trc s0)) (trc (fst (srch s0 p D))))
             k (tt_get mv s0 k).
  Proof.
    intros s0 p D k. unfold search.
    pose proof (iter_RC p (match D with Some d => d | None => 255%nat end) 1%nat s0 []) as H.
    destruct (iter _ 1%nat s0 p []) as [s out].
    cbn [fst snd] in H |- *.
    change (trc (set_running mv s false)) with (trc s).
    change (tt_get mv (set_running mv s false) k) with (tt_get mv s k).
    destruct H as [new [T G]]. rewrite T, firstn_new. apply G.
  Qed.
End Cache.

(* ------------------------------------------------------------------ *)
(* the statements in the form used by props/C13prefix.v                 *)
(* ------------------------------------------------------------------ *)
Section Statements.
  Variables pos mv : Type.
  Variable moves : pos -> list mv.
  Variable legal : pos -> mv -> bool.
  Variable make : pos -> mv -> pos.
  Variable in_check : pos -> bool.
  Variable evalf : pos -> Z.
  Variable is_cap is_promo : mv -> bool.
  Variable cap_score : mv -> N.
  Variable mv_eqb : mv -> mv -> bool.
  Variable key : pos -> N.
  Variable halfmove : pos -> N.
  Variable repeated : pos -> bool.
  Variable default_mv : mv.
  Variable tt_on : bool.

  Local Notation run lim clock ext_stop :=
    (search pos mv moves legal make in_check evalf is_cap is_promo cap_score mv_eqb key
            halfmove repeated default_mv lim clock ext_stop tt_on).

  Lemma cut_writes_prefix : forall (lim : Limits) (clock clock' : nat -> N) (ext_stop : nat -> bool)
                                   (s0 : St mv) (p : pos) (D : option nat),
    mono_clk clock -> mono_stp ext_stop -> running mv s0 = true ->
    exists later,
      map (wrp mv) (trace mv (fst (run no_limits clock' (fun _ => false) s0 p D)))
      = later ++ map (wrp mv) (trace mv (fst (run lim clock ext_stop s0 p D))).
  Proof.
    intros lim clock clock' ext_stop s0 p D Hc Hs H0.
    exact (search_prefix pos mv moves legal make in_check evalf is_cap is_promo cap_score mv_eqb key
                         halfmove repeated default_mv tt_on lim clock clock' ext_stop Hc Hs s0 p D H0).
  Qed.

  Lemma cut_cache_from_trace : forall (lim : Limits) (clock clock' : nat -> N) (ext_stop : nat -> bool)
                                      (s0 : St mv) (p : pos) (D : option nat),
    mono_clk clock -> mono_stp ext_stop -> running mv s0 = true -> tt_on = true ->
    forall k, tt_get mv (fst (run lim clock ext_stop s0 p D)) k
              = match find (fun w => N.eqb (fst (fst (wrp mv w))) k)
                           (firstn (length (trace mv (fst (run lim clock ext_stop s0 p D))) - length (trace mv s0))
                                   (trace mv (fst (run lim clock ext_stop s0 p D)))) with
                | Some w => Some (snd (fst (wrp mv w)))
                | None => tt_get mv s0 k
                end.
  Proof.
    intros lim clock clock' ext_stop s0 p D _ _ _ Hon k.
    exact (search_cache pos mv moves legal make in_check evalf is_cap is_promo cap_score mv_eqb key
                        halfmove repeated default_mv tt_on lim clock ext_stop Hon s0 p D k).
  Qed.
End Statements.
