(* BoardProofsPBB.v — squares, masks, and the twelve piece bitboards seen as a function
   square -> PieceAt.  Everything later (make/unmake round trip, preservation of well-formedness,
   the key) is proved through the representation predicate [Rep]. *)
From Coq Require Import NArith ZArith List Lia Bool.
Import ListNotations.
From RCE Require Import lib.Bits generated.Consts generated.ZTable model.Board model.Wf.
Open Scope N_scope.

Local Opaque z_piece z_castle z_ep z_turn zt.

(* ------------------------------------------------------------------ *)
(* decidable equalities *)
Lemma sq_eqb_spec a b : reflect (a = b) (sq_eqb a b).
Proof.
  destruct a as [r f], b as [r' f']. unfold sq_eqb; cbn [rank file].
  destruct (Nat.eqb_spec r r'), (Nat.eqb_spec f f'); cbn; constructor; congruence.
Qed.
Lemma sq_eqb_refl a : sq_eqb a a = true.
Proof. destruct (sq_eqb_spec a a); congruence. Qed.
Lemma sq_eqb_neq a b : a <> b -> sq_eqb a b = false.
Proof. destruct (sq_eqb_spec a b); congruence. Qed.
Lemma sq_eqb_neq' a b : b <> a -> sq_eqb a b = false.
Proof. destruct (sq_eqb_spec a b); congruence. Qed.
Lemma sq_eqb_false a b : sq_eqb a b = false -> a <> b.
Proof. destruct (sq_eqb_spec a b); congruence. Qed.

Lemma color_eqb_spec a b : reflect (a = b) (color_eqb a b).
Proof. destruct a, b; cbn; constructor; congruence. Qed.
Lemma ptype_eqb_spec a b : reflect (a = b) (ptype_eqb a b).
Proof. destruct a, b; cbn; constructor; congruence. Qed.
Lemma kind_eqb_spec a b : reflect (a = b) (kind_eqb a b).
Proof.
  destruct a as [t c], b as [t' c']. unfold kind_eqb; cbn [fst snd].
  destruct (ptype_eqb_spec t t'), (color_eqb_spec c c'); cbn; constructor; congruence.
Qed.
Lemma kind_eqb_refl a : kind_eqb a a = true.
Proof. destruct (kind_eqb_spec a a); congruence. Qed.
Lemma okind_eqb_eq a b : okind_eqb a b = true -> a = b.
Proof.
  destruct a, b; cbn; try congruence. intros H.
  destruct (kind_eqb_spec k k0); congruence.
Qed.
Lemma opposite_involutive c : opposite (opposite c) = c.
Proof. destruct c; reflexivity. Qed.

(* ------------------------------------------------------------------ *)
(* squares and masks *)
Lemma sq_mask_sweep :
  forallb (fun r => forallb (fun f => N.eqb (sq_mask (mkSq r f)) (bit (r * 8 + f))) (seq 0 8)) (seq 0 8) = true.
Proof. vm_compute. reflexivity. Qed.

Lemma sq_valid_lt s : sq_valid s = true -> (rank s < 8 /\ file s < 8)%nat.
Proof.
  unfold sq_valid. intros H. apply andb_true_iff in H. destruct H as [Hr Hf].
  apply Nat.ltb_lt in Hr, Hf. split; assumption.
Qed.

Lemma sq_mask_valid s : sq_valid s = true -> sq_mask s = bit (idx s).
Proof.
  intros H. apply sq_valid_lt in H. destruct s as [r f]. unfold idx; cbn [rank file] in *.
  destruct H as [Hr Hf].
  pose proof (proj1 (forallb_forall _ _) sq_mask_sweep r) as S1. cbv beta in S1.
  assert (Ir : In r (seq 0 8)) by (apply in_seq; lia).
  specialize (S1 Ir).
  pose proof (proj1 (forallb_forall _ _) S1 f) as S2. cbv beta in S2.
  apply N.eqb_eq. apply S2. apply in_seq; lia.
Qed.

Lemma idx_lt s : sq_valid s = true -> (idx s < 64)%nat.
Proof. intros H. apply sq_valid_lt in H. unfold idx. lia. Qed.

Lemma idx_inj s s' : sq_valid s = true -> sq_valid s' = true -> idx s = idx s' -> s = s'.
Proof.
  intros H H'. apply sq_valid_lt in H. apply sq_valid_lt in H'.
  destruct s as [r f], s' as [r' f']. unfold idx; cbn [rank file] in *. intros E.
  assert (r = r') by lia. assert (f = f') by lia. subst. reflexivity.
Qed.

Lemma idx_sq_of_idx i : idx (sq_of_idx i) = i.
Proof.
  unfold idx, sq_of_idx; cbn [rank file].
  pose proof (Nat.div_mod i 8). lia.
Qed.

Lemma sq_of_idx_valid i : (i < 64)%nat -> sq_valid (sq_of_idx i) = true.
Proof.
  intros H. unfold sq_valid, sq_of_idx; cbn [rank file].
  apply andb_true_iff. split; apply Nat.ltb_lt.
  - apply Nat.div_lt_upper_bound; lia.
  - apply Nat.mod_upper_bound. lia.
Qed.

Lemma sq_of_idx_idx s : sq_valid s = true -> sq_of_idx (idx s) = s.
Proof.
  intros H. apply idx_inj.
  - apply sq_of_idx_valid. apply idx_lt. exact H.
  - exact H.
  - apply idx_sq_of_idx.
Qed.

(* ------------------------------------------------------------------ *)
(* bits *)
Lemma nonempty_land_bit i x : nonempty (N.land (bit i) x) = N.testbit x (N.of_nat i).
Proof.
  unfold nonempty. destruct (N.testbit x (N.of_nat i)) eqn:E.
  - destruct (N.eqb_spec (N.land (bit i) x) 0) as [Z|Z]; [|reflexivity].
    assert (B : N.testbit (N.land (bit i) x) (N.of_nat i) = true).
    { rewrite N.land_spec, bit_spec, N.eqb_refl, E. reflexivity. }
    rewrite Z, N.bits_0 in B. discriminate.
  - assert (Z : N.land (bit i) x = 0).
    { apply N.bits_inj_0. intros n. rewrite N.land_spec, bit_spec.
      destruct (N.eqb_spec n (N.of_nat i)) as [->|]; [rewrite E|]; reflexivity. }
    rewrite Z. reflexivity.
Qed.

Lemma lt64_bits x : x < 2^64 <-> (forall n, 64 <= n -> N.testbit x n = false).
Proof.
  split.
  - intros H n Hn. rewrite <- (wrap_small x H), wrap_spec.
    destruct (N.ltb_spec n 64); [lia|]. apply andb_false_r.
  - intros H. assert (E : wrap x = x).
    { apply N.bits_inj. intros n. rewrite wrap_spec.
      destruct (N.ltb_spec n 64); [apply andb_true_r|]. rewrite (H n) by assumption. reflexivity. }
    rewrite <- E. apply wrap_lt.
Qed.

Lemma lt64_true x : lt64 x = true <-> x < 2^64.
Proof. unfold lt64. change 18446744073709551616 with (2^64). apply N.ltb_lt. Qed.

Lemma not64_spec x n : N.testbit (not64 x) n = negb (N.testbit x n) && N.ltb n 64.
Proof.
  unfold not64. rewrite N.lxor_spec, wrap_spec, ones64_spec.
  destruct (N.testbit x n), (N.ltb n 64); reflexivity.
Qed.

(* ------------------------------------------------------------------ *)
(* the twelve kinds *)
Definition kinds : list Kind :=
  [(Pawn, White); (King, White); (Queen, White); (Rook, White); (Knight, White); (Bishop, White);
   (Pawn, Black); (King, Black); (Queen, Black); (Rook, Black); (Knight, Black); (Bishop, Black)].

Lemma kinds_all k : In k kinds.
Proof. destruct k as [[] []]; cbn; tauto. Qed.
Lemma kinds_nodup : NoDup kinds.
Proof.
  unfold kinds.
  repeat (constructor; [cbn; intros H; repeat (destruct H as [H|H]; [discriminate|]); exact H|]).
  constructor.
Qed.
Lemma piece_boards_map p : piece_boards p = map (bb_get p) kinds.
Proof. reflexivity. Qed.

Lemma pairwise_disjoint_elim {A} (f : A -> N) l :
  pairwise_disjoint (map f l) = true ->
  forall a b, In a l -> In b l -> a <> b -> N.land (f a) (f b) = 0.
Proof.
  induction l as [|x t IH]; cbn [map pairwise_disjoint]; intros H a b Ha Hb Hab.
  - destruct Ha.
  - apply andb_true_iff in H. destruct H as [H1 H2].
    rewrite forallb_forall in H1.
    destruct Ha as [Ha|Ha], Hb as [Hb|Hb].
    + congruence.
    + subst a. apply N.eqb_eq. apply H1. apply in_map. exact Hb.
    + subst b. rewrite N.land_comm. apply N.eqb_eq. apply H1. apply in_map. exact Ha.
    + apply IH; assumption.
Qed.

Lemma pairwise_disjoint_intro {A} (f : A -> N) l :
  NoDup l -> (forall a b, In a l -> In b l -> a <> b -> N.land (f a) (f b) = 0) ->
  pairwise_disjoint (map f l) = true.
Proof.
  induction l as [|x t IH]; cbn [map pairwise_disjoint]; intros ND H.
  - reflexivity.
  - inversion ND as [|? ? Hx ND']; subst. apply andb_true_iff. split.
    + apply forallb_forall. intros y Hy. apply in_map_iff in Hy. destruct Hy as [b [<- Hb]].
      apply N.eqb_eq. apply H; [left; reflexivity|right; exact Hb|].
      intros ->. contradiction.
    + apply IH; [exact ND'|]. intros a b Ha Hb. apply H; right; assumption.
Qed.

Record PWf (p : PBB) : Prop := mkPWf {
  pw_lt : forall k, bb_get p k < 2^64;
  pw_dis : forall k1 k2, k1 <> k2 -> N.land (bb_get p k1) (bb_get p k2) = 0;
  pw_w : white_pieces p = white_union p;
  pw_b : black_pieces p = black_union p;
  pw_a : all_pieces p = N.lor (white_pieces p) (black_pieces p) }.

Lemma pbb_wf_iff p : pbb_wf p = true <-> PWf p.
Proof.
  unfold pbb_wf. rewrite piece_boards_map. split.
  - intros H. do 4 (apply andb_true_iff in H; destruct H as [H ?]).
    constructor.
    + intros k. apply lt64_true. rewrite forallb_forall in H. apply H. apply in_map. apply kinds_all.
    + intros k1 k2. apply (pairwise_disjoint_elim (bb_get p) kinds); auto using kinds_all.
    + apply N.eqb_eq. assumption.
    + apply N.eqb_eq. assumption.
    + apply N.eqb_eq. assumption.
  - intros [Hlt Hdis Hw Hb Ha].
    apply andb_true_iff; split; [apply andb_true_iff; split; [apply andb_true_iff; split;
      [apply andb_true_iff; split|]|]|].
    + apply forallb_forall. intros x Hx. apply in_map_iff in Hx. destruct Hx as [k [<- _]].
      apply lt64_true. apply Hlt.
    + apply pairwise_disjoint_intro; [apply kinds_nodup|]. intros a b _ _. apply Hdis.
    + apply N.eqb_eq. exact Hw.
    + apply N.eqb_eq. exact Hb.
    + apply N.eqb_eq. exact Ha.
Qed.

(* occupancy of kind k at bit n *)
Definition occ (p : PBB) (k : Kind) (n : N) : bool := N.testbit (bb_get p k) n.

Lemma occ_disjoint p k1 k2 n : PWf p -> k1 <> k2 -> occ p k1 n = true -> occ p k2 n = false.
Proof.
  intros W Hk H1. unfold occ in *.
  pose proof (pw_dis p W k1 k2 Hk) as Z.
  assert (B : N.testbit (N.land (bb_get p k1) (bb_get p k2)) n = false) by (rewrite Z; apply N.bits_0).
  rewrite N.land_spec, H1 in B. exact B.
Qed.

Lemma occ_high p k n : PWf p -> 64 <= n -> occ p k n = false.
Proof. intros W Hn. unfold occ. apply (proj1 (lt64_bits _) (pw_lt p W k)). exact Hn. Qed.

(* get_piece_kind through occupancy *)
Lemma gpk_unfold p s : PWf p -> sq_valid s = true ->
  get_piece_kind p s =
  let o := fun k => occ p k (N.of_nat (idx s)) in
  if o (Pawn, White) || o (Knight, White) || o (Bishop, White) || o (Rook, White) || o (Queen, White) || o (King, White) then
    if o (Pawn, White) then PSome (Pawn, White)
    else if o (King, White) then PSome (King, White)
    else if o (Queen, White) then PSome (Queen, White)
    else if o (Rook, White) then PSome (Rook, White)
    else if o (Knight, White) then PSome (Knight, White)
    else if o (Bishop, White) then PSome (Bishop, White)
    else PMalformed
  else if o (Pawn, Black) || o (Knight, Black) || o (Bishop, Black) || o (Rook, Black) || o (Queen, Black) || o (King, Black) then
    if o (Pawn, Black) then PSome (Pawn, Black)
    else if o (King, Black) then PSome (King, Black)
    else if o (Queen, Black) then PSome (Queen, Black)
    else if o (Rook, Black) then PSome (Rook, Black)
    else if o (Knight, Black) then PSome (Knight, Black)
    else if o (Bishop, Black) then PSome (Bishop, Black)
    else PMalformed
  else PNone.
Proof.
  intros W V. unfold get_piece_kind. rewrite (sq_mask_valid s V).
  cbv zeta. rewrite !nonempty_land_bit.
  rewrite (pw_w p W), (pw_b p W). unfold white_union, black_union.
  rewrite !N.lor_spec. unfold occ. cbn [bb_get]. reflexivity.
Qed.

Lemma gpk_some p s k : PWf p -> sq_valid s = true ->
  occ p k (N.of_nat (idx s)) = true -> get_piece_kind p s = PSome k.
Proof.
  intros W V H. rewrite (gpk_unfold p s W V). cbv beta zeta.
  assert (O : forall k', k <> k' -> occ p k' (N.of_nat (idx s)) = false).
  { intros k' Hk. apply (occ_disjoint p k k'); assumption. }
  destruct k as [[] []]; rewrite H;
    repeat match goal with
           | |- context [occ p ?k' ?n] =>
             rewrite (O k') by discriminate
           end; reflexivity.
Qed.

Lemma gpk_none p s : PWf p -> sq_valid s = true ->
  (forall k, occ p k (N.of_nat (idx s)) = false) -> get_piece_kind p s = PNone.
Proof.
  intros W V H. rewrite (gpk_unfold p s W V). cbv beta zeta. rewrite !H. reflexivity.
Qed.

Lemma gpk_cases p s : PWf p -> sq_valid s = true ->
  (exists k, occ p k (N.of_nat (idx s)) = true /\ get_piece_kind p s = PSome k) \/
  ((forall k, occ p k (N.of_nat (idx s)) = false) /\ get_piece_kind p s = PNone).
Proof.
  intros W V.
  destruct (existsb (fun k => occ p k (N.of_nat (idx s))) kinds) eqn:E.
  - left. apply existsb_exists in E. destruct E as [k [_ Hk]]. exists k. split; [exact Hk|].
    apply gpk_some; assumption.
  - right. assert (A : forall k, occ p k (N.of_nat (idx s)) = false).
    { intros k. destruct (occ p k (N.of_nat (idx s))) eqn:Ek; [|reflexivity].
      assert (X : existsb (fun k => occ p k (N.of_nat (idx s))) kinds = true).
      { apply existsb_exists. exists k. split; [apply kinds_all|exact Ek]. }
      congruence. }
    split; [exact A|]. apply gpk_none; assumption.
Qed.

Lemma gpk_some_iff p s k : PWf p -> sq_valid s = true ->
  (get_piece_kind p s = PSome k <-> occ p k (N.of_nat (idx s)) = true).
Proof.
  intros W V. split; [|apply gpk_some; assumption].
  intros H. destruct (gpk_cases p s W V) as [[k' [Hk' E]]|[_ E]]; congruence.
Qed.

Lemma gpk_none_iff p s : PWf p -> sq_valid s = true ->
  (get_piece_kind p s = PNone <-> forall k, occ p k (N.of_nat (idx s)) = false).
Proof.
  intros W V. split; [|apply gpk_none; assumption].
  intros H. destruct (gpk_cases p s W V) as [[k' [Hk' E]]|[A _]]; [congruence|exact A].
Qed.

Lemma gpk_not_malformed p s : PWf p -> sq_valid s = true -> get_piece_kind p s <> PMalformed.
Proof.
  intros W V. destruct (gpk_cases p s W V) as [[k' [Hk' E]]|[_ E]]; congruence.
Qed.

(* equal occupancy at a square gives equal get_piece_kind *)
Lemma gpk_congr p q s : PWf p -> PWf q -> sq_valid s = true ->
  (forall k, occ p k (N.of_nat (idx s)) = occ q k (N.of_nat (idx s))) ->
  get_piece_kind p s = get_piece_kind q s.
Proof.
  intros Wp Wq V H.
  destruct (gpk_cases p s Wp V) as [[k [Hk E]]|[A E]]; rewrite E; symmetry.
  - apply gpk_some; [assumption..|]. rewrite <- H. exact Hk.
  - apply gpk_none; [assumption..|]. intros k. rewrite <- H. apply A.
Qed.

(* a well-formed PBB is determined by get_piece_kind on the 64 squares *)
Lemma pbb_ext p q : PWf p -> PWf q ->
  (forall s, sq_valid s = true -> get_piece_kind p s = get_piece_kind q s) -> p = q.
Proof.
  intros Wp Wq H.
  assert (B : forall k, bb_get p k = bb_get q k).
  { intros k. apply N.bits_inj. intros n.
    destruct (N.lt_ge_cases n 64) as [Hn|Hn].
    - set (i := N.to_nat n). assert (Hi : (i < 64)%nat) by (unfold i; lia).
      assert (En : n = N.of_nat (idx (sq_of_idx i))) by (rewrite idx_sq_of_idx; unfold i; lia).
      pose proof (sq_of_idx_valid i Hi) as V. specialize (H _ V).
      pose proof (gpk_some_iff p _ k Wp V) as Ip. pose proof (gpk_some_iff q _ k Wq V) as Iq.
      rewrite H in Ip. unfold occ in Ip, Iq. rewrite <- En in Ip, Iq.
      apply eq_true_iff_eq. rewrite <- Ip, <- Iq. reflexivity.
    - pose proof (occ_high p k n Wp Hn) as Ep. pose proof (occ_high q k n Wq Hn) as Eq.
      unfold occ in *. congruence. }
  destruct Wp as [_ _ Pw Pb Pa], Wq as [_ _ Qw Qb Qa].
  pose proof (B (Pawn, White)). pose proof (B (King, White)). pose proof (B (Queen, White)).
  pose proof (B (Rook, White)). pose proof (B (Knight, White)). pose proof (B (Bishop, White)).
  pose proof (B (Pawn, Black)). pose proof (B (King, Black)). pose proof (B (Queen, Black)).
  pose proof (B (Rook, Black)). pose proof (B (Knight, Black)). pose proof (B (Bishop, Black)).
  clear B H.
  destruct p, q. unfold white_union, black_union in *. cbn in *.
  subst. reflexivity.
Qed.

(* ------------------------------------------------------------------ *)
(* bb_set / recompute / pbb_add / pbb_remove on the twelve boards *)
Lemma bb_get_set p k v k' : bb_get (bb_set p k v) k' = if kind_eqb k k' then v else bb_get p k'.
Proof. destruct k as [[] []], k' as [[] []]; reflexivity. Qed.
Lemma bb_get_recompute p c k : bb_get (recompute p c) k = bb_get p k.
Proof. destruct k as [[] []]; reflexivity. Qed.

Lemma bb_get_add p s k k' :
  bb_get (pbb_add p s k) k' = if kind_eqb k k' then N.lor (bb_get p k) (sq_mask s) else bb_get p k'.
Proof. unfold pbb_add. rewrite bb_get_recompute, bb_get_set. reflexivity. Qed.
Lemma bb_get_remove p s k k' :
  bb_get (pbb_remove p s k) k' =
  if kind_eqb k k' then N.land (bb_get p k) (not64 (sq_mask s)) else bb_get p k'.
Proof. unfold pbb_remove. rewrite bb_get_recompute, bb_get_set. reflexivity. Qed.

Lemma occ_add p s k k' n : sq_valid s = true ->
  occ (pbb_add p s k) k' n = occ p k' n || (kind_eqb k k' && N.eqb n (N.of_nat (idx s))).
Proof.
  intros V. unfold occ. rewrite bb_get_add, (sq_mask_valid s V).
  destruct (kind_eqb_spec k k') as [->|].
  - rewrite N.lor_spec, bit_spec. reflexivity.
  - rewrite orb_false_r. reflexivity.
Qed.
Lemma occ_remove p s k k' n : PWf p -> sq_valid s = true ->
  occ (pbb_remove p s k) k' n = occ p k' n && negb (kind_eqb k k' && N.eqb n (N.of_nat (idx s))).
Proof.
  intros W V. unfold occ. rewrite bb_get_remove, (sq_mask_valid s V).
  destruct (kind_eqb_spec k k') as [->|].
  - rewrite N.land_spec, not64_spec, bit_spec. cbn [andb].
    destruct (N.ltb_spec n 64) as [Hn|Hn].
    + rewrite andb_true_r. reflexivity.
    + fold (occ p k' n). rewrite (occ_high p k' n W Hn). reflexivity.
  - cbn [andb negb]. rewrite andb_true_r. reflexivity.
Qed.

Lemma unions_add p s k : PWf p ->
  let q := pbb_add p s k in
  white_pieces q = white_union q /\ black_pieces q = black_union q /\
  all_pieces q = N.lor (white_pieces q) (black_pieces q).
Proof.
  intros [_ _ Pw Pb Pa]. destruct p. unfold white_union, black_union in *.
  destruct k as [[] []]; cbn in *; subst; auto.
Qed.
Lemma unions_remove p s k : PWf p ->
  let q := pbb_remove p s k in
  white_pieces q = white_union q /\ black_pieces q = black_union q /\
  all_pieces q = N.lor (white_pieces q) (black_pieces q).
Proof.
  intros [_ _ Pw Pb Pa]. destruct p. unfold white_union, black_union in *.
  destruct k as [[] []]; cbn in *; subst; auto.
Qed.

Lemma land_zero_bits x y : (forall n, N.testbit x n && N.testbit y n = false) -> N.land x y = 0.
Proof. intros H. apply N.bits_inj_0. intros n. rewrite N.land_spec. apply H. Qed.

Lemma occ_pair_false p k1 k2 n : PWf p -> k1 <> k2 -> occ p k1 n && occ p k2 n = false.
Proof.
  intros W Hk. destruct (occ p k1 n) eqn:E; [|reflexivity].
  rewrite (occ_disjoint p k1 k2 n W Hk E). reflexivity.
Qed.

Lemma PWf_add p s k : PWf p -> sq_valid s = true -> get_piece_kind p s = PNone -> PWf (pbb_add p s k).
Proof.
  intros W V E. pose proof (proj1 (gpk_none_iff p s W V) E) as A.
  destruct (unions_add p s k W) as [Uw [Ub Ua]].
  constructor; try assumption.
  - intros k'. apply lt64_bits. intros n Hn. fold (occ (pbb_add p s k) k' n).
    rewrite (occ_add _ _ _ _ _ V), (occ_high p k' n W Hn).
    pose proof (idx_lt s V). destruct (N.eqb_spec n (N.of_nat (idx s))); [lia|].
    rewrite andb_false_r. reflexivity.
  - intros k1 k2 Hk. apply land_zero_bits. intros n.
    fold (occ (pbb_add p s k) k1 n). fold (occ (pbb_add p s k) k2 n).
    rewrite !(occ_add _ _ _ _ _ V).
    pose proof (occ_pair_false p k1 k2 n W Hk) as D.
    destruct (N.eqb_spec n (N.of_nat (idx s))) as [->|].
    + rewrite !A. destruct (kind_eqb_spec k k1), (kind_eqb_spec k k2); try reflexivity. congruence.
    + rewrite !andb_false_r, !orb_false_r. exact D.
Qed.

Lemma PWf_remove p s k : PWf p -> sq_valid s = true -> PWf (pbb_remove p s k).
Proof.
  intros W V.
  destruct (unions_remove p s k W) as [Uw [Ub Ua]].
  constructor; try assumption.
  - intros k'. apply lt64_bits. intros n Hn. fold (occ (pbb_remove p s k) k' n).
    rewrite (occ_remove _ _ _ _ _ W V), (occ_high p k' n W Hn). reflexivity.
  - intros k1 k2 Hk. apply land_zero_bits. intros n.
    fold (occ (pbb_remove p s k) k1 n). fold (occ (pbb_remove p s k) k2 n).
    rewrite !(occ_remove _ _ _ _ _ W V).
    pose proof (occ_pair_false p k1 k2 n W Hk) as D.
    destruct (occ p k1 n), (occ p k2 n); try discriminate; cbn; try reflexivity.
    apply andb_false_r.
Qed.

(* ------------------------------------------------------------------ *)
(* function view *)
Definition upd (g : Square -> PieceAt) (s : Square) (v : PieceAt) : Square -> PieceAt :=
  fun x => if sq_eqb s x then v else g x.

Lemma gpk_add p s k x : PWf p -> sq_valid s = true -> get_piece_kind p s = PNone -> sq_valid x = true ->
  get_piece_kind (pbb_add p s k) x = upd (get_piece_kind p) s (PSome k) x.
Proof.
  intros W V E Vx. pose proof (PWf_add p s k W V E) as W'. unfold upd.
  destruct (sq_eqb_spec s x) as [<-|N].
  - apply gpk_some; [assumption..|]. rewrite (occ_add _ _ _ _ _ V), kind_eqb_refl, N.eqb_refl.
    apply orb_true_r.
  - apply gpk_congr; [assumption..|]. intros k'. rewrite (occ_add _ _ _ _ _ V).
    destruct (N.eqb_spec (N.of_nat (idx x)) (N.of_nat (idx s))) as [Ei|Ei].
    + exfalso. apply N. symmetry. apply idx_inj; [assumption..|]. lia.
    + rewrite andb_false_r, orb_false_r. reflexivity.
Qed.

Lemma gpk_remove p s k x : PWf p -> sq_valid s = true -> get_piece_kind p s = PSome k -> sq_valid x = true ->
  get_piece_kind (pbb_remove p s k) x = upd (get_piece_kind p) s PNone x.
Proof.
  intros W V E Vx. pose proof (PWf_remove p s k W V) as W'. unfold upd.
  pose proof (proj1 (gpk_some_iff p s k W V) E) as A.
  destruct (sq_eqb_spec s x) as [<-|N].
  - apply gpk_none; [assumption..|]. intros k'. rewrite (occ_remove _ _ _ _ _ W V), N.eqb_refl.
    destruct (kind_eqb_spec k k') as [<-|Hk].
    + cbn. apply andb_false_r.
    + cbn. rewrite andb_true_r. apply (occ_disjoint p k k'); assumption.
  - apply gpk_congr; [assumption..|]. intros k'. rewrite (occ_remove _ _ _ _ _ W V).
    destruct (N.eqb_spec (N.of_nat (idx x)) (N.of_nat (idx s))) as [Ei|Ei].
    + exfalso. apply N. symmetry. apply idx_inj; [assumption..|]. lia.
    + rewrite andb_false_r. cbn. apply andb_true_r.
Qed.
