(* finite sweep, all 64 squares of the bishop table *)
From Coq Require Import NArith List.
From RCE Require Import lib.Bits lib.Geometry generated.Consts model.Tables proofs.TablesProofs.
Lemma bishop_sweep :
  sweep_range bishop_dirs bishop_mask_model bishop_slow bishop_magics bishop_bits bishop_size 0 64 = true.
Proof. vm_cast_no_check (eq_refl true). Qed.
