(* RulesProofsA.v — the composition for C01 (and the one-step refinement C03_step): the per-piece
   generation lemmas of GenProofs/PawnProofs, instantiated with the attack geometry of
   AttackProofs, give the pseudo-legal, legal, mate/stalemate and no-duplicate statements for
   get_all_moves / get_legal_moves on every board satisfying wf_rules. *)
From Coq Require Import NArith ZArith List Lia Bool.
Import ListNotations.
From RCE Require Import lib.Bits lib.Geometry model.Board model.Movegen model.Wf model.WfFull spec.Rules model.Abs.
From RCE Require Import proofs.BoardProofsPBB proofs.BoardProofs.
From RCE Require Export proofs.AttackProofs.
From RCE Require Import proofs.GenProofs proofs.PawnProofs proofs.ApplyProofs.

Local Close Scope N_scope.
Local Open Scope nat_scope.

Local Opaque pawn_attacks.

(* ------------------------------------------------------------------ *)
(* 1. popcount <= 1 means at most one bit; kings_ok gives king_unique *)
Lemma ppop_pos p : 1 <= ppop p.
Proof. induction p; cbn [ppop]; lia. Qed.

Lemma ppop_one p : ppop p <= 1 ->
  forall n m, N.testbit (Npos p) n = true -> N.testbit (Npos p) m = true -> n = m.
Proof.
  induction p as [p IH|p IH|]; intros H n m Hn Hm.
  - cbn [ppop] in H. pose proof (ppop_pos p). lia.
  - cbn [ppop] in H. change (Npos p~0) with (2 * Npos p)%N in Hn, Hm.
    destruct (N.zero_or_succ n) as [->|[n' ->]]; [rewrite N.testbit_even_0 in Hn; discriminate|].
    destruct (N.zero_or_succ m) as [->|[m' ->]]; [rewrite N.testbit_even_0 in Hm; discriminate|].
    rewrite N.testbit_even_succ in Hn, Hm by apply N.le_0_l.
    f_equal. apply IH; assumption.
  - destruct n as [|k]; [|cbn in Hn; discriminate].
    destruct m as [|k]; [|cbn in Hm; discriminate]. reflexivity.
Qed.

Lemma popcount_one x i j : popcount x <= 1 -> tb x i = true -> tb x j = true -> i = j.
Proof.
  intros H Hi Hj. unfold tb in *. destruct x as [|p].
  - rewrite N.bits_0 in Hi. discriminate.
  - cbn [popcount] in H. apply Nat2N.inj. apply (ppop_one p H); assumption.
Qed.

Lemma kings_ok_unique : forall b, pbb_wf (bbs b) = true -> kings_ok b = true -> king_unique b.
Proof.
  intros b W K c s1 s2 V1 V2 G1 G2. apply pbb_wf_iff in W.
  apply (get_piece_occ b s1 _ W V1) in G1. apply (get_piece_occ b s2 _ W V2) in G2.
  unfold kings_ok in K. apply andb_true_iff in K. destruct K as [Kw Kb].
  apply Nat.leb_le in Kw, Kb. unfold occ in G1, G2.
  apply idx_inj; [assumption|assumption|].
  destruct c; cbn [bb_get] in G1, G2.
  - apply (popcount_one _ _ _ Kw); assumption.
  - apply (popcount_one _ _ _ Kb); assumption.
Qed.

(* ------------------------------------------------------------------ *)
(* wf_rules *)
Lemma wf_rules_full b : wf_rules b = true -> wf_full b = true.
Proof. unfold wf_rules. intros H. apply andb_true_iff in H. apply H. Qed.
Lemma wf_rules_kings b : wf_rules b = true -> kings_ok b = true.
Proof. unfold wf_rules. intros H. apply andb_true_iff in H. apply H. Qed.
Lemma wf_rules_unique b : wf_rules b = true -> king_unique b.
Proof.
  intros H. apply kings_ok_unique; [apply gp_wf_full_pbb, wf_rules_full; exact H|apply wf_rules_kings; exact H].
Qed.
Lemma wf_full_nocheck b : wf_full b = true -> is_in_check b (opposite (current_turn b)) = false.
Proof. unfold wf_full. intros H. apply andb_true_iff in H. destruct H as [_ H]. apply negb_true_iff. exact H. Qed.

(* ------------------------------------------------------------------ *)
(* the instantiated per-piece lemmas *)
Definition np_spec := nonpawn_gen_spec rook_attacks_geo bishop_attacks_geo knight_attacks_geo king_attacks_geo attacked_spec.
Definition np_ok := nonpawn_gen_ok rook_attacks_geo bishop_attacks_geo knight_attacks_geo king_attacks_geo attacked_spec.
Definition pw_spec := pawn_gen_spec pawn_attacks_geo.
Definition pw_ok := pawn_gen_ok pawn_attacks_geo.

Lemma ptype_pawn_dec (t : PType) : {t = Pawn} + {t <> Pawn}.
Proof. destruct t; (left; reflexivity) || (right; discriminate). Qed.

Lemma piece_gen_spec b sq t c :
  wf_full b = true -> sq_valid sq = true -> get_piece b sq = Some (t, c) -> c = current_turn b ->
  forall mv, In mv (map move_of (get_moveset (t, c) sq b)) <-> In mv (piece_moves (abs b) (idx sq) (t, c)).
Proof.
  intros WF V G Tn. destruct (ptype_pawn_dec t) as [->|Ht].
  - apply pw_spec; assumption.
  - apply np_spec; assumption.
Qed.

Lemma piece_gen_ok b sq t c :
  wf_full b = true -> sq_valid sq = true -> get_piece b sq = Some (t, c) -> c = current_turn b ->
  forall m, In m (map (fill_captured b) (get_moveset (t, c) sq b)) -> move_okb b m = true /\ flags_ok b m = true.
Proof.
  intros WF V G Tn. destruct (ptype_pawn_dec t) as [->|Ht].
  - apply pw_ok; assumption.
  - apply np_ok; assumption.
Qed.

(* ------------------------------------------------------------------ *)
(* the blocks of get_all_moves *)
Definition eng_block (b : Board) (i : nat) : list Ply :=
  match get_piece b (sq_of_idx i) with
  | Some k => if color_eqb (current_turn b) (snd k)
              then map (fill_captured b) (get_moveset k (sq_of_idx i) b) else []
  | None => []
  end.
Lemma get_all_moves_eq b : get_all_moves b = flat_map (eng_block b) (seq 0 64).
Proof. reflexivity. Qed.

Lemma move_of_fill b m : move_of (fill_captured b m) = move_of m.
Proof. unfold fill_captured. destruct (p_ep m); reflexivity. Qed.

Lemma map_move_of_fill b l : map move_of (map (fill_captured b) l) = map move_of l.
Proof. rewrite map_map. apply map_ext. intros m. apply move_of_fill. Qed.

Lemma color_eqb_true a c : color_eqb a c = true -> a = c.
Proof. destruct a, c; cbn; congruence. Qed.
Lemma color_eqb_sym a c : color_eqb a c = color_eqb c a.
Proof. destruct a, c; reflexivity. Qed.

(* membership in get_all_moves: the origin square, its piece, and the raw ply *)
Lemma in_all_moves b m : In m (get_all_moves b) <->
  exists i t m0, i < 64 /\ get_piece b (sq_of_idx i) = Some (t, current_turn b) /\
                 In m0 (get_moveset (t, current_turn b) (sq_of_idx i) b) /\ m = fill_captured b m0.
Proof.
  rewrite get_all_moves_eq, in_flat_map. split.
  - intros [i [Hi Hm]]. apply in_seq in Hi. unfold eng_block in Hm.
    destruct (get_piece b (sq_of_idx i)) as [[t c]|] eqn:G; [|destruct Hm].
    cbn [snd] in Hm. destruct (color_eqb (current_turn b) c) eqn:E; [|destruct Hm].
    apply color_eqb_true in E. subst c.
    apply in_map_iff in Hm. destruct Hm as [m0 [<- H0]].
    exists i, t, m0. repeat split; try assumption; lia.
  - intros [i [t [m0 [Hi [G [H0 ->]]]]]]. exists i. split; [apply in_seq; lia|].
    unfold eng_block. rewrite G. cbn [snd]. rewrite PawnProofs.color_eqb_refl.
    apply in_map. exact H0.
Qed.

(* ------------------------------------------------------------------ *)
(* 2. pseudo-legal moves *)
Theorem pseudo_spec : forall b, wf_rules b = true ->
  forall mv, In mv (map move_of (get_all_moves b)) <-> In mv (pseudo_moves (abs b)).
Proof.
  intros b WR mv. pose proof (wf_rules_full b WR) as WF.
  unfold pseudo_moves. rewrite in_map_iff, in_flat_map. split.
  - intros [m [<- Hm]]. apply in_all_moves in Hm. destruct Hm as [i [t [m0 [Hi [G [H0 ->]]]]]].
    exists i. split; [apply in_seq; lia|].
    rewrite (AttackProofs.at_abs b i Hi), G. cbn [snd].
    change (side (abs b)) with (current_turn b). rewrite PawnProofs.color_eqb_refl.
    rewrite move_of_fill.
    pose proof (piece_gen_spec b (sq_of_idx i) t (current_turn b) WF (sq_of_idx_valid i Hi) G eq_refl (move_of m0)) as S.
    rewrite idx_sq_of_idx in S. apply S. apply in_map. exact H0.
  - intros [i [Hi Hm]]. apply in_seq in Hi. assert (Hi' : i < 64) by lia.
    rewrite (AttackProofs.at_abs b i Hi') in Hm.
    destruct (get_piece b (sq_of_idx i)) as [[t c]|] eqn:G; [|destruct Hm].
    cbn [snd] in Hm. change (side (abs b)) with (current_turn b) in Hm.
    destruct (color_eqb c (current_turn b)) eqn:E; [|destruct Hm].
    apply color_eqb_true in E. subst c.
    pose proof (piece_gen_spec b (sq_of_idx i) t (current_turn b) WF (sq_of_idx_valid i Hi') G eq_refl mv) as S.
    rewrite idx_sq_of_idx in S. apply S in Hm. apply in_map_iff in Hm. destruct Hm as [m0 [<- H0]].
    exists (fill_captured b m0). split; [apply move_of_fill|].
    apply in_all_moves. exists i, t, m0. auto.
Qed.

(* ------------------------------------------------------------------ *)
(* 3. every generated move passes move_okb and flags_ok *)
Theorem generated_moves_ok : forall b m, wf_rules b = true -> In m (get_all_moves b) ->
  move_okb b m = true /\ flags_ok b m = true.
Proof.
  intros b m WR Hm. pose proof (wf_rules_full b WR) as WF.
  apply in_all_moves in Hm. destruct Hm as [i [t [m0 [Hi [G [H0 ->]]]]]].
  apply (piece_gen_ok b (sq_of_idx i) t (current_turn b) WF (sq_of_idx_valid i Hi) G eq_refl).
  apply in_map. exact H0.
Qed.

(* ------------------------------------------------------------------ *)
(* the shape of the raw plies *)
Lemma fill_start b m : p_start (fill_captured b m) = p_start m.
Proof. unfold fill_captured. destruct (p_ep m); reflexivity. Qed.
Lemma fill_dest b m : p_dest (fill_captured b m) = p_dest m.
Proof. unfold fill_captured. destruct (p_ep m); reflexivity. Qed.
Lemma fill_castles b m : p_castles (fill_captured b m) = p_castles m.
Proof. unfold fill_captured. destruct (p_ep m); reflexivity. Qed.
Lemma fill_ep b m : p_ep (fill_captured b m) = p_ep m.
Proof. unfold fill_captured. destruct m as [? ? ? ? ? ? [] ? ? ?]; reflexivity. Qed.
Lemma fill_promoted b m : p_promoted (fill_captured b m) = p_promoted m.
Proof. unfold fill_captured. destruct (p_ep m); reflexivity. Qed.
Lemma fill_piece b m : p_piece (fill_captured b m) = p_piece m.
Proof. unfold fill_captured. destruct (p_ep m); reflexivity. Qed.
Lemma fill_captured_cap b m : p_captured (fill_captured b m) =
  if p_ep m then get_piece b (ep_capture_square (p_start m) (p_dest m)) else get_piece b (p_dest m).
Proof. unfold fill_captured. destruct (p_ep m); reflexivity. Qed.

Lemma nonpawn_moveset_shape t c sq b m0 : t <> Pawn -> In m0 (get_moveset (t, c) sq b) ->
  (exists n, n < 64 /\ m0 = ply_new sq (sq_of_idx n) (t, c)) \/ (t = King /\ In m0 (king_castles sq b c)).
Proof.
  intros Ht H. destruct t; try contradiction.
  - rewrite gp_get_moveset_king, gp_king_moveset_eq in H. apply filter_In in H. destruct H as [H _].
    apply in_app_or in H. destruct H as [H|H].
    + left. apply gp_plies_to_In in H. destruct H as [n [Hn [_ E]]]. exists n. auto.
    + right. auto.
  - left. rewrite gp_get_moveset_queen, gp_simple_moveset_eq in H. apply filter_In in H. destruct H as [H _].
    apply gp_plies_to_In in H. destruct H as [n [Hn [_ E]]]. exists n. auto.
  - left. rewrite gp_get_moveset_rook, gp_simple_moveset_eq in H. apply filter_In in H. destruct H as [H _].
    apply gp_plies_to_In in H. destruct H as [n [Hn [_ E]]]. exists n. auto.
  - left. rewrite gp_get_moveset_bishop, gp_simple_moveset_eq in H. apply filter_In in H. destruct H as [H _].
    apply gp_plies_to_In in H. destruct H as [n [Hn [_ E]]]. exists n. auto.
  - left. rewrite gp_get_moveset_knight, gp_simple_moveset_eq in H. apply filter_In in H. destruct H as [H _].
    apply gp_plies_to_In in H. destruct H as [n [Hn [_ E]]]. exists n. auto.
Qed.

Definition pawn_in_moveset := in_get_moveset pawn_attacks_geo.

(* ------------------------------------------------------------------ *)
(* 4. castling plies keep the king on its rank *)
Theorem generated_castle_rank : forall b m, wf_rules b = true -> In m (get_all_moves b) ->
  p_castles m = true -> rank (p_start m) = rank (p_dest m).
Proof.
  intros b m WR Hm Hc. pose proof (wf_rules_full b WR) as WF.
  apply in_all_moves in Hm. destruct Hm as [i [t [m0 [Hi [G [H0 ->]]]]]].
  rewrite fill_castles in Hc. rewrite fill_start, fill_dest.
  pose proof (sq_of_idx_valid i Hi) as V.
  destruct (ptype_pawn_dec t) as [->|Ht].
  - exfalso. pose proof (pctx_of_wf b _ _ WF V G eq_refl) as C.
    apply (pawn_in_moveset b _ _ m0 C) in H0. destruct H0 as [p [Hp Hx]].
    destruct (Raw_facts b _ _ p C Hp) as [_ [_ [E3 _]]].
    apply explode_in in Hx. destruct Hx as [->|[_ [t' [_ ->]]]].
    + congruence.
    + discriminate Hc.
  - apply (nonpawn_moveset_shape t _ _ b m0 Ht) in H0. destruct H0 as [[n [_ ->]]|[_ H0]].
    + discriminate Hc.
    + apply gp_king_castles_In in H0.
      destruct H0 as [[_ [_ [[_ ->]|[_ ->]]]]|[_ [_ [[_ ->]|[_ ->]]]]]; reflexivity.
Qed.

(* ------------------------------------------------------------------ *)
(* 5. no generated move captures a king *)
Lemma castle_moves_empty p from mv : In mv (castle_moves p from) -> occupied (cells p) (m_to mv) = false.
Proof.
  unfold castle_moves. cbv zeta.
  destruct (Nat.eqb from _ && has_piece (cells p) _ _); [|intros []].
  intros H. apply in_app_or in H. destruct H as [H|H].
  - match type of H with In _ (if ?c then _ else _) => destruct c eqn:E; [|destruct H] end.
    destruct H as [<-|[]]. cbn [m_to].
    repeat (apply andb_true_iff in E; destruct E as [E ?]).
    match goal with X : negb (occupied _ (_ + 2)) = true |- _ => apply negb_true_iff in X; exact X end.
  - match type of H with In _ (if ?c then _ else _) => destruct c eqn:E; [|destruct H] end.
    destruct H as [<-|[]]. cbn [m_to].
    repeat (apply andb_true_iff in E; destruct E as [E ?]).
    match goal with X : negb (occupied _ (_ - 2)) = true |- _ => apply negb_true_iff in X; exact X end.
Qed.

Lemma gp_steps_target p from L mv : In mv (gp_steps p from L) -> In (m_to mv) L.
Proof.
  unfold gp_steps. intros H. apply in_map_iff in H. destruct H as [n [<- H]].
  apply filter_In in H. apply H.
Qed.

Lemma nonpawn_moves_target p from t c mv : t <> Pawn -> In mv (piece_moves p from (t, c)) ->
  In (m_to mv) (attack_targets (cells p) from (t, c)) \/ occupied (cells p) (m_to mv) = false.
Proof.
  intros Ht H. destruct t; try contradiction.
  - rewrite gp_piece_moves_king in H. apply in_app_or in H. destruct H as [H|H].
    + left. apply gp_steps_target in H. exact H.
    + right. eapply castle_moves_empty; exact H.
  - left. rewrite gp_piece_moves_queen in H. apply gp_steps_target in H. exact H.
  - left. rewrite gp_piece_moves_rook in H. apply gp_steps_target in H. exact H.
  - left. rewrite gp_piece_moves_bishop in H. apply gp_steps_target in H. exact H.
  - left. rewrite gp_piece_moves_knight in H. apply gp_steps_target in H. exact H.
Qed.

Lemma with_promotions_to c from t mv : In mv (with_promotions c from t) -> m_to mv = t.
Proof.
  unfold with_promotions. destruct (_ =? _)%Z; cbn [map In]; intros H;
    repeat (destruct H as [<-|H]; [reflexivity|]); destruct H.
Qed.

Lemma pawn_moves_target b s c mv : PCtx b s c -> In mv (pawn_moves (abs b) (idx s)) ->
  In (m_to mv) (attack_targets (cells (abs b)) (idx s) (Pawn, c)) \/ occupied (cells (abs b)) (m_to mv) = false.
Proof.
  intros C H. apply (spec_char b s c mv C) in H. destruct H as [t [T Hm]].
  apply with_promotions_to in Hm. rewrite Hm. clear Hm mv.
  pose proof (pc_rk _ _ _ C) as R.
  unfold Tgt in T. cbv zeta in T.
  destruct T as [[H1 _]|[[_ O]|[[_ [_ [_ O]]]|[ef [Eef [RR [Habs ->]]]]]]].
  - left. exact H1.
  - right. exact O.
  - right. exact O.
  - right. destruct (pc_ep _ _ _ C ef Eef) as [Lef [_ G2]].
    rewrite <- RR in G2.
    assert (I : inb (Z.of_nat (rank s) + forward c) (Z.of_nat ef) = true) by (apply (inb_one b s c C); lia).
    pose proof (sqz_valid _ _ I) as Vd. apply inb_range in I.
    rewrite <- idx_sqz by lia. rewrite (occupied_get_piece b _ Vd), G2. reflexivity.
Qed.

Lemma Raw_ep_capture b s c p : PCtx b s c -> Raw b s c p -> p_ep p = true ->
  get_piece b (ep_capture_square s (p_dest p)) = Some (Pawn, opposite c).
Proof.
  intros C HR E. unfold Raw in HR. cbv zeta in HR.
  destruct HR as [[t [_ [_ ->]]]|[[_ ->]|[[_ [_ [_ ->]]]|[ef [Eef [RR [_ ->]]]]]]]; try discriminate E.
  destruct (pc_ep _ _ _ C ef Eef) as [_ [G1 _]].
  unfold ep_capture_square, ep_ply, sqz. cbn [p_dest set_captured set_flags ply_new file].
  unfold sqz in G1. rewrite <- RR, Nat2Z.id in G1. exact G1.
Qed.

Lemma move_ok_capture_color b m k : move_okb b m = true -> p_captured m = Some k ->
  color_eqb (snd k) (snd (p_piece m)) = false.
Proof.
  intros H E. unfold move_okb in H. cbv zeta in H.
  do 4 (apply andb_true_iff in H; destruct H as [H _]).
  apply andb_true_iff in H; destruct H as [_ H].
  rewrite E in H. apply negb_true_iff in H. exact H.
Qed.

Lemma opposite_neq a c : color_eqb a c = false -> a = opposite c.
Proof. destruct a, c; cbn; congruence. Qed.

Theorem no_king_capture : forall b m, wf_rules b = true -> In m (get_all_moves b) ->
  forall c, p_captured m <> Some (King, c).
Proof.
  intros b m WR Hm c' Hcap. pose proof (wf_rules_full b WR) as WF.
  pose proof (gp_wf_full_pbb b WF) as PW.
  destruct (generated_moves_ok b m WR Hm) as [Hok _].
  pose proof (move_ok_capture_color b m _ Hok Hcap) as Hcol.
  destruct (move_ok_facts b m (proj1 (pbb_wf_iff _) PW) Hok) as (_ & Vd & _ & _ & Hk & _). cbv zeta in *.
  rewrite Hk in Hcol. cbn [snd] in Hcol. apply opposite_neq in Hcol. subst c'.
  apply in_all_moves in Hm. destruct Hm as [i [t [m0 [Hi [G [H0 ->]]]]]].
  rewrite fill_captured_cap in Hcap. rewrite fill_dest in Vd.
  pose proof (sq_of_idx_valid i Hi) as V.
  set (cur := current_turn b) in *.
  pose proof (piece_gen_spec b (sq_of_idx i) t cur WF V G eq_refl (move_of m0)) as S.
  rewrite idx_sq_of_idx in S.
  assert (Hpm : In (move_of m0) (piece_moves (abs b) i (t, cur))) by (apply S; apply in_map; exact H0).
  assert (Tg : p_ep m0 = false /\
               (In (idx (p_dest m0)) (attack_targets (cells (abs b)) i (t, cur)) \/
                occupied (cells (abs b)) (idx (p_dest m0)) = false)).
  { destruct (ptype_pawn_dec t) as [->|Ht].
    - pose proof (pctx_of_wf b _ _ WF V G eq_refl) as C.
      split.
      + destruct (p_ep m0) eqn:Eep; [|reflexivity]. exfalso.
        apply (pawn_in_moveset b _ _ m0 C) in H0. destruct H0 as [p [Hp Hx]].
        apply explode_in in Hx. destruct Hx as [->|[_ [t' [_ ->]]]]; [|discriminate Eep].
        destruct (Raw_facts b _ _ p C Hp) as [E1 _].
        rewrite E1, (Raw_ep_capture b _ _ p C Hp Eep) in Hcap. discriminate Hcap.
      + pose proof (pawn_moves_target b _ cur (move_of m0) C) as PT.
        rewrite idx_sq_of_idx in PT. apply PT. exact Hpm.
    - split.
      + apply (nonpawn_moveset_shape t _ _ b m0 Ht) in H0. destruct H0 as [[n [_ ->]]|[_ H0]]; [reflexivity|].
        apply gp_king_castles_In in H0.
        destruct H0 as [[_ [_ [[_ ->]|[_ ->]]]]|[_ [_ [[_ ->]|[_ ->]]]]]; reflexivity.
      + apply (nonpawn_moves_target (abs b) i t cur (move_of m0) Ht Hpm). }
  destruct Tg as [Eep Tg]. rewrite Eep in Hcap.
  pose proof (AttackProofs.at_abs b (idx (p_dest m0)) (idx_lt _ Vd)) as Ad.
  rewrite (sq_of_idx_idx _ Vd), Hcap in Ad.
  destruct Tg as [Tg|Tg]; [|unfold occupied in Tg; rewrite Ad in Tg; discriminate Tg].
  assert (AB : attacked_by (cells (abs b)) cur (idx (p_dest m0)) = true).
  { unfold attacked_by. apply existsb_exists. exists i. split; [apply in_seq; lia|].
    rewrite (AttackProofs.at_abs b i Hi), G. cbn [snd]. rewrite PawnProofs.color_eqb_refl.
    unfold memb. apply existsb_exists. exists (idx (p_dest m0)). split; [exact Tg|apply Nat.eqb_refl]. }
  assert (IC : in_check (cells (abs b)) (opposite cur) = true).
  { unfold in_check. apply existsb_exists. exists (idx (p_dest m0)).
    split; [apply in_seq; pose proof (idx_lt _ Vd); lia|].
    unfold has_piece. rewrite Ad, kind_eqb_refl, opposite_involutive. exact AB. }
  rewrite <- (in_check_spec b (opposite cur) PW) in IC. unfold cur in IC.
  rewrite (wf_full_nocheck b WF) in IC. discriminate IC.
Qed.

(* ------------------------------------------------------------------ *)
(* 6. one generated move: make_move refines apply *)
Lemma generated_refines b m : wf_rules b = true -> In m (get_all_moves b) ->
  (Board.fullmove b < 65535)%N -> (halfmove_clock b < 65535)%N ->
  abs (make_move b m) = apply (abs b) (move_of m).
Proof.
  intros WR Hm Lf Lh. destruct (generated_moves_ok b m WR Hm) as [Hok Hfl].
  apply make_refines_apply; try assumption.
  - apply wf_rules_full; exact WR.
  - apply wf_rules_unique; exact WR.
  - apply (no_king_capture b m WR Hm).
  - apply (generated_castle_rank b m WR Hm).
Qed.

Theorem step_refines : forall b m, wf_rules b = true -> In m (get_legal_moves b) ->
  (Board.fullmove b < 65535)%N -> (halfmove_clock b < 65535)%N ->
  abs (make_move b m) = apply (abs b) (move_of m).
Proof.
  intros b m WR Hm Lf Lh. unfold get_legal_moves in Hm. apply filter_In in Hm. destruct Hm as [Hm _].
  apply generated_refines; assumption.
Qed.

(* ------------------------------------------------------------------ *)
(* 7. legality *)
Lemma legal_one b m : wf_rules b = true ->
  (Board.fullmove b < 65535)%N -> (halfmove_clock b < 65535)%N ->
  In m (get_all_moves b) -> is_legal_move b m = legal (abs b) (move_of m).
Proof.
  intros WR Lf Lh Hm. pose proof (wf_rules_full b WR) as WF.
  destruct (generated_moves_ok b m WR Hm) as [Hok _].
  destruct (wf_full_facts b WF) as [Wb _].
  destruct (wfb_facts b Wb) as (W & _).
  destruct (move_ok_facts b m W Hok) as (_ & _ & _ & _ & Hk & _). cbv zeta in Hk.
  pose proof (wfb_make b m Wb Hok) as Wb'.
  destruct (wfb_facts _ Wb') as (W' & _). apply pbb_wf_iff in W'.
  unfold is_legal_move, legal. rewrite (in_check_spec _ _ W'), Hk.
  rewrite (generated_refines b m WR Hm Lf Lh). reflexivity.
Qed.

Theorem legal_spec : forall b, wf_rules b = true ->
  (Board.fullmove b < 65535)%N -> (halfmove_clock b < 65535)%N ->
  forall mv, In mv (map move_of (get_legal_moves b)) <-> In mv (legal_moves (abs b)).
Proof.
  intros b WR Lf Lh mv. unfold get_legal_moves, legal_moves. rewrite in_map_iff, filter_In. split.
  - intros [m [<- Hm]]. apply filter_In in Hm. destruct Hm as [Hm Hl]. split.
    + apply (pseudo_spec b WR). apply in_map. exact Hm.
    + rewrite <- (legal_one b m WR Lf Lh Hm). exact Hl.
  - intros [Hp Hl]. apply (pseudo_spec b WR) in Hp. apply in_map_iff in Hp. destruct Hp as [m [<- Hm]].
    exists m. split; [reflexivity|]. apply filter_In. split; [exact Hm|].
    rewrite (legal_one b m WR Lf Lh Hm). exact Hl.
Qed.

(* ------------------------------------------------------------------ *)
(* 8. mate and stalemate *)
Lemma nil_iff_no_member {A} (l : list A) : l = [] <-> forall x, ~ In x l.
Proof.
  split.
  - intros -> x H. destruct H.
  - destruct l as [|a t]; [reflexivity|]. intros H. exfalso. apply (H a). left. reflexivity.
Qed.

Lemma legal_nil_iff b : wf_rules b = true ->
  (Board.fullmove b < 65535)%N -> (halfmove_clock b < 65535)%N ->
  (get_legal_moves b = [] <-> legal_moves (abs b) = []).
Proof.
  intros WR Lf Lh. rewrite !nil_iff_no_member. split.
  - intros H mv Hmv. apply (legal_spec b WR Lf Lh) in Hmv. apply in_map_iff in Hmv.
    destruct Hmv as [m [_ Hm]]. exact (H m Hm).
  - intros H m Hm. apply (H (move_of m)). apply (legal_spec b WR Lf Lh). apply in_map. exact Hm.
Qed.

Lemma match_nil_true {A} (l : list A) : match l with [] => true | _ => false end = true <-> l = [].
Proof. destruct l; split; congruence. Qed.

Theorem mate_stalemate_spec : forall b, wf_rules b = true ->
  (Board.fullmove b < 65535)%N -> (halfmove_clock b < 65535)%N ->
  (get_legal_moves b = [] /\ is_in_check b (current_turn b) = true <-> checkmate (abs b) = true)
  /\ (get_legal_moves b = [] /\ is_in_check b (current_turn b) = false <-> stalemate (abs b) = true).
Proof.
  intros b WR Lf Lh. pose proof (gp_wf_full_pbb b (wf_rules_full b WR)) as PW.
  unfold checkmate, stalemate. change (side (abs b)) with (current_turn b).
  rewrite (in_check_spec b (current_turn b) PW), !andb_true_iff, !match_nil_true, negb_true_iff.
  rewrite (legal_nil_iff b WR Lf Lh). tauto.
Qed.

(* ------------------------------------------------------------------ *)
(* 9. no duplicates *)
Lemma nodup_app {A} (l1 l2 : list A) :
  NoDup l1 -> NoDup l2 -> (forall x, In x l1 -> In x l2 -> False) -> NoDup (l1 ++ l2).
Proof.
  induction l1 as [|a t IH]; cbn [app]; intros N1 N2 D; [exact N2|].
  inversion N1 as [|? ? Ha Nt]; subst. constructor.
  - rewrite in_app_iff. intros [X|X]; [contradiction|]. apply (D a); [left; reflexivity|exact X].
  - apply IH; [exact Nt|exact N2|]. intros x H1 H2. apply (D x); [right; exact H1|exact H2].
Qed.

Lemma nodup_map_filter {A B} (f : A -> B) (g : A -> bool) l : NoDup (map f l) -> NoDup (map f (filter g l)).
Proof.
  induction l as [|a t IH]; cbn [map filter]; intros H; [constructor|].
  inversion H as [|? ? Ha Nt]; subst. destruct (g a); cbn [map]; [|apply IH; exact Nt].
  constructor; [|apply IH; exact Nt].
  intros X. apply Ha. apply in_map_iff in X. destruct X as [y [E Hy]]. apply filter_In in Hy.
  apply in_map_iff. exists y. tauto.
Qed.

Lemma nodup_flat_map_key {A B} (key : B -> A) (g : A -> list B) l :
  NoDup l -> (forall x, In x l -> NoDup (g x)) -> (forall x y, In x l -> In y (g x) -> key y = x) ->
  NoDup (flat_map g l).
Proof.
  induction l as [|a t IH]; cbn [flat_map]; intros ND H1 H2; [constructor|].
  inversion ND as [|? ? Ha Nt]; subst. apply nodup_app.
  - apply H1. left. reflexivity.
  - apply IH; [exact Nt| |].
    + intros x Hx. apply H1. right. exact Hx.
    + intros x y Hx Hy. apply H2; [right; exact Hx|exact Hy].
  - intros y Hy1 Hy2. apply in_flat_map in Hy2. destruct Hy2 as [x [Hx Hy2]].
    assert (E1 : key y = a) by (apply H2; [left; reflexivity|exact Hy1]).
    assert (E2 : key y = x) by (apply H2; [right; exact Hx|exact Hy2]).
    apply Ha. rewrite <- E1, E2. exact Hx.
Qed.

Lemma nodup_map_inj {A B} (f : A -> B) l : (forall x y, f x = f y -> x = y) -> NoDup l -> NoDup (map f l).
Proof.
  intros Inj. induction l as [|a t IH]; cbn [map]; intros H; [constructor|].
  inversion H as [|? ? Ha Nt]; subst. constructor; [|apply IH; exact Nt].
  intros X. apply in_map_iff in X. destruct X as [y [E Hy]]. apply Inj in E. subst y. contradiction.
Qed.

Lemma map_flat_map {A B C} (f : B -> C) (g : A -> list B) l :
  map f (flat_map g l) = flat_map (fun x => map f (g x)) l.
Proof. induction l as [|a t IH]; cbn [flat_map map]; [reflexivity|]. rewrite map_app, IH. reflexivity. Qed.

Lemma flat_map_ext_in' {A B} (f g : A -> list B) l :
  (forall x, In x l -> f x = g x) -> flat_map f l = flat_map g l.
Proof.
  induction l as [|a t IH]; cbn [flat_map]; intros H; [reflexivity|].
  rewrite (H a) by (left; reflexivity). rewrite IH; [reflexivity|]. intros x Hx. apply H. right. exact Hx.
Qed.

Lemma flat_map_map' {A B C} (f : A -> B) (g : B -> list C) l :
  flat_map g (map f l) = flat_map (fun x => g (f x)) l.
Proof. induction l as [|a t IH]; cbn [flat_map map]; [reflexivity|]. rewrite IH. reflexivity. Qed.

(* step plies *)
Lemma map_move_of_plies sq k M :
  map move_of (plies_to sq k M) = map (fun t => mkMove (idx sq) t None) (asc_bits M).
Proof.
  unfold plies_to. rewrite map_map. apply map_ext. intros t.
  unfold move_of, ply_new; cbn [p_start p_dest p_promoted]. rewrite idx_sq_of_idx. reflexivity.
Qed.

Lemma plies_NoDup sq k M : NoDup (map move_of (plies_to sq k M)).
Proof.
  rewrite map_move_of_plies. apply nodup_map_inj; [|apply asc_bits_NoDup].
  intros x y E. injection E. auto.
Qed.

(* castling plies *)
Lemma king_castles_NoDup sq b c : NoDup (map move_of (king_castles sq b c)).
Proof.
  assert (P : forall d1 d2, idx d1 <> idx d2 ->
              NoDup (map move_of [castle_ply sq d1 c; castle_ply sq d2 c])).
  { intros d1 d2 Hd. cbn [map]. constructor; [|constructor; [intros []|constructor]].
    intros [E|[]]. unfold move_of, castle_ply in E; cbn [p_start p_dest p_promoted set_flags ply_new] in E.
    injection E. intros X. apply Hd. symmetry. exact X. }
  assert (Q : forall d, NoDup (map move_of [castle_ply sq d c])).
  { intros d. cbn [map]. constructor; [intros []|constructor]. }
  unfold king_castles. destruct c; cbn [color_eqb]; rewrite !andb_false_r, !andb_true_r; cbv iota;
    rewrite ?app_nil_r; cbn [app].
  - destruct (sq_eqb sq (mkSq 0 4)); [|constructor].
    destruct (castling_ability b WK), (castling_ability b WQ); cbn [app];
      [apply P; cbn; lia|apply Q|apply Q|constructor].
  - destruct (sq_eqb sq (mkSq 7 4)); [|constructor].
    destruct (castling_ability b BK), (castling_ability b BQ); cbn [app];
      [apply P; cbn; lia|apply Q|apply Q|constructor].
Qed.

Lemma ka_4_6 : tb (king_attacks 4) 6 = false. Proof. vm_compute. reflexivity. Qed.
Lemma ka_4_2 : tb (king_attacks 4) 2 = false. Proof. vm_compute. reflexivity. Qed.
Lemma ka_60_62 : tb (king_attacks 60) 62 = false. Proof. vm_compute. reflexivity. Qed.
Lemma ka_60_58 : tb (king_attacks 60) 58 = false. Proof. vm_compute. reflexivity. Qed.

Lemma king_steps_castles_disjoint sq b c X x :
  In x (map move_of (plies_to sq (King, c) (N.land (king_attacks (idx sq)) X))) ->
  In x (map move_of (king_castles sq b c)) -> False.
Proof.
  intros H1 H2. rewrite map_move_of_plies in H1. apply in_map_iff in H1. destruct H1 as [n [<- Hn]].
  apply asc_bits_In in Hn. destruct Hn as [_ Hn]. rewrite gp_tb_land in Hn.
  apply andb_true_iff in Hn. destruct Hn as [Hn _].
  apply in_map_iff in H2. destruct H2 as [p [E Hp]]. apply gp_king_castles_In in Hp.
  destruct Hp as [[_ [-> [[_ ->]|[_ ->]]]]|[_ [-> [[_ ->]|[_ ->]]]]];
    unfold move_of, castle_ply in E; cbn [p_start p_dest p_promoted set_flags ply_new idx rank file] in E;
    injection E; intros <-; cbn [idx rank file Nat.mul Nat.add] in Hn.
  - rewrite ka_4_6 in Hn. discriminate.
  - rewrite ka_4_2 in Hn. discriminate.
  - rewrite ka_60_62 in Hn. discriminate.
  - rewrite ka_60_58 in Hn. discriminate.
Qed.

Lemma nonpawn_block_NoDup t c sq b : t <> Pawn -> NoDup (map move_of (get_moveset (t, c) sq b)).
Proof.
  intros Ht. destruct t; try contradiction.
  - rewrite gp_get_moveset_king. apply nodup_map_filter. rewrite gp_king_moveset_eq, map_app.
    apply nodup_app; [apply plies_NoDup|apply king_castles_NoDup|apply king_steps_castles_disjoint].
  - rewrite gp_get_moveset_queen. apply nodup_map_filter. rewrite gp_simple_moveset_eq. apply plies_NoDup.
  - rewrite gp_get_moveset_rook. apply nodup_map_filter. rewrite gp_simple_moveset_eq. apply plies_NoDup.
  - rewrite gp_get_moveset_bishop. apply nodup_map_filter. rewrite gp_simple_moveset_eq. apply plies_NoDup.
  - rewrite gp_get_moveset_knight. apply nodup_map_filter. rewrite gp_simple_moveset_eq. apply plies_NoDup.
Qed.

(* pawn plies: the destinations of the raw list are pairwise distinct *)
Definition dst (p : Ply) : nat := idx (p_dest p).

Lemma map_dst_plies s k M : map dst (plies_to s k M) = asc_bits M.
Proof.
  unfold plies_to. rewrite map_map. rewrite <- (map_id (asc_bits M)) at 2. apply map_ext. intros t.
  unfold dst, ply_new; cbn [p_dest]. apply idx_sq_of_idx.
Qed.

Lemma dst_caps b s c x : PCtx b s c -> In x (map dst (caps_l b s c)) -> occupied (cells (abs b)) x = true.
Proof.
  intros C H. apply in_map_iff in H. destruct H as [p [<- Hp]].
  apply (in_caps pawn_attacks_geo b s c p C) in Hp. destruct Hp as [t [_ [H2 ->]]].
  unfold dst, ply_new; cbn [p_dest]. rewrite idx_sq_of_idx, occupied_colors.
  destruct c; cbn [opposite] in H2; rewrite H2; [apply orb_true_r|reflexivity].
Qed.

Lemma dst_single b s c x : PCtx b s c -> In x (map dst (single_l b s c)) ->
  x = mk (Z.of_nat (rank s) + forward c) (Z.of_nat (file s)) /\ occupied (cells (abs b)) x = false.
Proof.
  intros C H. apply in_map_iff in H. destruct H as [p [<- Hp]].
  apply (in_single b s c p C) in Hp. destruct Hp as [O1 ->].
  pose proof (pc_rk _ _ _ C) as R.
  unfold dst, ply_new; cbn [p_dest]. rewrite idx_sqz by (pose proof (forward_cases c); lia).
  auto.
Qed.

Lemma dst_double b s c x : PCtx b s c -> In x (map dst (double_l b s c)) ->
  x = mk (Z.of_nat (rank s) + 2 * forward c) (Z.of_nat (file s)) /\ Z.of_nat (rank s) = start_rank c
  /\ occupied (cells (abs b)) x = false.
Proof.
  intros C H. apply in_map_iff in H. destruct H as [p [<- Hp]].
  apply (in_double b s c p C) in Hp. destruct Hp as [S [_ [O2 ->]]].
  unfold dst, double_ply, ply_new; cbn [p_dest set_flags].
  rewrite idx_sqz by (rewrite ?S; destruct c; cbn; lia). auto.
Qed.

Lemma dst_eps b s c x : PCtx b s c -> In x (map dst (eps_l b s c)) ->
  exists ef, ef < 8 /\ Z.of_nat (rank s) = ep_rank c /\ Z.abs (Z.of_nat (file s) - Z.of_nat ef) = 1%Z
             /\ x = mk (Z.of_nat (rank s) + forward c) (Z.of_nat ef) /\ occupied (cells (abs b)) x = false.
Proof.
  intros C H. apply in_map_iff in H. destruct H as [p [<- Hp]].
  apply (in_eps b s c p C) in Hp. destruct Hp as [ef [Eef [RR [Habs ->]]]].
  destruct (pc_ep _ _ _ C ef Eef) as [Lef [_ G2]]. rewrite <- RR in G2.
  assert (I : inb (Z.of_nat (rank s) + forward c) (Z.of_nat ef) = true) by (apply (inb_one b s c C); lia).
  pose proof (sqz_valid _ _ I) as Vd. apply inb_range in I.
  exists ef. unfold dst, ep_ply, ply_new; cbn [p_dest set_flags set_captured].
  rewrite <- idx_sqz by lia. rewrite (occupied_get_piece b _ Vd), G2. auto.
Qed.

Lemma eps_dst_NoDup b s c : PCtx b s c -> NoDup (map dst (eps_l b s c)).
Proof.
  intros C. pose proof (pc_rk _ _ _ C) as R. pose proof (pc_fl _ _ _ C) as F.
  unfold eps_l. destruct (Nat.eqb (rank s) _); [|constructor].
  rewrite (sq_add_dir b s c C).
  set (rz := Z.of_nat (rank s)). set (f := file s) in *. set (d := forward c).
  assert (D : (0 <= rz + d < 8)%Z) by (unfold rz, d; destruct (forward_cases c) as [->| ->]; lia).
  assert (EE : sq_add (sqz (rz + d) (Z.of_nat f)) EAST = mkSq (Z.to_nat (rz + d)) (f + 1)).
  { unfold sq_add, EAST, sqz; cbn [fst snd rank file]. rewrite Nat2Z.id.
    rewrite !u8_add_small by lia. f_equal; lia. }
  assert (EW : sq_add (sqz (rz + d) (Z.of_nat f)) WEST = mkSq (Z.to_nat (rz + d)) (u8_add f (-1))).
  { unfold sq_add, WEST, sqz; cbn [fst snd rank file]. rewrite Nat2Z.id.
    rewrite (u8_add_small _ 0) by lia. f_equal; lia. }
  rewrite EE, EW. unfold ep_to; cbn [file].
  destruct (ep_file b) as [ef|] eqn:Eef; [|constructor].
  destruct (pc_ep _ _ _ C ef Eef) as [Lef _].
  destruct (Nat.eqb_spec ef (f + 1)) as [E1|E1]; destruct (Nat.eqb ef (u8_add f (-1))) eqn:E2; cbn [app map].
  - exfalso. apply (u8_add_west f ef F Lef) in E2. lia.
  - constructor; [intros []|constructor].
  - constructor; [intros []|constructor].
  - constructor.
Qed.

Lemma one_or_none_NoDup {A} (cond : bool) (a : A) : NoDup (if cond then [a] else []).
Proof. destruct cond; [constructor; [intros []|constructor]|constructor]. Qed.

Lemma raw_dests_NoDup b s c : PCtx b s c -> NoDup (map dst (raw_list b s c)).
Proof.
  intros C. pose proof (pc_rk _ _ _ C) as R. pose proof (pc_fl _ _ _ C) as F.
  unfold raw_list. rewrite !map_app.
  assert (N1 : NoDup (map dst (caps_l b s c))).
  { unfold caps_l. rewrite map_dst_plies. apply asc_bits_NoDup. }
  assert (N2 : NoDup (map dst (single_l b s c))).
  { unfold single_l. destruct (next_test b s c); cbn [map]; [constructor; [intros []|constructor]|constructor]. }
  assert (N3 : NoDup (map dst (double_l b s c))).
  { unfold double_l. destruct (_ && _ && _); cbn [map]; [constructor; [intros []|constructor]|constructor]. }
  pose proof (eps_dst_NoDup b s c C) as N4.
  apply nodup_app; [exact N1| |].
  - apply nodup_app; [exact N2| |].
    + apply nodup_app; [exact N3|exact N4|].
      intros x H3 H4. apply (dst_double b s c x C) in H3. apply (dst_eps b s c x C) in H4.
      destruct H3 as [_ [S _]]. destruct H4 as [ef [_ [RR _]]].
      rewrite S in RR. destruct c; cbn in RR; discriminate RR.
    + intros x H2 H34. apply (dst_single b s c x C) in H2. destruct H2 as [E2 _].
      apply in_app_or in H34. destruct H34 as [H3|H4].
      * apply (dst_double b s c x C) in H3. destruct H3 as [E3 [S _]].
        rewrite E2 in E3. unfold mk in E3. destruct c; cbn [forward start_rank] in *; lia.
      * apply (dst_eps b s c x C) in H4. destruct H4 as [ef [Lef [_ [Habs [E4 _]]]]].
        rewrite E2 in E4. unfold mk in E4. destruct (forward_cases c) as [X|X]; rewrite X in E4; lia.
  - intros x H1 H234. apply (dst_caps b s c x C) in H1.
    apply in_app_or in H234. destruct H234 as [H2|H34].
    + apply (dst_single b s c x C) in H2. destruct H2 as [_ O]. congruence.
    + apply in_app_or in H34. destruct H34 as [H3|H4].
      * apply (dst_double b s c x C) in H3. destruct H3 as [_ [_ O]]. congruence.
      * apply (dst_eps b s c x C) in H4. destruct H4 as [ef [_ [_ [_ [_ O]]]]]. congruence.
Qed.

Lemma with_promotions_NoDup c from t : NoDup (with_promotions c from t).
Proof.
  unfold with_promotions. destruct (_ =? _)%Z; cbn [map].
  - repeat (constructor; [cbn [In]; intros H; repeat (destruct H as [H|H]; [discriminate H|]); exact H|]).
    constructor.
  - constructor; [intros []|constructor].
Qed.

Lemma pawn_get_moveset_eq c s b : get_moveset (Pawn, c) s b = filter ply_sane (pawn_moveset s b c).
Proof. reflexivity. Qed.

Lemma pawn_block_NoDup b s c : PCtx b s c -> NoDup (map move_of (get_moveset (Pawn, c) s b)).
Proof.
  intros C. rewrite pawn_get_moveset_eq, pawn_moveset_raw. apply nodup_map_filter. rewrite map_flat_map.
  rewrite (flat_map_ext_in' _ (fun p => with_promotions c (idx s) (dst p))).
  - rewrite <- (flat_map_map' dst (with_promotions c (idx s))).
    apply (nodup_flat_map_key m_to).
    + apply raw_dests_NoDup. exact C.
    + intros t _. apply with_promotions_NoDup.
    + intros t y _ Hy. eapply with_promotions_to. exact Hy.
  - intros p Hp. apply (in_raw pawn_attacks_geo b s c p C) in Hp.
    destruct (Raw_facts b s c p C Hp) as [E1 [_ [_ [E4 [_ [[Vd _] _]]]]]].
    rewrite (explode_move_of p c Vd E4), E1. reflexivity.
Qed.

Lemma block_NoDup b sq t c :
  wf_full b = true -> sq_valid sq = true -> get_piece b sq = Some (t, c) -> c = current_turn b ->
  NoDup (map move_of (get_moveset (t, c) sq b)).
Proof.
  intros WF V G Tn. destruct (ptype_pawn_dec t) as [->|Ht].
  - apply pawn_block_NoDup. apply pctx_of_wf; assumption.
  - apply nonpawn_block_NoDup. exact Ht.
Qed.

Lemma moveset_start b sq t c m0 :
  wf_full b = true -> sq_valid sq = true -> get_piece b sq = Some (t, c) -> c = current_turn b ->
  In m0 (get_moveset (t, c) sq b) -> p_start m0 = sq.
Proof.
  intros WF V G Tn H0. destruct (ptype_pawn_dec t) as [->|Ht].
  - pose proof (pctx_of_wf b _ _ WF V G Tn) as C.
    apply (pawn_in_moveset b _ _ m0 C) in H0. destruct H0 as [p [Hp Hx]].
    destruct (Raw_facts b _ _ p C Hp) as [E1 _].
    destruct (explode_ends p c m0 Hx) as [Es _]. congruence.
  - apply (nonpawn_moveset_shape t _ _ b m0 Ht) in H0. destruct H0 as [[n [_ ->]]|[_ H0]]; [reflexivity|].
    apply gp_king_castles_In in H0.
    destruct H0 as [[_ [-> [[_ ->]|[_ ->]]]]|[_ [-> [[_ ->]|[_ ->]]]]]; reflexivity.
Qed.

Lemma all_moves_NoDup b : wf_rules b = true -> NoDup (map move_of (get_all_moves b)).
Proof.
  intros WR. pose proof (wf_rules_full b WR) as WF.
  rewrite get_all_moves_eq, map_flat_map. apply (nodup_flat_map_key m_from); [apply seq_NoDup| |].
  - intros i Hi. apply in_seq in Hi. unfold eng_block.
    destruct (get_piece b (sq_of_idx i)) as [[t c]|] eqn:G; [|constructor]. cbn [snd].
    destruct (color_eqb (current_turn b) c) eqn:E; [|constructor]. apply color_eqb_true in E.
    rewrite map_move_of_fill. apply block_NoDup; try assumption; [apply sq_of_idx_valid; lia|congruence].
  - intros i y Hi Hy. apply in_seq in Hi. apply in_map_iff in Hy. destruct Hy as [m [<- Hm]].
    unfold eng_block in Hm.
    destruct (get_piece b (sq_of_idx i)) as [[t c]|] eqn:G; [|destruct Hm]. cbn [snd] in Hm.
    destruct (color_eqb (current_turn b) c) eqn:E; [|destruct Hm]. apply color_eqb_true in E.
    apply in_map_iff in Hm. destruct Hm as [m0 [<- H0]].
    unfold move_of; cbn [m_from]. rewrite fill_start.
    rewrite (moveset_start b (sq_of_idx i) t c m0 WF); try assumption;
      [apply idx_sq_of_idx|apply sq_of_idx_valid; lia|congruence].
Qed.

Theorem legal_nodup : forall b, wf_rules b = true -> NoDup (map move_of (get_legal_moves b)).
Proof.
  intros b WR. unfold get_legal_moves. apply nodup_map_filter. apply all_moves_NoDup. exact WR.
Qed.

(* ------------------------------------------------------------------ *)
(* the counter-free part of the refinement step (no bound on the move counters) *)
Lemma cells_step_gen b m :
  wfb b = true -> rights_consistent b = true -> king_unique b ->
  move_okb b m = true -> flags_ok b m = true ->
  (forall c, p_captured m <> Some (King, c)) ->
  (p_castles m = true -> rank (p_start m) = rank (p_dest m)) ->
  cells (abs (make_move b m)) = cells (apply (abs b) (move_of m))
  /\ rights (abs (make_move b m)) = rights (apply (abs b) (move_of m))
  /\ ep (abs (make_move b m)) = ep (apply (abs b) (move_of m))
  /\ side (abs (make_move b m)) = side (apply (abs b) (move_of m)).
Proof.
  intros Wb RC KU Hm Hf Hnk Hcr.
  destruct (wfb_facts b Wb) as (W & _).
  destruct (move_ok_facts b m W Hm) as (Vs & Vd & Nsd & Hs & Hk & NP & Hc & Hcs & _). cbv zeta in *.
  destruct (flags_facts b m Hf) as (Fc & Fe & Fd & Fcap).
  pose proof (cells_refine b m W Hm Hf Hcr) as Hcells.
  pose proof (rights_refine b m W RC Hm KU Hnk) as Hrights.
  rewrite (make_move_eq b m NP).
  split; [|split; [|split]]; unfold abs at 1; cbn [cells rights ep side current_turn ep_file].
  - unfold get_piece. cbn [bbs]. rewrite <- Hcells. apply map_ext_in. intros i Hi. apply in_seq in Hi.
    rewrite (make_rep_fun b m W Hm) by (apply sq_of_idx_valid; lia). reflexivity.
  - unfold last_ply at 1. cbn [history].
    unfold new_ply. cbn [p_rights set_clock_rights]. rewrite Hrights. reflexivity.
  - unfold new_ep. unfold apply. cbn [ep]. rewrite Fd.
    change (m_to (move_of m)) with (idx (p_dest m)).
    rewrite (ApplyProofs.geo_file_idx _ Vd), Nat2Z.id. reflexivity.
  - reflexivity.
Qed.

Lemma cells_step : forall b m, wf_rules b = true -> In m (get_legal_moves b) ->
  cells (abs (make_move b m)) = cells (apply (abs b) (move_of m))
  /\ rights (abs (make_move b m)) = rights (apply (abs b) (move_of m))
  /\ ep (abs (make_move b m)) = ep (apply (abs b) (move_of m))
  /\ side (abs (make_move b m)) = side (apply (abs b) (move_of m)).
Proof.
  intros b m WR Hm. unfold get_legal_moves in Hm. apply filter_In in Hm. destruct Hm as [Hm _].
  destruct (generated_moves_ok b m WR Hm) as [Hok Hfl].
  destruct (wf_full_facts b (wf_rules_full b WR)) as [Wb RC].
  apply cells_step_gen; try assumption.
  - apply wf_rules_unique; exact WR.
  - apply (no_king_capture b m WR Hm).
  - apply (generated_castle_rank b m WR Hm).
Qed.

Lemma pseudo_in_rules : forall b m, wf_rules b = true -> In m (get_all_moves b) ->
  In (move_of m) (pseudo_moves (abs b)).
Proof. intros b m WR Hm. apply (pseudo_spec b WR). apply in_map. exact Hm. Qed.

Print Assumptions kings_ok_unique.
Print Assumptions pseudo_spec.
Print Assumptions generated_moves_ok.
Print Assumptions generated_castle_rank.
Print Assumptions no_king_capture.
Print Assumptions step_refines.
Print Assumptions legal_spec.
Print Assumptions mate_stalemate_spec.
Print Assumptions legal_nodup.
Print Assumptions cells_step.
