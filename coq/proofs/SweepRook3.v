(* finite sweep, squares 48..63: 16 x 2^k table entries checked by the kernel VM *)
From Coq Require Import NArith List.
From RCE Require Import lib.Bits lib.Geometry generated.Consts model.Tables proofs.TablesProofs.
Lemma rook_sweep_3 :
  sweep_range rook_dirs rook_mask_model rook_slow rook_magics rook_bits rook_size 48 16 = true.
Proof. vm_cast_no_check (eq_refl true). Qed.
