(* SearchInfoProofs.v — proofs of C14 (the progress reports of the search driver are well formed:
   depths 1..k in order, principal variations made of moves that passed the legality test, and
   every depth is reported when only a depth bound is given) and of C16 (without a time limit of
   any kind the search does not depend on the clock readings).  All statements are about the
   model for ARBITRARY limits / oracles / cache switch unless the statement says otherwise. *)
From Coq Require Import NArith ZArith List Lia Bool FMapPositive.
Import ListNotations.
From RCE Require Import model.Search.
Open Scope Z_scope.

(* ------------------------------------------------------------------ *)
(* the two observation functions of C14 (moved here from props/C14.v)  *)
(* ------------------------------------------------------------------ *)
Section InfoDefs.
  Variables pos mv : Type.
  Variable legal : pos -> mv -> bool.
  Variable make : pos -> mv -> pos.

  Definition info_depth (o : Output mv) : option nat :=
    match o with Info _ d _ _ _ _ _ => Some d | Bestmove _ _ => None end.

  Fixpoint pv_ok (p : pos) (pv : list mv) : bool :=
    match pv with [] => true | m :: t => legal p m && pv_ok (make p m) t end.
End InfoDefs.

Section Info.
  Variables pos mv : Type.
  Variable moves : pos -> list mv.
  Variable legal : pos -> mv -> bool.
  Variable make : pos -> mv -> pos.
  Variable in_check : pos -> bool.
  Variable evalf : pos -> Z.
  Variable is_cap is_promo : mv -> bool.
  Variable cap_score : mv -> N.
  Variable mv_eqb : mv -> mv -> bool.
  Variable key : pos -> N.
  Variable halfmove : pos -> N.
  Variable repeated : pos -> bool.
  Variable default_mv : mv.

  Local Notation State := (St mv).
  Local Notation run_ := (running mv).
  Local Notation order := (order_moves pos mv is_cap is_promo cap_score mv_eqb key).
  Local Notation skill := (store_killers mv is_cap is_promo mv_eqb).
  Local Notation cscore := (child_score pos mv).
  Local Notation idepth := (info_depth mv).
  Local Notation pvok := (pv_ok pos mv legal make).
  Local Notation getpv := (get_pv pos mv legal make key).

  (* ---------------- the local loops as top-level functions ---------------- *)
  (* (same technique as proofs/SearchProofs.v, but the abort test is a parameter) *)

  Definition q_loop (rec : State -> pos -> Z -> Z -> Z * State) (p : pos) (beta : Z) (ply : nat) :=
    fix loop (ms : list mv) (s : State) (alpha : Z) : Z * State :=
      match ms with
      | [] => (alpha, s)
      | m :: t =>
        if negb (legal p m) then loop t s alpha
        else
          let s := enter_node mv s (S ply) true in
          let (r, s) := rec s (make p m) (sneg beta) (sneg alpha) in
          let sc := sneg r in
          if sc >=? beta then (beta, s)
          else loop t s (if sc >? alpha then sc else alpha)
      end.

  Definition ab_loop (ext_stop : nat -> bool) (abt : State -> nat -> bool * State)
             (rec : State -> pos -> Z -> Z -> State * Z) (p : pos) (alpha_start beta : Z)
             (depth ply : nat) :=
    fix loop (ms : list mv) (s : State) (alpha : Z) (best : mv) (pvs : bool) (cnt : nat) : Z * State :=
      match ms with
      | [] => match cnt with
              | O => ((if in_check p then SCORE_MIN + Z.of_nat ply else 0), s)
              | _ => (alpha, tt_insert mv ext_stop s (key p)
                                  (mkE mv alpha depth (if alpha <=? alpha_start then Upper else Exact) best))
              end
      | m :: t =>
        if negb (legal p m) then loop t s alpha best pvs cnt
        else
          let s := enter_node mv s (S ply) true in
          let (s, sc) := cscore rec s (make p m) alpha beta pvs in
          let (ab0, s) := abt s ply in
          if ab0 then (0, s)
          else if sc >=? beta then
                 (beta, skill (tt_insert mv ext_stop s (key p) (mkE mv sc depth Lower m)) ply m)
          else if sc >? alpha then loop t s sc m true (S cnt)
          else loop t s alpha best pvs (S cnt)
      end.

  Definition root_loop (ext_stop : nat -> bool) (abt : State -> nat -> bool * State)
             (rec : State -> pos -> Z -> Z -> State * Z) (p : pos) (depth : nat) :=
    fix loop (ms : list mv) (s : State) (alpha : Z) (best : mv) (pvs : bool) (cnt : nat) : State :=
      match ms with
      | [] => match cnt with
              | O => s
              | _ => let (ab0, s) := abt s 0%nat in
                     if ab0 then s
                     else set_best mv (tt_insert mv ext_stop s (key p) (mkE mv alpha depth Exact best))
                                   (Some best) (Some alpha)
              end
      | m :: t =>
        if negb (legal p m) then loop t s alpha best pvs cnt
        else
          let s := enter_node mv s 1 false in
          let (s, sc) := cscore rec s (make p m) alpha SCORE_MAX pvs in
          let (ab0, s) := abt s 0%nat in
          if ab0 then
            match best_score mv s with
            | Some bs => if alpha >? bs then set_best mv s (Some best) (Some alpha) else s
            | None => s
            end
          else if sc >? alpha then loop t s sc m true (S cnt)
          else loop t s alpha best pvs (S cnt)
      end.

  (* ---------------- unfolding equations, for arbitrary limits and oracles ---------------- *)
  Section Fixed.
    Variable lim : Limits.
    Variable clock : nat -> N.
    Variable ext_stop : nat -> bool.
    Variable tt_on : bool.

    Local Notation abt := (aborted mv lim clock ext_stop).
    Local Notation qs := (quiescence pos mv moves legal make evalf is_cap is_promo cap_score mv_eqb key
                                     lim clock ext_stop).
    Local Notation ab := (alpha_beta pos mv moves legal make in_check evalf is_cap is_promo cap_score mv_eqb key
                                     halfmove repeated default_mv lim clock ext_stop tt_on).
    Local Notation start := (alpha_beta_start pos mv moves legal make in_check evalf is_cap is_promo cap_score
                                     mv_eqb key halfmove repeated default_mv lim clock ext_stop tt_on).

    Definition q_rec (f : nat) (ply : nat) : State -> pos -> Z -> Z -> Z * State :=
      fun s c a b => qs f s c a b (S ply).
    Definition ab_rec (f : nat) (dm1 ply : nat) : State -> pos -> Z -> Z -> State * Z :=
      fun s c a b => let (r, s') := ab f s c a b dm1 (S ply) in (s', r).

    Lemma qs_S f s p a b ply :
      qs (S f) s p a b ply =
      let (ab0, s1) := abt s ply in
      if ab0 then (0, s1)
      else if evalf p >=? b then (b, s1)
      else q_loop (q_rec f ply) p b ply (order s1 p ply (filter is_cap (moves p))) s1
                  (if evalf p >? a then evalf p else a).
    Proof. reflexivity. Qed.

    Lemma ab_S f s p a b d ply :
      ab (S f) s p a b d ply =
      let (ab0, s1) := abt s ply in
      if ab0 then (0, s1)
      else if N.leb 100 (halfmove p) then (0, s1)
      else if repeated p then (0, s1)
      else
        let s2 := if tt_on then s1 else set_tt mv s1 (PositiveMap.empty _) in
        match probe pos mv key s2 p d a b with
        | (Some v, _, _) => (v, s2)
        | (None, alpha0, beta) =>
          let depth := if in_check p then S d else d in
          match depth with
          | O => qs f s2 p alpha0 beta ply
          | S dm1 =>
            ab_loop ext_stop abt (ab_rec f dm1 ply) p a beta depth ply (order s2 p ply (moves p)) s2 alpha0
                    (match moves p with m :: _ => m | [] => default_mv end) false O
          end
        end.
    Proof. reflexivity. Qed.

    Lemma start_eq s p d :
      start s p d =
      match moves p with
      | [] => s
      | m0 :: _ => root_loop ext_stop abt (ab_rec FUEL (pred d) 0) p d (order s p 0%nat (moves p)) s
                             SCORE_MIN m0 false O
      end.
    Proof. reflexivity. Qed.
  End Fixed.

  (* ---------------- the loops only depend on the graphs of their parameters ---------------- *)

  Lemma q_loop_ext rec1 rec2 p beta ply :
    (forall s c a b, rec1 s c a b = rec2 s c a b) ->
    forall ms s alpha, q_loop rec1 p beta ply ms s alpha = q_loop rec2 p beta ply ms s alpha.
  Proof.
    intros H. induction ms as [|m t IH]; intros s alpha; cbn [q_loop]; [reflexivity|].
    destruct (negb (legal p m)); [apply IH|]. cbv zeta.
    rewrite H. destruct (rec2 _ _ _ _) as [r s1].
    destruct (sneg r >=? beta); [reflexivity|apply IH].
  Qed.

  Lemma cscore_ext rec1 rec2 s c alpha beta pvs :
    (forall s c a b, rec1 s c a b = rec2 s c a b) ->
    cscore rec1 s c alpha beta pvs = cscore rec2 s c alpha beta pvs.
  Proof.
    intros H. unfold child_score. destruct pvs.
    - rewrite H. destruct (rec2 s c (sneg alpha - 1) (sneg alpha)) as [s1 r1].
      destruct ((alpha <? sneg r1) && (sneg r1 <? beta)); [|reflexivity].
      rewrite H. reflexivity.
    - rewrite H. reflexivity.
  Qed.

  Lemma ab_loop_ext es abt1 abt2 rec1 rec2 p a0 beta depth ply :
    (forall s k, abt1 s k = abt2 s k) ->
    (forall s c a b, rec1 s c a b = rec2 s c a b) ->
    forall ms s alpha best pvs cnt,
      ab_loop es abt1 rec1 p a0 beta depth ply ms s alpha best pvs cnt
      = ab_loop es abt2 rec2 p a0 beta depth ply ms s alpha best pvs cnt.
  Proof.
    intros HA HR. induction ms as [|m t IH]; intros s alpha best pvs cnt; cbn [ab_loop]; [reflexivity|].
    destruct (negb (legal p m)); [apply IH|]. cbv zeta.
    rewrite (cscore_ext rec1 rec2 _ _ _ _ _ HR).
    destruct (cscore rec2 _ _ _ _ _) as [s1 sc].
    rewrite HA. destruct (abt2 s1 ply) as [ab0 s2].
    destruct ab0; [reflexivity|].
    destruct (sc >=? beta); [reflexivity|].
    destruct (sc >? alpha); apply IH.
  Qed.

  Lemma root_loop_ext es abt1 abt2 rec1 rec2 p depth :
    (forall s k, abt1 s k = abt2 s k) ->
    (forall s c a b, rec1 s c a b = rec2 s c a b) ->
    forall ms s alpha best pvs cnt,
      root_loop es abt1 rec1 p depth ms s alpha best pvs cnt
      = root_loop es abt2 rec2 p depth ms s alpha best pvs cnt.
  Proof.
    intros HA HR. induction ms as [|m t IH]; intros s alpha best pvs cnt; cbn [root_loop].
    - destruct cnt; [reflexivity|]. rewrite HA. reflexivity.
    - destruct (negb (legal p m)); [apply IH|]. cbv zeta.
      rewrite (cscore_ext rec1 rec2 _ _ _ _ _ HR).
      destruct (cscore rec2 _ _ _ _ _) as [s1 sc].
      rewrite HA. destruct (abt2 s1 0%nat) as [ab0 s2].
      destruct ab0; [reflexivity|].
      destruct (sc >? alpha); apply IH.
  Qed.

  (* ================================================================== *)
  (* C16: without a time limit the clock readings are irrelevant         *)
  (* ================================================================== *)
  Section ClockFree.
    Variable ext_stop : nat -> bool.
    Variable tt_on : bool.

    Section TwoClocks.
      Variable l : Limits.
      Variables clock1 clock2 : nat -> N.
      Hypothesis Hmt : l_movetime l = None.
      Hypothesis Hac : l_any_clock l = false.

      Lemma limits_cf (s : State) ply :
        limits_exceeded mv l clock1 s ply = limits_exceeded mv l clock2 s ply.
      Proof. unfold limits_exceeded. rewrite Hmt, Hac. reflexivity. Qed.

      Lemma aborted_cf (s : State) ply :
        aborted mv l clock1 ext_stop s ply = aborted mv l clock2 ext_stop s ply.
      Proof.
        unfold aborted. destruct (is_running mv ext_stop s) as [r s1].
        destruct (negb r); [reflexivity|apply limits_cf].
      Qed.

      Lemma qs_cf : forall f s p a b ply,
        quiescence pos mv moves legal make evalf is_cap is_promo cap_score mv_eqb key l clock1 ext_stop
                   f s p a b ply
        = quiescence pos mv moves legal make evalf is_cap is_promo cap_score mv_eqb key l clock2 ext_stop
                     f s p a b ply.
      Proof.
        induction f as [|f IH]; intros s p a b ply; [reflexivity|].
        rewrite !qs_S. rewrite aborted_cf.
        destruct (aborted mv l clock2 ext_stop s ply) as [ab0 s1].
        destruct ab0; [reflexivity|].
        destruct (evalf p >=? b); [reflexivity|].
        apply q_loop_ext. intros s' c a' b'. unfold q_rec. apply IH.
      Qed.

      Lemma ab_cf : forall f s p a b d ply,
        alpha_beta pos mv moves legal make in_check evalf is_cap is_promo cap_score mv_eqb key
                   halfmove repeated default_mv l clock1 ext_stop tt_on f s p a b d ply
        = alpha_beta pos mv moves legal make in_check evalf is_cap is_promo cap_score mv_eqb key
                     halfmove repeated default_mv l clock2 ext_stop tt_on f s p a b d ply.
      Proof.
        induction f as [|f IH]; intros s p a b d ply; [reflexivity|].
        rewrite !ab_S. rewrite aborted_cf.
        destruct (aborted mv l clock2 ext_stop s ply) as [ab0 s1].
        destruct ab0; [reflexivity|].
        destruct (N.leb 100 (halfmove p)); [reflexivity|].
        destruct (repeated p); [reflexivity|].
        cbv zeta.
        set (s2 := if tt_on then s1 else set_tt mv s1 (PositiveMap.empty _)).
        destruct (probe pos mv key s2 p d a b) as [[o alpha0] beta].
        destruct o as [v|]; [reflexivity|].
        destruct (if in_check p then S d else d) as [|dm1].
        - apply qs_cf.
        - apply ab_loop_ext; [exact aborted_cf|].
          intros s' c a' b'. unfold ab_rec. rewrite IH. reflexivity.
      Qed.

      Lemma start_cf s p d :
        alpha_beta_start pos mv moves legal make in_check evalf is_cap is_promo cap_score mv_eqb key
                         halfmove repeated default_mv l clock1 ext_stop tt_on s p d
        = alpha_beta_start pos mv moves legal make in_check evalf is_cap is_promo cap_score mv_eqb key
                           halfmove repeated default_mv l clock2 ext_stop tt_on s p d.
      Proof.
        rewrite !start_eq. destruct (moves p) as [|m0 t0]; [reflexivity|].
        apply root_loop_ext; [exact aborted_cf|].
        intros s' c a' b'. unfold ab_rec. rewrite ab_cf. reflexivity.
      Qed.

      Lemma iter_cf p : forall n d s out,
        iter_loop pos mv moves legal make in_check evalf is_cap is_promo cap_score mv_eqb key
                  halfmove repeated default_mv l clock1 ext_stop tt_on n d s p out
        = iter_loop pos mv moves legal make in_check evalf is_cap is_promo cap_score mv_eqb key
                    halfmove repeated default_mv l clock2 ext_stop tt_on n d s p out.
      Proof.
        induction n as [|n IH]; intros d s out; cbn [iter_loop]; [reflexivity|].
        rewrite start_cf, aborted_cf.
        destruct (aborted mv l clock2 ext_stop _ 0%nat) as [ab0 s1].
        destruct ab0; [reflexivity|apply IH].
      Qed.

      Lemma search_cf s0 p D :
        search pos mv moves legal make in_check evalf is_cap is_promo cap_score mv_eqb key
               halfmove repeated default_mv l clock1 ext_stop tt_on s0 p D
        = search pos mv moves legal make in_check evalf is_cap is_promo cap_score mv_eqb key
                 halfmove repeated default_mv l clock2 ext_stop tt_on s0 p D.
      Proof. unfold search. rewrite iter_cf. reflexivity. Qed.
    End TwoClocks.

    Theorem search_clock_free : forall (l : Limits) (clock1 clock2 : nat -> N) (s0 : State) (p : pos)
                                       (D : option nat),
      (l_movetime l = None /\ l_any_clock l = false) ->
      search pos mv moves legal make in_check evalf is_cap is_promo cap_score mv_eqb key
             halfmove repeated default_mv l clock1 ext_stop tt_on s0 p D
      = search pos mv moves legal make in_check evalf is_cap is_promo cap_score mv_eqb key
               halfmove repeated default_mv l clock2 ext_stop tt_on s0 p D.
    Proof. intros l clock1 clock2 s0 p D [Hmt Hac]. apply search_cf; assumption. Qed.
  End ClockFree.

  (* ================================================================== *)
  (* C14, part 1: the shape of the output for arbitrary limits/oracles   *)
  (* ================================================================== *)

  Lemma get_pv_ok (s : State) : forall len p,
    pvok p (getpv s p len) = true /\ (length (getpv s p len) <= len)%nat.
  Proof.
    induction len as [|n IH]; intros p; cbn [get_pv].
    - split; [reflexivity|apply Nat.le_refl].
    - destruct (tt_get mv s (key p)) as [e|]; [|split; [reflexivity|apply Nat.le_0_l]].
      destruct (legal p (e_best mv e)) eqn:L; [|split; [reflexivity|apply Nat.le_0_l]].
      destruct (IH (make p (e_best mv e))) as [I1 I2].
      cbn [pv_ok length]. rewrite L, I1. split; [reflexivity|]. apply le_n_S, I2.
  Qed.

  (* what C14_pv_checked says about one output line *)
  Definition good (p : pos) (o : Output mv) : Prop :=
    match o with
    | Info _ d _ _ _ _ pv => pvok p pv = true /\ (length pv <= d)%nat
    | Bestmove _ _ => True
    end.

  Lemma info_line_good (s : State) p d pv :
    pvok p pv = true -> (length pv <= d)%nat -> good p (info_line mv s d pv).
  Proof.
    intros H1 H2. unfold info_line.
    destruct (best_score mv s) as [sc|]; [|split; assumption].
    destruct (sc <=? SCORE_MIN + 255 + 1); [split; assumption|].
    destruct (sc >=? SCORE_MAX - 255); split; assumption.
  Qed.

  Lemma info_line_depth (s : State) d pv : idepth (info_line mv s d pv) = Some d.
  Proof.
    unfold info_line.
    destruct (best_score mv s) as [sc|]; [|reflexivity].
    destruct (sc <=? SCORE_MIN + 255 + 1); [reflexivity|].
    destruct (sc >=? SCORE_MAX - 255); reflexivity.
  Qed.

  Section AnyLimits.
    Variable lim : Limits.
    Variable clock : nat -> N.
    Variable ext_stop : nat -> bool.
    Variable tt_on : bool.

    Local Notation iter := (iter_loop pos mv moves legal make in_check evalf is_cap is_promo cap_score mv_eqb key
                                      halfmove repeated default_mv lim clock ext_stop tt_on).
    Local Notation srch := (search pos mv moves legal make in_check evalf is_cap is_promo cap_score mv_eqb key
                                   halfmove repeated default_mv lim clock ext_stop tt_on).

    Lemma iter_shape p : forall n d (s : State) out,
      exists k infos, (k <= n)%nat
        /\ snd (iter n d s p out) = infos ++ out
        /\ map idepth (rev infos) = map Some (seq d k)
        /\ Forall (good p) infos.
    Proof.
      induction n as [|n IH]; intros d s out; cbn [iter_loop].
      - exists 0%nat, []. repeat split; [apply Nat.le_refl|constructor].
      - destruct (aborted mv lim clock ext_stop _ 0%nat) as [ab0 s1].
        destruct ab0.
        + exists 0%nat, []. repeat split; [apply Nat.le_0_l|constructor].
        + destruct (IH (S d) s1 (info_line mv s1 d (getpv s1 p d) :: out)) as [k [infos [Hk [He [Hd Hg]]]]].
          exists (S k), (infos ++ [info_line mv s1 d (getpv s1 p d)]).
          split; [apply le_n_S, Hk|]. split; [|split].
          * rewrite He, <- app_assoc. reflexivity.
          * rewrite rev_unit. cbn [map seq]. rewrite info_line_depth, Hd. reflexivity.
          * apply Forall_app. split; [exact Hg|]. constructor; [|constructor].
            destruct (get_pv_ok s1 d p) as [G1 G2]. apply info_line_good; assumption.
    Qed.

    Lemma search_shape (s0 : State) p D :
      exists k infos m, (k <= match D with Some d => d | None => 255 end)%nat
        /\ snd (srch s0 p D) = rev infos ++ [Bestmove mv m]
        /\ map idepth (rev infos) = map Some (seq 1 k)
        /\ Forall (good p) infos.
    Proof.
      unfold search.
      destruct (iter_shape p (match D with Some d => d | None => 255%nat end) 1%nat s0 [])
        as [k [infos [Hk [He [Hd Hg]]]]].
      destruct (iter _ 1%nat s0 p []) as [s out]. cbn [snd] in He |- *.
      rewrite app_nil_r in He. subst out.
      exists k, infos, (announced pos mv moves legal default_mv s p).
      repeat split; assumption.
    Qed.

    Theorem depths_in_order : forall (s0 : State) (p : pos) (D : option nat),
      exists k m, (k <= match D with Some d => d | None => 255 end)%nat
                  /\ map idepth (snd (srch s0 p D)) = map Some (seq 1 k) ++ [None]
                  /\ last (snd (srch s0 p D)) (Bestmove mv default_mv) = Bestmove mv m.
    Proof.
      intros s0 p D. destruct (search_shape s0 p D) as [k [infos [m [Hk [He [Hd _]]]]]].
      exists k, m. split; [exact Hk|]. rewrite He. split.
      - rewrite map_app, Hd. reflexivity.
      - apply last_last.
    Qed.

    Theorem pv_checked : forall (s0 : State) (p : pos) (D : option nat) d sd n k sc pv,
      In (Info mv d sd n k sc pv) (snd (srch s0 p D)) -> pvok p pv = true /\ (length pv <= d)%nat.
    Proof.
      intros s0 p D d sd n k sc pv HIn.
      destruct (search_shape s0 p D) as [k' [infos [m [_ [He [_ Hg]]]]]].
      rewrite He in HIn. apply in_app_or in HIn. destruct HIn as [HIn|HIn].
      - apply in_rev in HIn. rewrite Forall_forall in Hg. exact (Hg _ HIn).
      - destruct HIn as [HIn|[]]. discriminate HIn.
    Qed.
  End AnyLimits.

  (* ================================================================== *)
  (* C14, part 2: a depth-only search reports every depth                *)
  (* ================================================================== *)

  Definition keepsA (abt : State -> nat -> bool * State) : Prop :=
    forall s ply, run_ s = true -> run_ (snd (abt s ply)) = true.
  Definition keepsQ (rec : State -> pos -> Z -> Z -> Z * State) : Prop :=
    forall s c a b, run_ s = true -> run_ (snd (rec s c a b)) = true.
  Definition keeps (rec : State -> pos -> Z -> Z -> State * Z) : Prop :=
    forall s c a b, run_ s = true -> run_ (fst (rec s c a b)) = true.

  Lemma run_skill (s : State) ply m : run_ (skill s ply m) = run_ s.
  Proof.
    unfold store_killers. destruct (is_cap m || is_promo m); [reflexivity|].
    destruct (okill_eqb mv mv_eqb m _); reflexivity.
  Qed.

  Lemma q_loop_run rec p beta ply : keepsQ rec ->
    forall ms s alpha, run_ s = true -> run_ (snd (q_loop rec p beta ply ms s alpha)) = true.
  Proof.
    intros Hrec. induction ms as [|m t IH]; intros s alpha Hs; cbn [q_loop].
    - exact Hs.
    - destruct (negb (legal p m)); [apply IH, Hs|]. cbv zeta.
      pose proof (Hrec (enter_node mv s (S ply) true) (make p m) (sneg beta) (sneg alpha) Hs) as H1.
      destruct (rec _ _ _ _) as [r s1]. cbn [snd] in H1.
      destruct (sneg r >=? beta); [exact H1|apply IH, H1].
  Qed.

  Lemma cscore_run rec s c alpha beta pvs : keeps rec -> run_ s = true ->
    run_ (fst (cscore rec s c alpha beta pvs)) = true.
  Proof.
    intros Hrec Hs. unfold child_score. destruct pvs.
    - pose proof (Hrec s c (sneg alpha - 1) (sneg alpha) Hs) as H1.
      destruct (rec s c (sneg alpha - 1) (sneg alpha)) as [s1 r1]. cbn [fst] in H1.
      destruct ((alpha <? sneg r1) && (sneg r1 <? beta)); [|exact H1].
      pose proof (Hrec s1 c (sneg beta) (sneg alpha) H1) as H2.
      destruct (rec s1 c (sneg beta) (sneg alpha)) as [s2 r2]. exact H2.
    - pose proof (Hrec s c (sneg beta) (sneg alpha) Hs) as H1.
      destruct (rec s c (sneg beta) (sneg alpha)) as [s1 r1]. exact H1.
  Qed.

  Lemma ab_loop_run es abt rec p a0 beta depth ply : keepsA abt -> keeps rec ->
    forall ms s alpha best pvs cnt, run_ s = true ->
      run_ (snd (ab_loop es abt rec p a0 beta depth ply ms s alpha best pvs cnt)) = true.
  Proof.
    intros HA Hrec. induction ms as [|m t IH]; intros s alpha best pvs cnt Hs; cbn [ab_loop].
    - destruct cnt; exact Hs.
    - destruct (negb (legal p m)); [apply IH, Hs|]. cbv zeta.
      pose proof (cscore_run rec (enter_node mv s (S ply) true) (make p m) alpha beta pvs Hrec Hs) as H1.
      destruct (cscore rec _ _ _ _ _) as [s1 sc]. cbn [fst] in H1.
      pose proof (HA s1 ply H1) as H2.
      destruct (abt s1 ply) as [ab0 s2]. cbn [snd] in H2.
      destruct ab0; [exact H2|].
      destruct (sc >=? beta); [cbn [snd]; rewrite run_skill; exact H2|].
      destruct (sc >? alpha); apply IH, H2.
  Qed.

  Lemma root_loop_run es abt rec p depth : keepsA abt -> keeps rec ->
    forall ms s alpha best pvs cnt, run_ s = true ->
      run_ (root_loop es abt rec p depth ms s alpha best pvs cnt) = true.
  Proof.
    intros HA Hrec. induction ms as [|m t IH]; intros s alpha best pvs cnt Hs; cbn [root_loop].
    - destruct cnt; [exact Hs|].
      pose proof (HA s 0%nat Hs) as H2.
      destruct (abt s 0%nat) as [ab0 s2]. cbn [snd] in H2.
      destruct ab0; exact H2.
    - destruct (negb (legal p m)); [apply IH, Hs|]. cbv zeta.
      pose proof (cscore_run rec (enter_node mv s 1 false) (make p m) alpha SCORE_MAX pvs Hrec Hs) as H1.
      destruct (cscore rec _ _ _ _ _) as [s1 sc]. cbn [fst] in H1.
      pose proof (HA s1 0%nat H1) as H2.
      destruct (abt s1 0%nat) as [ab0 s2]. cbn [snd] in H2.
      destruct ab0.
      + destruct (best_score mv s2) as [bs|]; [|exact H2].
        destruct (alpha >? bs); exact H2.
      + destruct (sc >? alpha); apply IH, H2.
  Qed.

  Section DepthOnly.
    Variable clock : nat -> N.
    Variable tt_on : bool.

    Local Notation nostop := (fun _ : nat => false).
    Local Notation abt := (aborted mv no_limits clock nostop).
    Local Notation qs := (quiescence pos mv moves legal make evalf is_cap is_promo cap_score mv_eqb key
                                     no_limits clock nostop).
    Local Notation ab := (alpha_beta pos mv moves legal make in_check evalf is_cap is_promo cap_score mv_eqb key
                                     halfmove repeated default_mv no_limits clock nostop tt_on).
    Local Notation start := (alpha_beta_start pos mv moves legal make in_check evalf is_cap is_promo cap_score
                                     mv_eqb key halfmove repeated default_mv no_limits clock nostop tt_on).
    Local Notation iter := (iter_loop pos mv moves legal make in_check evalf is_cap is_promo cap_score mv_eqb key
                                      halfmove repeated default_mv no_limits clock nostop tt_on).
    Local Notation srch := (search pos mv moves legal make in_check evalf is_cap is_promo cap_score mv_eqb key
                                   halfmove repeated default_mv no_limits clock nostop tt_on).

    Lemma aborted_nl (s : State) ply : run_ s = true ->
      abt s ply = (Nat.eqb ply 255,
                   if Nat.eqb ply 255 then tick_load mv s else tick_read mv (tick_load mv s)).
    Proof.
      intros H. unfold aborted, is_running, flag_now, limits_exceeded, PLY_MAX.
      rewrite H. cbn [andb negb].
      destruct (Nat.eqb ply 255); reflexivity.
    Qed.

    Lemma abt_keeps : keepsA abt.
    Proof.
      intros s ply H. rewrite (aborted_nl _ _ H). cbn [snd].
      destruct (Nat.eqb ply 255); exact H.
    Qed.

    Lemma qs_run : forall f s p a b ply, run_ s = true -> run_ (snd (qs f s p a b ply)) = true.
    Proof.
      induction f as [|f IH]; intros s p a b ply Hs; [exact Hs|].
      rewrite qs_S. pose proof (abt_keeps s ply Hs) as H1.
      destruct (abt s ply) as [ab0 s1]. cbn [snd] in H1.
      destruct ab0; [exact H1|].
      destruct (evalf p >=? b); [exact H1|].
      apply q_loop_run; [|exact H1].
      intros s' c a' b' Hs'. unfold q_rec. apply IH, Hs'.
    Qed.

    Lemma ab_run : forall f s p a b d ply, run_ s = true -> run_ (snd (ab f s p a b d ply)) = true.
    Proof.
      induction f as [|f IH]; intros s p a b d ply Hs; [exact Hs|].
      rewrite ab_S. pose proof (abt_keeps s ply Hs) as H1.
      destruct (abt s ply) as [ab0 s1]. cbn [snd] in H1.
      destruct ab0; [exact H1|].
      destruct (N.leb 100 (halfmove p)); [exact H1|].
      destruct (repeated p); [exact H1|].
      cbv zeta.
      set (s2 := if tt_on then s1 else set_tt mv s1 (PositiveMap.empty _)).
      assert (H2 : run_ s2 = true) by (unfold s2; destruct tt_on; exact H1).
      destruct (probe pos mv key s2 p d a b) as [[o alpha0] beta].
      destruct o as [v|]; [exact H2|].
      destruct (if in_check p then S d else d) as [|dm1].
      - apply qs_run, H2.
      - apply ab_loop_run; [exact abt_keeps| |exact H2].
        intros s' c a' b' Hs'. unfold ab_rec.
        pose proof (IH s' c a' b' dm1 (S ply) Hs') as H.
        destruct (ab f s' c a' b' dm1 (S ply)) as [r s'']. exact H.
    Qed.

    Lemma start_run s p d : run_ s = true -> run_ (start s p d) = true.
    Proof.
      intros Hs. rewrite start_eq. destruct (moves p) as [|m0 t0]; [exact Hs|].
      apply root_loop_run; [exact abt_keeps| |exact Hs].
      intros s' c a' b' Hs'. unfold ab_rec.
      pose proof (ab_run FUEL s' c a' b' (pred d) 1%nat Hs') as H.
      destruct (ab FUEL s' c a' b' (pred d) 1%nat) as [r s'']. exact H.
    Qed.

    Lemma iter_all p : forall n d (s : State) out, run_ s = true ->
      exists infos, snd (iter n d s p out) = infos ++ out
                    /\ map idepth (rev infos) = map Some (seq d n).
    Proof.
      induction n as [|n IH]; intros d s out Hs; cbn [iter_loop].
      - exists []. split; reflexivity.
      - pose proof (start_run s p d Hs) as H1.
        rewrite (aborted_nl _ 0%nat H1). cbv beta iota. cbn [Nat.eqb].
        set (s1 := tick_read mv (tick_load mv (start s p d))).
        destruct (IH (S d) s1 (info_line mv s1 d (getpv s1 p d) :: out) H1) as [infos [He Hd]].
        exists (infos ++ [info_line mv s1 d (getpv s1 p d)]). split.
        + rewrite He, <- app_assoc. reflexivity.
        + rewrite rev_unit. cbn [map seq]. rewrite info_line_depth, Hd. reflexivity.
    Qed.

    Theorem depth_only_reports_all : forall (s0 : State) (p : pos) (N : nat),
      run_ s0 = true -> (N <= 255)%nat ->
      map idepth (snd (srch s0 p (Some N))) = map Some (seq 1 N) ++ [None].
    Proof.
      intros s0 p N Hs _. unfold search.
      destruct (iter_all p N 1%nat s0 [] Hs) as [infos [He Hd]].
      destruct (iter N 1%nat s0 p []) as [s out]. cbn [snd] in He |- *.
      rewrite app_nil_r in He. subst out.
      cbn [rev]. rewrite map_app, Hd. reflexivity.
    Qed.
  End DepthOnly.
End Info.
