(* SearchMutProofs.v — the search that threads ONE board through make_move / unmake_move
   (model/SearchMut.v, the code as it runs) computes what the search over persistent positions
   (model/Search.v) computes, and hands the board back as it got it — given that unmaking a
   generated move restores the board (C02).

   quiescence, alpha_beta (any fuel, state, window, depth, ply; ANY limits, clock, stop oracle):
       f_mut ... b ... = Some (f ... b ..., b).
   alpha_beta_start leaves the board one move deep when it is interrupted (search.rs 331-338
   return without unmake_move): the state is that of the persistent model in every case, the
   board is the original one unless the root loop was interrupted.  For iter_deep / search this
   needs the interruption to be for good (monotone clock, monotone stop flag): then the test at
   search.rs 221 breaks out of the loop and the displaced board is never searched. *)
From Coq Require Import NArith ZArith List Lia Bool FMapPositive.
Import ListNotations.
From RCE Require Import model.Search model.SearchMut proofs.SearchProofs proofs.SearchAbortProofs
  proofs.SearchPrefixProofs.
Open Scope Z_scope.

Section InPlace.
  Variables pos mv : Type.
  Variable moves : pos -> list mv.
  Variable legal : pos -> mv -> bool.
  Variable make : pos -> mv -> pos.
  Variable unmake : pos -> option pos.
  Variable left_in_check : pos -> mv -> bool.
  Variable in_check : pos -> bool.
  Variable evalf : pos -> Z.
  Variable is_cap is_promo : mv -> bool.
  Variable cap_score : mv -> N.
  Variable mv_eqb : mv -> mv -> bool.
  Variable key : pos -> N.
  Variable halfmove : pos -> N.
  Variable repeated : pos -> bool.
  Variable default_mv : mv.
  Variable lim : Limits.
  Variable clock : nat -> N.
  Variable ext_stop : nat -> bool.
  Variable tt_on : bool.

  Variable Inv : pos -> Prop.
  Hypothesis Inv_make : forall p m, Inv p -> In m (moves p) -> legal p m = true -> Inv (make p m).
  (* C02 for generated moves *)
  Hypothesis restore : forall p m, Inv p -> In m (moves p) -> unmake (make p m) = Some p.
  (* Board::is_legal_move: make, test the mover's king, unmake *)
  Hypothesis legal_def : forall p m, legal p m = negb (left_in_check (make p m) m).

  Local Notation State := (St mv).
  Local Notation abt := (aborted mv lim clock ext_stop).
  Local Notation order := (order_moves pos mv is_cap is_promo cap_score mv_eqb key).
  Local Notation tins := (tt_insert mv ext_stop).
  Local Notation skill := (store_killers mv is_cap is_promo mv_eqb).
  Local Notation cscore := (child_score pos mv).
  Local Notation cscoreM := (child_score_mut pos mv).
  Local Notation lgM := (legal_mut pos mv make unmake left_in_check).
  Local Notation qs := (quiescence pos mv moves legal make evalf is_cap is_promo cap_score mv_eqb key
                                   lim clock ext_stop).
  Local Notation qsM := (quiescence_mut pos mv moves make unmake left_in_check evalf is_cap is_promo cap_score
                                   mv_eqb key lim clock ext_stop).
  Local Notation ab := (alpha_beta pos mv moves legal make in_check evalf is_cap is_promo cap_score mv_eqb key
                                   halfmove repeated default_mv lim clock ext_stop tt_on).
  Local Notation abM := (alpha_beta_mut pos mv moves make unmake left_in_check in_check evalf is_cap is_promo
                                   cap_score mv_eqb key halfmove repeated default_mv lim clock ext_stop tt_on).
  Local Notation start := (alpha_beta_start pos mv moves legal make in_check evalf is_cap is_promo cap_score
                                   mv_eqb key halfmove repeated default_mv lim clock ext_stop tt_on).
  Local Notation startM := (alpha_beta_start_mut pos mv moves make unmake left_in_check in_check evalf is_cap
                                   is_promo cap_score mv_eqb key halfmove repeated default_mv lim clock
                                   ext_stop tt_on).
  Local Notation iter := (iter_loop pos mv moves legal make in_check evalf is_cap is_promo cap_score mv_eqb key
                                   halfmove repeated default_mv lim clock ext_stop tt_on).
  Local Notation iterM := (iter_loop_mut pos mv moves legal make unmake left_in_check in_check evalf is_cap
                                   is_promo cap_score mv_eqb key halfmove repeated default_mv lim clock
                                   ext_stop tt_on).
  Local Notation srch := (search pos mv moves legal make in_check evalf is_cap is_promo cap_score mv_eqb key
                                   halfmove repeated default_mv lim clock ext_stop tt_on).
  Local Notation srchM := (search_mut pos mv moves legal make unmake left_in_check in_check evalf is_cap
                                   is_promo cap_score mv_eqb key halfmove repeated default_mv lim clock
                                   ext_stop tt_on).
  Local Notation qlp := (qloop pos mv legal make).
  Local Notation ablp := (abloop pos mv legal make in_check is_cap is_promo mv_eqb key lim clock ext_stop).
  Local Notation rootlp := (rootloop pos mv legal make key lim clock ext_stop).
  Local Notation q_rec := (qrec pos mv moves legal make evalf is_cap is_promo cap_score mv_eqb key
                                lim clock ext_stop).
  Local Notation ab_rec := (abrec pos mv moves legal make in_check evalf is_cap is_promo cap_score mv_eqb key
                                 halfmove repeated default_mv lim clock ext_stop tt_on).

  (* ------------------------------------------------------------------ *)
  (* the local loops of model/SearchMut.v as top-level functions          *)
  (* ------------------------------------------------------------------ *)
  Definition qloop_mut (rec : State -> pos -> Z -> Z -> option (Z * State * pos)) (beta : Z) (ply : nat) :=
    fix loop (ms : list mv) (s : State) (b : pos) (alpha : Z) : option (Z * State * pos) :=
      match ms with
      | [] => Some (alpha, s, b)
      | m :: t =>
        match lgM b m with
        | None => None
        | Some (ok, b) =>
          if negb ok then loop t s b alpha
          else
            let b1 := make b m in
            let s := enter_node mv s (S ply) true in
            match rec s b1 (sneg beta) (sneg alpha) with
            | None => None
            | Some (r, s, b1') =>
              match unmake b1' with
              | None => None
              | Some b =>
                let sc := sneg r in
                if sc >=? beta then Some (beta, s, b)
                else loop t s b (if sc >? alpha then sc else alpha)
              end
            end
        end
      end.

  Definition abloop_mut (rec : State -> pos -> Z -> Z -> option (State * Z * pos)) (alpha_start beta : Z)
             (depth ply : nat) :=
    fix loop (ms : list mv) (s : State) (b : pos) (alpha : Z) (best : mv) (pvs : bool) (cnt : nat)
      : option (Z * State * pos) :=
      match ms with
      | [] =>
        match cnt with
        | O => Some ((if in_check b then SCORE_MIN + Z.of_nat ply else 0), s, b)
        | _ => Some (alpha, tins s (key b)
                                 (mkE mv alpha depth (if alpha <=? alpha_start then Upper else Exact) best), b)
        end
      | m :: t =>
        match lgM b m with
        | None => None
        | Some (ok, b) =>
          if negb ok then loop t s b alpha best pvs cnt
          else
            let b1 := make b m in
            let s := enter_node mv s (S ply) true in
            match cscoreM rec s b1 alpha beta pvs with
            | None => None
            | Some (s, sc, b1') =>
              match unmake b1' with
              | None => None
              | Some b =>
                let (ab0, s) := abt s ply in
                if ab0 then Some (0, s, b)
                else if sc >=? beta then
                  Some (beta, skill (tins s (key b) (mkE mv sc depth Lower m)) ply m, b)
                else if sc >? alpha then loop t s b sc m true (S cnt)
                else loop t s b alpha best pvs (S cnt)
              end
            end
        end
      end.

  Definition rootloop_mut (rec : State -> pos -> Z -> Z -> option (State * Z * pos)) (depth : nat) :=
    fix loop (ms : list mv) (s : State) (b : pos) (alpha : Z) (best : mv) (pvs : bool) (cnt : nat)
      : option (State * pos) :=
      match ms with
      | [] =>
        match cnt with
        | O => Some (s, b)
        | _ =>
          let (ab0, s) := abt s 0 in
          if ab0 then Some (s, b)
          else Some (set_best mv (tins s (key b) (mkE mv alpha depth Exact best)) (Some best) (Some alpha), b)
        end
      | m :: t =>
        match lgM b m with
        | None => None
        | Some (ok, b) =>
          if negb ok then loop t s b alpha best pvs cnt
          else
            let b1 := make b m in
            let s := enter_node mv s 1 false in
            match cscoreM rec s b1 alpha SCORE_MAX pvs with
            | None => None
            | Some (s, sc, b1') =>
              let (ab0, s) := abt s 0 in
              if ab0 then
                Some (match best_score mv s with
                      | Some bs => if alpha >? bs then set_best mv s (Some best) (Some alpha) else s
                      | None => s
                      end, b1')
              else
                match unmake b1' with
                | None => None
                | Some b =>
                  if sc >? alpha then loop t s b sc m true (S cnt)
                  else loop t s b alpha best pvs (S cnt)
                end
            end
        end
      end.

  Definition qrec_mut (f : nat) (ply : nat) : State -> pos -> Z -> Z -> option (Z * State * pos) :=
    fun s c a b => qsM f s c a b (S ply).
  Definition abrec_mut (f : nat) (dm1 ply : nat) : State -> pos -> Z -> Z -> option (State * Z * pos) :=
    fun s c a bt => match abM f s c a bt dm1 (S ply) with
                    | Some (r, s', c') => Some (s', r, c')
                    | None => None
                    end.

  Lemma mqs_S f s b a bt ply :
    qsM (S f) s b a bt ply =
    let (ab0, s1) := abt s ply in
    if ab0 then Some (0, s1, b)
    else if evalf b >=? bt then Some (bt, s1, b)
    else qloop_mut (qrec_mut f ply) bt ply (order s1 b ply (filter is_cap (moves b))) s1 b
                   (if evalf b >? a then evalf b else a).
  Proof. reflexivity. Qed.

  Lemma mab_S f s b a bt d ply :
    abM (S f) s b a bt d ply =
    let (ab0, s1) := abt s ply in
    if ab0 then Some (0, s1, b)
    else if N.leb 100 (halfmove b) then Some (0, s1, b)
    else if repeated b then Some (0, s1, b)
    else
      let s2 := if tt_on then s1 else set_tt mv s1 (PositiveMap.empty _) in
      match probe pos mv key s2 b d a bt with
      | (Some v, _, _) => Some (v, s2, b)
      | (None, alpha0, beta) =>
        let depth := if in_check b then S d else d in
        match depth with
        | O => qsM f s2 b alpha0 beta ply
        | S dm1 =>
          abloop_mut (abrec_mut f dm1 ply) a beta depth ply (order s2 b ply (moves b)) s2 b alpha0
                     (match moves b with m :: _ => m | [] => default_mv end) false O
        end
      end.
  Proof. reflexivity. Qed.

  Lemma mstart_eq s b d :
    startM s b d =
    match moves b with
    | [] => Some (s, b)
    | m0 :: _ => rootloop_mut (abrec_mut FUEL (pred d) 0) d (order s b 0%nat (moves b)) s b SCORE_MIN m0 false O
    end.
  Proof. reflexivity. Qed.

  (* ------------------------------------------------------------------ *)
  (* the legality probe and one child                                     *)
  (* ------------------------------------------------------------------ *)
  Lemma legal_mut_ok b m : Inv b -> In m (moves b) -> lgM b m = Some (legal b m, b).
  Proof.
    intros HI Hm. unfold legal_mut. rewrite (restore b m HI Hm), <- legal_def. reflexivity.
  Qed.

  Lemma child_score_mut_ok (recM : State -> pos -> Z -> Z -> option (State * Z * pos))
        (rec : State -> pos -> Z -> Z -> State * Z) (c : pos) :
    (forall s a bt, recM s c a bt = Some (rec s c a bt, c)) ->
    forall s alpha beta pvs, cscoreM recM s c alpha beta pvs = Some (cscore rec s c alpha beta pvs, c).
  Proof.
    intros Hrec s alpha beta pvs. unfold child_score_mut, child_score.
    destruct pvs.
    - rewrite Hrec. destruct (rec s c (sneg alpha - 1) (sneg alpha)) as [s1 r1].
      destruct ((alpha <? sneg r1) && (sneg r1 <? beta)).
      + rewrite Hrec. destruct (rec s1 c (sneg beta) (sneg alpha)) as [s2 r2]. reflexivity.
      + reflexivity.
    - rewrite Hrec. destruct (rec s c (sneg beta) (sneg alpha)) as [s1 r1]. reflexivity.
  Qed.

  (* ------------------------------------------------------------------ *)
  (* quiescence                                                           *)
  (* ------------------------------------------------------------------ *)
  Lemma qloop_mut_ok (recM : State -> pos -> Z -> Z -> option (Z * State * pos))
        (rec : State -> pos -> Z -> Z -> Z * State) (b : pos) (beta : Z) (ply : nat) :
    Inv b ->
    (forall s c a bt, Inv c -> recM s c a bt = Some (rec s c a bt, c)) ->
    forall ms, (forall m, In m ms -> In m (moves b)) ->
    forall s alpha, qloop_mut recM beta ply ms s b alpha = Some (qlp rec b beta ply ms s alpha, b).
  Proof.
    intros HI Hrec. induction ms as [|m t IH]; intros Hin s alpha.
    - reflexivity.
    - assert (Hm : In m (moves b)) by (apply Hin; left; reflexivity).
      assert (Ht : forall x, In x t -> In x (moves b)) by (intros x Hx; apply Hin; right; exact Hx).
      cbn [qloop_mut qloop]. rewrite (legal_mut_ok b m HI Hm).
      destruct (legal b m) eqn:El; cbn [negb].
      + rewrite (Hrec _ _ _ _ (Inv_make b m HI Hm El)).
        destruct (rec (enter_node mv s (S ply) true) (make b m) (sneg beta) (sneg alpha)) as [r s1].
        rewrite (restore b m HI Hm).
        destruct (sneg r >=? beta); [reflexivity|]. apply IH, Ht.
      + apply IH, Ht.
  Qed.

  Theorem quiescence_in_place : forall f s b a bt ply,
    Inv b -> qsM f s b a bt ply = Some (qs f s b a bt ply, b).
  Proof.
    induction f as [|f IH]; intros s b a bt ply HI.
    - reflexivity.
    - rewrite mqs_S, gqs_S. destruct (abt s ply) as [ab0 s1].
      destruct ab0; [reflexivity|].
      destruct (evalf b >=? bt); [reflexivity|].
      apply qloop_mut_ok.
      + exact HI.
      + intros s' c a' bt' Hc. unfold qrec_mut, qrec. apply IH, Hc.
      + intros m Hm. apply order_incl in Hm. apply filter_In in Hm. exact (proj1 Hm).
  Qed.

  (* ------------------------------------------------------------------ *)
  (* alpha_beta                                                           *)
  (* ------------------------------------------------------------------ *)
  Lemma abloop_mut_ok (recM : State -> pos -> Z -> Z -> option (State * Z * pos))
        (rec : State -> pos -> Z -> Z -> State * Z) (b : pos) (a0 beta : Z) (depth ply : nat) :
    Inv b ->
    (forall s c a bt, Inv c -> recM s c a bt = Some (rec s c a bt, c)) ->
    forall ms, (forall m, In m ms -> In m (moves b)) ->
    forall s alpha best pvs cnt,
      abloop_mut recM a0 beta depth ply ms s b alpha best pvs cnt
      = Some (ablp rec b a0 beta depth ply ms s alpha best pvs cnt, b).
  Proof.
    intros HI Hrec. induction ms as [|m t IH]; intros Hin s alpha best pvs cnt.
    - cbn [abloop_mut abloop]. destruct cnt; reflexivity.
    - assert (Hm : In m (moves b)) by (apply Hin; left; reflexivity).
      assert (Ht : forall x, In x t -> In x (moves b)) by (intros x Hx; apply Hin; right; exact Hx).
      cbn [abloop_mut abloop]. rewrite (legal_mut_ok b m HI Hm).
      destruct (legal b m) eqn:El; cbn [negb].
      + rewrite (child_score_mut_ok recM rec (make b m)
                   (fun s' a' bt' => Hrec s' (make b m) a' bt' (Inv_make b m HI Hm El))).
        destruct (cscore rec (enter_node mv s (S ply) true) (make b m) alpha beta pvs) as [s1 sc].
        rewrite (restore b m HI Hm).
        destruct (abt s1 ply) as [ab0 s2].
        destruct ab0; [reflexivity|].
        destruct (sc >=? beta); [reflexivity|].
        destruct (sc >? alpha); apply IH, Ht.
      + apply IH, Ht.
  Qed.

  Theorem alpha_beta_in_place : forall f s b a bt d ply,
    Inv b -> abM f s b a bt d ply = Some (ab f s b a bt d ply, b).
  Proof.
    induction f as [|f IH]; intros s b a bt d ply HI.
    - reflexivity.
    - rewrite mab_S, gab_S. destruct (abt s ply) as [ab0 s1].
      destruct ab0; [reflexivity|].
      destruct (N.leb 100 (halfmove b)); [reflexivity|].
      destruct (repeated b); [reflexivity|].
      cbv zeta.
      destruct (probe pos mv key (if tt_on then s1 else set_tt mv s1 (PositiveMap.empty _)) b d a bt)
        as [[o alpha0] beta].
      destruct o as [v|]; [reflexivity|].
      destruct (if in_check b then S d else d) as [|dm1].
      + apply quiescence_in_place, HI.
      + apply abloop_mut_ok.
        * exact HI.
        * intros s' c a' bt' Hc. unfold abrec_mut, abrec. rewrite (IH _ _ _ _ _ _ Hc).
          destruct (ab f s' c a' bt' dm1 (S ply)) as [r s'']. reflexivity.
        * intros m Hm. apply order_incl in Hm. exact Hm.
  Qed.

  Lemma abrec_mut_ok f dm1 ply s c a bt :
    Inv c -> abrec_mut f dm1 ply s c a bt = Some (ab_rec f dm1 ply s c a bt, c).
  Proof.
    intros Hc. unfold abrec_mut, abrec. rewrite (alpha_beta_in_place _ _ _ _ _ _ _ Hc).
    destruct (ab f s c a bt dm1 (S ply)) as [r s']. reflexivity.
  Qed.

  (* ------------------------------------------------------------------ *)
  (* the root: interrupted => one move deep                               *)
  (* ------------------------------------------------------------------ *)
  Hypothesis clock_mono : mono_clk clock.
  Hypothesis stop_mono : mono_stp ext_stop.

  Local Notation Abt := (Ab mv lim clock ext_stop).

  (* the board a root iteration (or the whole search) on `b` leaves: `b` itself, or — interrupted
     for good in state s — `b` with one legal generated move made *)
  Definition left_board (b : pos) (s : State) (b' : pos) : Prop :=
    b' = b \/ (Abt s /\ exists m, In m (moves b) /\ legal b m = true /\ b' = make b m).

  Lemma abt0_true s s' : abt s 0%nat = (true, s') -> Abt s'.
  Proof.
    intros E. destruct (abtC_cases mv lim clock ext_stop clock_mono stop_mono s 0%nat) as [[H _]|[_ H]].
    - rewrite E in H. cbn in H. discriminate.
    - rewrite E in H. exact H.
  Qed.

  Lemma rootloop_mut_ok (recM : State -> pos -> Z -> Z -> option (State * Z * pos))
        (rec : State -> pos -> Z -> Z -> State * Z) (b : pos) (depth : nat) :
    Inv b ->
    (forall s c a bt, Inv c -> recM s c a bt = Some (rec s c a bt, c)) ->
    forall ms, (forall m, In m ms -> In m (moves b)) ->
    forall s alpha best pvs cnt,
      exists b', rootloop_mut recM depth ms s b alpha best pvs cnt
                 = Some (rootlp rec b depth ms s alpha best pvs cnt, b')
                 /\ left_board b (rootlp rec b depth ms s alpha best pvs cnt) b'.
  Proof.
    intros HI Hrec. induction ms as [|m t IH]; intros Hin s alpha best pvs cnt.
    - exists b. split; [|left; reflexivity].
      cbn [rootloop_mut rootloop]. destruct cnt; [reflexivity|].
      destruct (abt s 0%nat) as [ab0 s1]. destruct ab0; reflexivity.
    - assert (Hm : In m (moves b)) by (apply Hin; left; reflexivity).
      assert (Ht : forall x, In x t -> In x (moves b)) by (intros x Hx; apply Hin; right; exact Hx).
      cbn [rootloop_mut rootloop]. rewrite (legal_mut_ok b m HI Hm).
      destruct (legal b m) eqn:El; cbn [negb].
      + rewrite (child_score_mut_ok recM rec (make b m)
                   (fun s' a' bt' => Hrec s' (make b m) a' bt' (Inv_make b m HI Hm El))).
        destruct (cscore rec (enter_node mv s 1 false) (make b m) alpha SCORE_MAX pvs) as [s1 sc].
        destruct (abt s1 0%nat) as [ab0 s2] eqn:Ea.
        destruct ab0.
        * exists (make b m). split; [reflexivity|]. right. split.
          -- pose proof (abt0_true _ _ Ea) as HA.
             destruct (best_score mv s2) as [bs|]; [|exact HA].
             destruct (alpha >? bs); [apply Ab_set_best|]; exact HA.
          -- exists m. repeat split; assumption.
        * rewrite (restore b m HI Hm). destruct (sc >? alpha); apply IH, Ht.
      + apply IH, Ht.
  Qed.

  Theorem start_in_place : forall s b d,
    Inv b -> exists b', startM s b d = Some (start s b d, b') /\ left_board b (start s b d) b'.
  Proof.
    intros s b d HI. rewrite mstart_eq, gstart_eq.
    destruct (moves b) as [|m0 t] eqn:Em.
    - exists b. split; [reflexivity | left; reflexivity].
    - rewrite <- Em. apply rootloop_mut_ok.
      + exact HI.
      + intros s' c a' bt' Hc. apply abrec_mut_ok, Hc.
      + intros m Hm. apply order_incl in Hm. exact Hm.
  Qed.

  Corollary start_in_place_simple : forall s b d,
    Inv b -> exists b', startM s b d = Some (start s b d, b')
                        /\ (b' = b \/ exists m, In m (moves b) /\ legal b m = true /\ b' = make b m).
  Proof.
    intros s b d HI. destruct (start_in_place s b d HI) as [b' [E L]].
    exists b'. split; [exact E|]. destruct L as [L|[_ L]]; [left; exact L | right; exact L].
  Qed.

  (* ------------------------------------------------------------------ *)
  (* iterative deepening and the whole search                             *)
  (* ------------------------------------------------------------------ *)
  Lemma iter_in_place p : Inv p -> forall n d s out,
    exists b', iterM n d s p p out = Some (iter n d s p out, b')
               /\ left_board p (fst (iter n d s p out)) b'.
  Proof.
    intros HI. induction n as [|n IH]; intros d s out.
    - exists p. split; [reflexivity | left; reflexivity].
    - cbn [iter_loop_mut iter_loop].
      destruct (start_in_place s p d HI) as [b1 [E1 L1]]. rewrite E1.
      destruct L1 as [L1|[HA Hex]].
      + subst b1. destruct (abt (start s p d) 0%nat) as [ab0 s1].
        destruct ab0; [|apply IH].
        exists p. split; [reflexivity | left; reflexivity].
      + destruct (abtC_Ab mv lim clock ext_stop clock_mono stop_mono _ 0%nat HA) as [Hf HA'].
        destruct (abt (start s p d) 0%nat) as [ab0 s1]. cbn [fst snd] in Hf, HA'. subst ab0.
        exists b1. split; [reflexivity|]. right. split; [exact HA' | exact Hex].
  Qed.

  (* what Search::search leaves in self.board (dropped with the Search value right after): the
     original board, or the original board with one legal generated move made *)
  Definition search_left_board (p b' : pos) : Prop :=
    b' = p \/ exists m, In m (moves p) /\ legal p m = true /\ b' = make p m.

  Theorem search_in_place : forall s0 p D,
    Inv p -> exists b', srchM s0 p D = Some (srch s0 p D, b') /\ search_left_board p b'.
  Proof.
    intros s0 p D HI. unfold search_mut, search.
    destruct (iter_in_place p HI (match D with Some d => d | None => 255%nat end) 1%nat s0 [])
      as [b' [E L]].
    rewrite E.
    destruct (iter (match D with Some d => d | None => 255%nat end) 1%nat s0 p []) as [s out].
    exists b'. split; [reflexivity|].
    destruct L as [L|[_ L]]; [left; exact L | right; exact L].
  Qed.

  (* a search whose iterations end in a state that is not interrupted for good (flag still set as
     this thread wrote it, no stop seen at the next load, no budget exhausted at the next reading)
     hands the board back exactly *)
  Theorem search_in_place_uninterrupted : forall s0 p D,
    Inv p ->
    ~ Abt (fst (iter (match D with Some d => d | None => 255%nat end) 1%nat s0 p [])) ->
    srchM s0 p D = Some (srch s0 p D, p).
  Proof.
    intros s0 p D HI HN. unfold search_mut, search.
    destruct (iter_in_place p HI (match D with Some d => d | None => 255%nat end) 1%nat s0 [])
      as [b' [E L]].
    rewrite E.
    destruct L as [L|[HA _]]; [|contradiction].
    subst b'.
    destruct (iter (match D with Some d => d | None => 255%nat end) 1%nat s0 p []) as [s out].
    reflexivity.
  Qed.
End InPlace.
