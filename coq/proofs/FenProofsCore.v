(* FenProofsCore.v — C07 parts 1 and 2: every query reads the board only through `core`, and for
   well-formed bitboards `abs` determines `core`. *)
From Coq Require Import NArith ZArith List Lia Bool.
Import ListNotations.
From RCE Require Import lib.Bits model.Board model.Movegen model.Wf model.Ops model.Abs spec.Rules.
Open Scope N_scope.

(* ------------------------------------------------------------------ *)
(* Part 1: same core, same behaviour                                   *)

Lemma fold_left_ext_in {A B} (f g : A -> B -> A) l :
  (forall a x, In x l -> f a x = g a x) -> forall a, fold_left f l a = fold_left g l a.
Proof.
  induction l as [|x t IH]; intros H a; cbn [fold_left]; [reflexivity|].
  rewrite (H a x (or_introl eq_refl)). apply IH. intros a' y Hy. apply H. right. exact Hy.
Qed.

(* what the queries read *)
Record sameC (b b' : Board) : Prop := mkSameC {
  sc_bbs : bbs b = bbs b';
  sc_turn : current_turn b = current_turn b';
  sc_ep : ep_file b = ep_file b';
  sc_rights : p_rights (last_ply b) = p_rights (last_ply b');
  sc_hm : p_halfmove (last_ply b) = p_halfmove (last_ply b');
  sc_fm : Board.fullmove b = Board.fullmove b' }.

Lemma sameC_of_core b1 b2 : core b1 = core b2 -> sameC b1 b2.
Proof. unfold core. intros H. inversion H. constructor; assumption. Qed.

Lemma get_piece_bbs b b' s : bbs b = bbs b' -> get_piece b s = get_piece b' s.
Proof. intros H. unfold get_piece. rewrite H. reflexivity. Qed.

Lemma piece_attacks_bbs b b' k s : bbs b = bbs b' -> piece_attacks k s b = piece_attacks k s b'.
Proof. intros H. unfold piece_attacks. rewrite H. reflexivity. Qed.

Lemma attacked_squares_bbs b b' c : bbs b = bbs b' -> attacked_squares b c = attacked_squares b' c.
Proof.
  intros H. unfold attacked_squares. rewrite H.
  apply fold_left_ext_in. intros acc s _.
  rewrite (get_piece_bbs b b' _ H).
  destruct (get_piece b' (sq_of_idx s)); [rewrite (piece_attacks_bbs b b' _ _ H)|]; reflexivity.
Qed.

Lemma is_in_check_bbs b b' c : bbs b = bbs b' -> is_in_check b c = is_in_check b' c.
Proof.
  intros H. unfold is_in_check. rewrite (attacked_squares_bbs b b' c H), H. reflexivity.
Qed.

Lemma castling_ability_c b b' k : sameC b b' -> castling_ability b k = castling_ability b' k.
Proof.
  intros [Hb Ht He Hr _ _].
  unfold castling_ability, castle_status, no_pieces_between, no_checks_castling.
  rewrite (attacked_squares_bbs b b' _ Hb), Hb, Ht, Hr. reflexivity.
Qed.

Lemma pawn_moveset_c b b' sq c : sameC b b' -> pawn_moveset sq b c = pawn_moveset sq b' c.
Proof.
  intros [Hb Ht He Hr _ _]. unfold pawn_moveset, same_pieces. rewrite Hb, He. reflexivity.
Qed.

Lemma king_moveset_c b b' sq c : sameC b b' -> king_moveset sq b c = king_moveset sq b' c.
Proof.
  intros H. unfold king_moveset, same_pieces.
  rewrite !(castling_ability_c b b' _ H). rewrite (sc_bbs _ _ H). reflexivity.
Qed.

Lemma simple_moveset_c b b' a sq k : sameC b b' -> simple_moveset a sq b k = simple_moveset a sq b' k.
Proof. intros H. unfold simple_moveset, same_pieces. rewrite (sc_bbs _ _ H). reflexivity. Qed.

Lemma get_moveset_c b b' k sq : sameC b b' -> get_moveset k sq b = get_moveset k sq b'.
Proof.
  intros H. unfold get_moveset.
  rewrite (pawn_moveset_c b b' _ _ H), (king_moveset_c b b' _ _ H), !(simple_moveset_c b b' _ _ _ H).
  rewrite (sc_bbs _ _ H). reflexivity.
Qed.

Lemma fill_captured_c b b' m : sameC b b' -> fill_captured b m = fill_captured b' m.
Proof.
  intros H. unfold fill_captured. rewrite !(get_piece_bbs b b' _ (sc_bbs _ _ H)). reflexivity.
Qed.

Lemma get_all_moves_c b b' : sameC b b' -> get_all_moves b = get_all_moves b'.
Proof.
  intros H. unfold get_all_moves. apply flat_map_ext. intros i.
  rewrite (get_piece_bbs b b' _ (sc_bbs _ _ H)), (sc_turn _ _ H).
  destruct (get_piece b' (sq_of_idx i)) as [k|]; [|reflexivity].
  rewrite (get_moveset_c b b' _ _ H).
  destruct (color_eqb _ _); [|reflexivity].
  apply map_ext. intros m. apply fill_captured_c, H.
Qed.

Lemma key_from_scratch_c b b' : sameC b b' -> key_from_scratch b = key_from_scratch b'.
Proof.
  intros [Hb Ht He Hr _ _]. unfold key_from_scratch, castle_status. rewrite Ht, He, Hr.
  match goal with |- context [fold_left ?f (seq 0 64) 0] =>
    match f with context [b] =>
    assert (Hf : fold_left f (seq 0 64) 0 =
                 fold_left (fun acc i => match get_piece b' (sq_of_idx i) with
                                         | Some k => N.lxor acc (z_piece k (sq_of_idx i))
                                         | None => acc end) (seq 0 64) 0) end end.
  { apply fold_left_ext_in. intros acc i _. rewrite (get_piece_bbs b b' _ Hb). reflexivity. }
  rewrite Hf. reflexivity.
Qed.

(* the rights component of the castling bookkeeping does not depend on the key component *)
Definition revoke_r (r : Rights) (k : CastlingKind) : Rights :=
  if get_right r k then clear_right r k else r.

Lemma revoke_snd st k : snd (revoke st k) = revoke_r (snd st) k.
Proof. unfold revoke, revoke_r. destruct (get_right (snd st) k); reflexivity. Qed.

Definition cr1 (m : Ply) (st : N * Rights) : N * Rights :=
  match p_piece m, rank (p_start m), file (p_start m) with
  | (King, White), _, _ => revoke (revoke st WK) WQ
  | (King, Black), _, _ => revoke (revoke st BK) BQ
  | (Rook, White), 0, 0 => revoke st WQ
  | (Rook, White), 0, 7 => revoke st WK
  | (Rook, Black), 7, 0 => revoke st BQ
  | (Rook, Black), 7, 7 => revoke st BK
  | _, _, _ => st
  end%nat.
Definition cr2 (m : Ply) (st1 : N * Rights) : N * Rights :=
  match p_captured m, rank (p_dest m), file (p_dest m) with
  | Some (Rook, White), 0, 0 => revoke st1 WQ
  | Some (Rook, White), 0, 7 => revoke st1 WK
  | Some (Rook, Black), 7, 0 => revoke st1 BQ
  | Some (Rook, Black), 7, 7 => revoke st1 BK
  | _, _, _ => st1
  end%nat.

Lemma cr_split m st : castling_revocations m st = cr2 m (cr1 m st).
Proof. reflexivity. Qed.

Ltac nat8 x := destruct x as [|[|[|[|[|[|[|[|?]]]]]]]].

Lemma cr1_snd m st st' : snd st = snd st' -> snd (cr1 m st) = snd (cr1 m st').
Proof.
  intros H. unfold cr1.
  destruct (p_piece m) as [[] []]; try exact H;
    try (rewrite !revoke_snd, H; reflexivity);
    nat8 (rank (p_start m)); try exact H;
    nat8 (file (p_start m)); try exact H; rewrite !revoke_snd, H; reflexivity.
Qed.

Lemma cr2_snd m st st' : snd st = snd st' -> snd (cr2 m st) = snd (cr2 m st').
Proof.
  intros H. unfold cr2.
  destruct (p_captured m) as [[[] []]|]; try exact H;
    nat8 (rank (p_dest m)); try exact H;
    nat8 (file (p_dest m)); try exact H; rewrite !revoke_snd, H; reflexivity.
Qed.

Lemma castling_revocations_snd m z z' r :
  snd (castling_revocations m (z, r)) = snd (castling_revocations m (z', r)).
Proof. rewrite !cr_split. apply cr2_snd, cr1_snd. reflexivity. Qed.

(* the board fields that make_move's intermediate boards carry into `core` *)
Definition same4 (b b' : Board) : Prop :=
  bbs b = bbs b' /\ current_turn b = current_turn b' /\ ep_file b = ep_file b'
  /\ Board.fullmove b = Board.fullmove b'.

Lemma remove_piece_same4 b b' s k : same4 b b' -> same4 (remove_piece b s k) (remove_piece b' s k).
Proof.
  intros (H1 & H2 & H3 & H4). unfold same4, remove_piece, with_bbs_key.
  cbn [bbs current_turn ep_file Board.fullmove]. rewrite H1. auto.
Qed.
Lemma add_piece_same4 b b' s k : same4 b b' -> same4 (add_piece b s k) (add_piece b' s k).
Proof.
  intros (H1 & H2 & H3 & H4). unfold same4, add_piece, with_bbs_key.
  cbn [bbs current_turn ep_file Board.fullmove]. rewrite H1. auto.
Qed.
Lemma move_piece_same4 b b' s d k pr cap e :
  same4 b b' -> same4 (move_piece b s d k pr cap e) (move_piece b' s d k pr cap e).
Proof.
  intros H. unfold move_piece. apply add_piece_same4.
  destruct cap as [c|]; [destruct e|]; repeat apply remove_piece_same4; exact H.
Qed.

Lemma same4_turn x y : same4 x y -> current_turn x = current_turn y.
Proof. intros (_ & ? & _). assumption. Qed.

(* the part of make_move after the en-passant bookkeeping *)
Definition mm_tail (b b1 : Board) (m0 : Ply) : Board :=
  let prev := last_ply b in
  let hm := match p_piece m0, p_captured m0 with
            | (Pawn, _), _ => 0
            | _, Some _ => 0
            | _, None => wrap16 (p_halfmove prev + 1)
            end in
  let b2 := move_piece b1 (p_start m0) (p_dest m0) (p_piece m0) (p_promoted m0) (p_captured m0) (p_ep m0) in
  let b3 := if p_castles m0 then
              match castle_rook_squares (p_dest m0) with
              | Some (rs, rd) => move_piece b2 rs rd (Rook, current_turn b2) None None false
              | None => b2
              end
            else b2 in
  let '(z3, rights') := castling_revocations m0 (zkey b3, p_rights prev) in
  let m := set_clock_rights m0 hm rights' in
  let b4 := switch_turn (with_key b3 z3) in
  let fm := if color_eqb (current_turn b4) White then wrap16 (Board.fullmove b4 + 1) else Board.fullmove b4 in
  mkBoard (current_turn b4) fm (ep_file b4) (m :: history b4) (pos_hist b4) (bbs b4) (zkey b4).

Lemma make_move_tail b m :
  make_move b m =
  mm_tail b (mkBoard (current_turn b) (Board.fullmove b)
                     (if p_dpp m then Some (file (p_dest m)) else None) (history b) (zkey b :: pos_hist b) (bbs b)
                     (if p_dpp m then N.lxor (match ep_file b with Some f => N.lxor (zkey b) (z_ep f) | None => zkey b end)
                                             (z_ep (file (p_dest m)))
                      else match ep_file b with Some f => N.lxor (zkey b) (z_ep f) | None => zkey b end)) m.
Proof. unfold make_move, mm_tail. destruct (p_dpp m); reflexivity. Qed.

Lemma mm_tail_core b b' b1 b1' m :
  sameC b b' -> same4 b1 b1' -> core (mm_tail b b1 m) = core (mm_tail b' b1' m).
Proof.
  intros H H0. unfold mm_tail. cbv zeta.
  rewrite (sc_rights _ _ H), (sc_hm _ _ H).
  match goal with
  | |- core (match castling_revocations m (zkey ?B3N, _) with _ => _ end) =
       core (match castling_revocations m (zkey ?B3, _) with _ => _ end) =>
    set (b3N := B3N); set (b3 := B3);
    assert (H3 : same4 b3N b3)
  end.
  { subst b3N b3.
    assert (Hs : same4 (move_piece b1 (p_start m) (p_dest m) (p_piece m) (p_promoted m) (p_captured m) (p_ep m))
                       (move_piece b1' (p_start m) (p_dest m) (p_piece m) (p_promoted m) (p_captured m) (p_ep m)))
      by (apply move_piece_same4; exact H0).
    destruct (p_castles m); [|exact Hs].
    destruct (castle_rook_squares (p_dest m)) as [[rs rd]|]; [|exact Hs].
    rewrite (same4_turn _ _ Hs). apply move_piece_same4. exact Hs. }
  clearbody b3N b3.
  pose proof (castling_revocations_snd m (zkey b3N) (zkey b3) (p_rights (last_ply b'))) as Hr.
  destruct (castling_revocations m (zkey b3N, _)) as [zN rN].
  destruct (castling_revocations m (zkey b3, _)) as [z r].
  cbn [snd] in Hr. subst rN. destruct H3 as (H1 & H2 & H3 & H4).
  unfold core, switch_turn, with_key, with_bbs_key.
  cbn [bbs current_turn ep_file Board.fullmove history last_ply p_rights p_halfmove set_clock_rights].
  rewrite H1, H2, H3, H4. reflexivity.
Qed.

Lemma core_make_move_c b b' m : sameC b b' -> core (make_move b m) = core (make_move b' m).
Proof.
  intros H. rewrite !make_move_tail. apply mm_tail_core; [exact H|].
  destruct H. repeat split; assumption.
Qed.

Lemma core_bbs b b' : core b = core b' -> bbs b = bbs b'.
Proof. unfold core. intros H. inversion H. reflexivity. Qed.

Lemma is_legal_move_c b b' m : sameC b b' -> is_legal_move b m = is_legal_move b' m.
Proof.
  intros H. unfold is_legal_move.
  rewrite (is_in_check_bbs (make_move b m) (make_move b' m)); [reflexivity|].
  apply core_bbs, core_make_move_c, H.
Qed.

Lemma get_legal_moves_c b b' : sameC b b' -> get_legal_moves b = get_legal_moves b'.
Proof.
  intros H. unfold get_legal_moves. rewrite (get_all_moves_c b b' H).
  apply filter_ext. intros m. apply is_legal_move_c, H.
Qed.

Theorem same_core_same_behaviour : forall b1 b2,
  core b1 = core b2 ->
  get_legal_moves b1 = get_legal_moves b2
  /\ (forall m, core (make_move b1 m) = core (make_move b2 m))
  /\ key_from_scratch b1 = key_from_scratch b2.
Proof.
  intros b1 b2 H. apply sameC_of_core in H. split; [|split].
  - apply get_legal_moves_c, H.
  - intros m. apply core_make_move_c, H.
  - apply key_from_scratch_c, H.
Qed.

(* ------------------------------------------------------------------ *)
(* Part 2: bitboards versus cells                                      *)

Lemma sq_mask_sweep : forallb (fun n => N.eqb (sq_mask (sq_of_idx n)) (bit n)) (seq 0 64) = true.
Proof. vm_compute. reflexivity. Qed.

Lemma sq_mask_idx n : (n < 64)%nat -> sq_mask (sq_of_idx n) = bit n.
Proof.
  intros H. apply N.eqb_eq. pose proof sq_mask_sweep as S. rewrite forallb_forall in S.
  apply S. apply in_seq. lia.
Qed.

Lemma nonempty_land_bit n x : nonempty (N.land (bit n) x) = N.testbit x (N.of_nat n).
Proof.
  unfold nonempty. destruct (N.testbit x (N.of_nat n)) eqn:E.
  - apply negb_true_iff, N.eqb_neq. intros H0.
    assert (Hb : N.testbit (N.land (bit n) x) (N.of_nat n) = true).
    { rewrite N.land_spec, bit_spec, N.eqb_refl, E. reflexivity. }
    rewrite H0, N.bits_0 in Hb. discriminate.
  - apply negb_false_iff, N.eqb_eq. apply N.bits_inj_0. intros m.
    rewrite N.land_spec, bit_spec. destruct (N.eqb_spec m (N.of_nat n)) as [->|]; [|reflexivity].
    rewrite E. reflexivity.
Qed.

Definition cascade12 (t : Kind -> bool) : PieceAt :=
  if t (Pawn, White) || t (Knight, White) || t (Bishop, White) || t (Rook, White) || t (Queen, White) || t (King, White)
  then
    if t (Pawn, White) then PSome (Pawn, White)
    else if t (King, White) then PSome (King, White)
    else if t (Queen, White) then PSome (Queen, White)
    else if t (Rook, White) then PSome (Rook, White)
    else if t (Knight, White) then PSome (Knight, White)
    else if t (Bishop, White) then PSome (Bishop, White)
    else PMalformed
  else if t (Pawn, Black) || t (Knight, Black) || t (Bishop, Black) || t (Rook, Black) || t (Queen, Black) || t (King, Black)
  then
    if t (Pawn, Black) then PSome (Pawn, Black)
    else if t (King, Black) then PSome (King, Black)
    else if t (Queen, Black) then PSome (Queen, Black)
    else if t (Rook, Black) then PSome (Rook, Black)
    else if t (Knight, Black) then PSome (Knight, Black)
    else if t (Bishop, Black) then PSome (Bishop, Black)
    else PMalformed
  else PNone.

Lemma gpk_cascade p n :
  white_pieces p = white_union p -> black_pieces p = black_union p -> (n < 64)%nat ->
  get_piece_kind p (sq_of_idx n) = cascade12 (fun K => N.testbit (bb_get p K) (N.of_nat n)).
Proof.
  intros Hw Hb Hn. unfold get_piece_kind. rewrite (sq_mask_idx n Hn). cbv zeta.
  rewrite !nonempty_land_bit, Hw, Hb. unfold white_union, black_union.
  rewrite !N.lor_spec. reflexivity.
Qed.

Lemma cascade_some t K :
  (forall K', K' <> K -> t K' = false) -> t K = true -> cascade12 t = PSome K.
Proof.
  intros H HK. unfold cascade12.
  destruct K as [[] []]; rewrite HK;
    rewrite ?(H (Pawn, White)), ?(H (King, White)), ?(H (Queen, White)), ?(H (Rook, White)),
            ?(H (Knight, White)), ?(H (Bishop, White)), ?(H (Pawn, Black)), ?(H (King, Black)),
            ?(H (Queen, Black)), ?(H (Rook, Black)), ?(H (Knight, Black)), ?(H (Bishop, Black))
      by discriminate; reflexivity.
Qed.

Lemma cascade_none t : (forall K, t K = false) -> cascade12 t = PNone.
Proof. intros H. unfold cascade12. rewrite !H. reflexivity. Qed.

Lemma cascade_inv t K : piece_opt (cascade12 t) = Some K -> t K = true.
Proof.
  unfold cascade12.
  destruct (t (Pawn, White)) eqn:E1, (t (King, White)) eqn:E2, (t (Queen, White)) eqn:E3,
           (t (Rook, White)) eqn:E4, (t (Knight, White)) eqn:E5, (t (Bishop, White)) eqn:E6;
    cbn [orb piece_opt]; try (intros H; inversion H; subst; assumption);
  destruct (t (Pawn, Black)) eqn:F1, (t (King, Black)) eqn:F2, (t (Queen, Black)) eqn:F3,
           (t (Rook, Black)) eqn:F4, (t (Knight, Black)) eqn:F5, (t (Bishop, Black)) eqn:F6;
    cbn [orb piece_opt]; intros H; inversion H; subst; assumption.
Qed.

Definition two64 : N := 18446744073709551616.

Lemma pbb_wf_spec p : pbb_wf p = true ->
  (forall K, bb_get p K < two64)
  /\ (forall K K', K <> K' -> N.land (bb_get p K) (bb_get p K') = 0)
  /\ white_pieces p = white_union p /\ black_pieces p = black_union p
  /\ all_pieces p = N.lor (white_pieces p) (black_pieces p).
Proof.
  unfold pbb_wf, piece_boards. cbn [forallb pairwise_disjoint]. intros H.
  repeat match goal with H : _ && _ = true |- _ => apply andb_true_iff in H; destruct H end.
  repeat match goal with
         | H : N.eqb _ _ = true |- _ => apply N.eqb_eq in H
         | H : lt64 _ = true |- _ => unfold lt64 in H; apply N.ltb_lt in H
         end.
  split; [|split; [|split; [|split]]]; try assumption.
  - intros [[] []]; cbn [bb_get]; assumption.
  - intros [[] []] [[] []] Hne; try congruence; cbn [bb_get];
      first [assumption | rewrite N.land_comm; assumption].
Qed.

Lemma pbb_wf_intro p :
  (forall K, bb_get p K < two64) ->
  (forall K K', K <> K' -> N.land (bb_get p K) (bb_get p K') = 0) ->
  white_pieces p = white_union p -> black_pieces p = black_union p ->
  all_pieces p = N.lor (white_pieces p) (black_pieces p) ->
  pbb_wf p = true.
Proof.
  intros Hlt Hd Hw Hb Ha.
  unfold pbb_wf, piece_boards. cbn [forallb pairwise_disjoint].
  rewrite Ha, Hw, Hb, !N.eqb_refl.
  pose proof (fun K => proj2 (N.ltb_lt _ _) (Hlt K)) as Hlt'.
  pose proof (Hlt' (Pawn, White)) as L1. pose proof (Hlt' (King, White)) as L2.
  pose proof (Hlt' (Queen, White)) as L3. pose proof (Hlt' (Rook, White)) as L4.
  pose proof (Hlt' (Knight, White)) as L5. pose proof (Hlt' (Bishop, White)) as L6.
  pose proof (Hlt' (Pawn, Black)) as L7. pose proof (Hlt' (King, Black)) as L8.
  pose proof (Hlt' (Queen, Black)) as L9. pose proof (Hlt' (Rook, Black)) as L10.
  pose proof (Hlt' (Knight, Black)) as L11. pose proof (Hlt' (Bishop, Black)) as L12.
  cbn [bb_get] in *. unfold lt64. fold two64.
  rewrite L1, L2, L3, L4, L5, L6, L7, L8, L9, L10, L11, L12.
  assert (Hd' : forall K K', K <> K' -> N.eqb (N.land (bb_get p K) (bb_get p K')) 0 = true)
    by (intros K K' Hne; rewrite (Hd K K' Hne); reflexivity).
  repeat match goal with
         | |- context [N.eqb (N.land (?f p) (?g p)) 0] =>
           let k1 := match f with
                     | white_pawns => constr:((Pawn, White)) | white_king => constr:((King, White))
                     | white_queens => constr:((Queen, White)) | white_rooks => constr:((Rook, White))
                     | white_knights => constr:((Knight, White)) | white_bishops => constr:((Bishop, White))
                     | black_pawns => constr:((Pawn, Black)) | black_king => constr:((King, Black))
                     | black_queens => constr:((Queen, Black)) | black_rooks => constr:((Rook, Black))
                     | black_knights => constr:((Knight, Black)) | black_bishops => constr:((Bishop, Black))
                     end in
           let k2 := match g with
                     | white_pawns => constr:((Pawn, White)) | white_king => constr:((King, White))
                     | white_queens => constr:((Queen, White)) | white_rooks => constr:((Rook, White))
                     | white_knights => constr:((Knight, White)) | white_bishops => constr:((Bishop, White))
                     | black_pawns => constr:((Pawn, Black)) | black_king => constr:((King, Black))
                     | black_queens => constr:((Queen, Black)) | black_rooks => constr:((Rook, Black))
                     | black_knights => constr:((Knight, Black)) | black_bishops => constr:((Bishop, Black))
                     end in
           let E := fresh "E" in
           assert (E : N.eqb (N.land (f p) (g p)) 0 = true) by (apply (Hd' k1 k2); discriminate);
           rewrite E; clear E
         end.
  reflexivity.
Qed.

Lemma testbit_high x n : x < two64 -> 64 <= n -> N.testbit x n = false.
Proof.
  intros Hx Hn. destruct (N.eq_dec x 0) as [->|Hne]; [apply N.bits_0|].
  apply N.bits_above_log2.
  assert (N.log2 x < 64) by (apply N.log2_lt_pow2; [lia|exact Hx]). lia.
Qed.

Lemma lt64_of_bits x : (forall n, N.testbit x n = true -> n < 64) -> x < two64.
Proof.
  intros H. destruct (N.lt_ge_cases x two64) as [Hl|Hg]; [exact Hl|exfalso].
  assert (Hne : x <> 0) by (intros E; rewrite E in Hg; cbv in Hg; apply Hg; reflexivity).
  pose proof (H _ (N.bit_log2 x Hne)) as Hb.
  assert (64 <= N.log2 x) by (apply N.log2_le_pow2; [lia|exact Hg]). lia.
Qed.

(* for well-formed bitboards: bit n of board K is set iff get_piece at square n is K *)
Lemma wf_bit_iff p K n : pbb_wf p = true -> (n < 64)%nat ->
  N.testbit (bb_get p K) (N.of_nat n) = true <-> piece_opt (get_piece_kind p (sq_of_idx n)) = Some K.
Proof.
  intros W Hn. destruct (pbb_wf_spec p W) as (_ & Hd & Hw & Hb & _).
  rewrite (gpk_cascade p n Hw Hb Hn). split.
  - intros HK. rewrite (cascade_some _ K); [reflexivity| |exact HK].
    intros K' Hne. cbv beta.
    pose proof (Hd K' K Hne) as H0.
    assert (Hb0 : N.testbit (N.land (bb_get p K') (bb_get p K)) (N.of_nat n) = false)
      by (rewrite H0; apply N.bits_0).
    rewrite N.land_spec, HK, andb_true_r in Hb0. exact Hb0.
  - intros H. apply cascade_inv in H. exact H.
Qed.

Lemma wf_none_iff p n : pbb_wf p = true -> (n < 64)%nat ->
  (forall K, N.testbit (bb_get p K) (N.of_nat n) = false) -> get_piece_kind p (sq_of_idx n) = PNone.
Proof.
  intros W Hn H. destruct (pbb_wf_spec p W) as (_ & Hd & Hw & Hb & _).
  rewrite (gpk_cascade p n Hw Hb Hn). apply cascade_none. exact H.
Qed.

Lemma pbb_eq p1 p2 : pbb_wf p1 = true -> pbb_wf p2 = true ->
  (forall n, (n < 64)%nat -> piece_opt (get_piece_kind p1 (sq_of_idx n)) = piece_opt (get_piece_kind p2 (sq_of_idx n))) ->
  p1 = p2.
Proof.
  intros W1 W2 H.
  assert (HK : forall K, bb_get p1 K = bb_get p2 K).
  { intros K. apply N.bits_inj. intros n.
    destruct (pbb_wf_spec p1 W1) as (Hl1 & _). destruct (pbb_wf_spec p2 W2) as (Hl2 & _).
    destruct (N.lt_ge_cases n 64) as [Hn|Hn].
    - rewrite <- (N2Nat.id n). assert (Hn' : (N.to_nat n < 64)%nat) by lia.
      pose proof (wf_bit_iff p1 K _ W1 Hn') as I1. pose proof (wf_bit_iff p2 K _ W2 Hn') as I2.
      rewrite (H _ Hn') in I1.
      destruct (N.testbit (bb_get p1 K) _) eqn:E1, (N.testbit (bb_get p2 K) _) eqn:E2; try reflexivity.
      + symmetry. apply I2, I1. reflexivity.
      + apply I1, I2. reflexivity.
    - rewrite (testbit_high _ n (Hl1 K) Hn), (testbit_high _ n (Hl2 K) Hn). reflexivity. }
  destruct (pbb_wf_spec p1 W1) as (_ & _ & Hw1 & Hb1 & Ha1).
  destruct (pbb_wf_spec p2 W2) as (_ & _ & Hw2 & Hb2 & Ha2).
  pose proof (HK (Pawn, White)) as L1. pose proof (HK (King, White)) as L2.
  pose proof (HK (Queen, White)) as L3. pose proof (HK (Rook, White)) as L4.
  pose proof (HK (Knight, White)) as L5. pose proof (HK (Bishop, White)) as L6.
  pose proof (HK (Pawn, Black)) as L7. pose proof (HK (King, Black)) as L8.
  pose proof (HK (Queen, Black)) as L9. pose proof (HK (Rook, Black)) as L10.
  pose proof (HK (Knight, Black)) as L11. pose proof (HK (Bishop, Black)) as L12.
  clear HK H W1 W2.
  destruct p1 as [a1 a2 a3 a4 a5 a6 a7 a8 a9 a10 a11 a12 a13 a14 a15], p2 as [c1 c2 c3 c4 c5 c6 c7 c8 c9 c10 c11 c12 c13 c14 c15].
  unfold white_union, black_union in *.
  cbn [bb_get white_pawns white_king white_queens white_rooks white_knights white_bishops
       black_pawns black_king black_queens black_rooks black_knights black_bishops
       white_pieces black_pieces all_pieces] in *.
  subst. reflexivity.
Qed.

Lemma map_eq_pointwise {A B} (f g : A -> B) l : map f l = map g l -> forall x, In x l -> f x = g x.
Proof.
  induction l as [|a t IH]; intros H x Hx; [destruct Hx|].
  cbn [map] in H. inversion H. destruct Hx as [<-|Hx]; [assumption|apply IH; assumption].
Qed.

Theorem same_abs_same_core : forall b1 b2,
  pbb_wf (bbs b1) = true -> pbb_wf (bbs b2) = true -> abs b1 = abs b2 -> core b1 = core b2.
Proof.
  intros b1 b2 W1 W2 H.
  pose proof (f_equal cells H) as Hc. pose proof (f_equal side H) as Ht.
  pose proof (f_equal rights H) as Hr. pose proof (f_equal ep H) as He.
  pose proof (f_equal halfmove H) as Hh. pose proof (f_equal Rules.fullmove H) as Hf.
  unfold abs in Hc, Ht, Hr, He, Hh, Hf.
  cbn [cells side rights ep halfmove Rules.fullmove] in Hc, Ht, Hr, He, Hh, Hf.
  unfold halfmove_clock in Hh. unfold core. rewrite Ht, Hr, He, Hh, Hf.
  rewrite (pbb_eq (bbs b1) (bbs b2) W1 W2); [reflexivity|].
  intros n Hn. apply (map_eq_pointwise _ _ _ Hc n). apply in_seq. lia.
Qed.
