(* MateValueProofs.v — what the exact negamax value of the look-ahead game (spec/Game.v) says about
   short mates, and, through C11 (SearchProofs.search_exact: with the cache neutralised the search
   announces a move attaining the exact value Vroot), the three clauses of C12 with the cache off:
   a mate in one is played, a forced mate in two is kept, an avoidable mate in one is not allowed.

   Values: a node mated at ply k is worth MIN + k = -32768 + k; every value at ply k lies in
   [MIN + k, MAX - k]; a non-mated, non-drawn node at ply k is worth more than MIN + k + 1
   (stalemate 0, quiescence > -32000, otherwise the negation of a child value <= MAX - (k+1)). *)
From Coq Require Import NArith ZArith List Lia Bool.
Import ListNotations.
From RCE Require Import model.Search spec.Game proofs.SearchProofs proofs.SearchMateProofs.
Open Scope Z_scope.

(* ------------------------------------------------------------------ *)
(* the notions of the statements (props/C12off.v, props/C12offchess.v)  *)
(* ------------------------------------------------------------------ *)
Section Defs2.
  Variables pos mv : Type.
  Variable moves : pos -> list mv.
  Variable legal : pos -> mv -> bool.
  Variable make : pos -> mv -> pos.
  Variable in_check : pos -> bool.
  Variable halfmove : pos -> N.
  Variable repeated : pos -> bool.

  Local Notation has_legal := (SearchMateProofs.has_legal pos mv moves legal).
  Local Notation mated := (SearchMateProofs.mated pos mv moves legal in_check).
  Local Notation mates := (SearchMateProofs.mates pos mv moves legal make in_check).

  Definition lmove (p : pos) (m : mv) : Prop := In m (moves p) /\ legal p m = true.
  (* positions at most n plies below p *)
  Inductive within : nat -> pos -> pos -> Prop :=
  | W0 : forall n p, within n p p
  | WS : forall n p m q, lmove p m -> within n (make p m) q -> within (S n) p q.
  Definition fresh (root : pos) : Prop :=
    forall q, within 3 root q -> (halfmove q < 100)%N /\ repeated q = false.

  (* after m the opponent is mated at once, or has moves and each of them runs into a mate in one *)
  Definition keeps_mate2 (p : pos) (m : mv) : Prop :=
    lmove p m /\ (mated (make p m)
                  \/ (has_legal (make p m)
                      /\ forall r, lmove (make p m) r -> exists m2, mates (make (make p m) r) m2)).
  Definition allows_mate1 (p : pos) (m : mv) : Prop := lmove p m /\ exists r, mates (make p m) r.

  (* a boolean test for `fresh` (so that it can be established by computation) *)
  Fixpoint freshb (n : nat) (p : pos) : bool :=
    N.ltb (halfmove p) 100 && negb (repeated p)
    && match n with
       | O => true
       | S k => forallb (fun m => freshb k (make p m)) (filter (legal p) (moves p))
       end.

  Lemma freshb_within : forall n p, freshb n p = true ->
    forall q, within n p q -> (halfmove q < 100)%N /\ repeated q = false.
  Proof.
    induction n as [|k IH]; intros p Hb q Hw; cbn [freshb] in Hb;
      apply andb_true_iff in Hb; destruct Hb as [Hb Hrec];
      apply andb_true_iff in Hb; destruct Hb as [Hh Hr];
      apply N.ltb_lt in Hh; apply negb_true_iff in Hr.
    - inversion Hw; subst. split; assumption.
    - inversion Hw as [|n' p' m q' [Hm Hl] Hw']; subst; [split; assumption|].
      apply (IH (make p m)); [|exact Hw'].
      rewrite forallb_forall in Hrec. apply Hrec. apply filter_In. split; assumption.
  Qed.

  Lemma freshb_sound root : freshb 3 root = true -> fresh root.
  Proof. intros Hb q Hq. exact (freshb_within 3%nat root Hb q Hq). Qed.
End Defs2.

(* ------------------------------------------------------------------ *)
(* maxl                                                                 *)
(* ------------------------------------------------------------------ *)
Lemma maxl_in_le l : forall d x, In x l -> x <= maxl l d.
Proof.
  induction l as [|y l IH]; intros d x Hx; [contradiction|].
  rewrite maxl_cons. destruct Hx as [->|Hx].
  - pose proof (maxl_ge l (Z.max d x)). lia.
  - apply IH, Hx.
Qed.

Lemma maxl_attained l : forall d, maxl l d = d \/ In (maxl l d) l.
Proof.
  induction l as [|y l IH]; intros d; [left; reflexivity|].
  rewrite maxl_cons. destruct (IH (Z.max d y)) as [E|E].
  - rewrite E. destruct (Z.max_spec d y) as [[_ ->]|[_ ->]]; [right; left; reflexivity|left; reflexivity].
  - right. right. exact E.
Qed.

Lemma maxl_bounds l lo hi : forall d, lo <= d <= hi -> (forall x, In x l -> lo <= x <= hi) ->
  lo <= maxl l d <= hi.
Proof.
  induction l as [|y l IH]; intros d Hd Hl; [exact Hd|].
  rewrite maxl_cons. apply IH.
  - pose proof (Hl y (or_introl eq_refl)). lia.
  - intros x Hx. apply Hl. right. exact Hx.
Qed.

(* the maximum of a non-empty list, in the head-default form used by V and Vroot *)
Lemma maxl_ne_spec x t : (forall y, In y (x :: t) -> y <= maxl t x) /\ In (maxl t x) (x :: t).
Proof.
  split.
  - intros y [<-|Hy]; [apply maxl_ge|apply maxl_in_le, Hy].
  - destruct (maxl_attained t x) as [E|E]; [left; symmetry; exact E|right; exact E].
Qed.

Section MateValue.
  Variables pos mv : Type.
  Variable moves : pos -> list mv.
  Variable legal : pos -> mv -> bool.
  Variable make : pos -> mv -> pos.
  Variable in_check : pos -> bool.
  Variable evalf : pos -> Z.
  Variable is_cap is_promo : mv -> bool.
  Variable cap_score : mv -> N.
  Variable mv_eqb : mv -> mv -> bool.
  Variable key : pos -> N.
  Variable halfmove : pos -> N.
  Variable repeated : pos -> bool.
  Variable default_mv : mv.
  Variable Inv : pos -> Prop.
  Hypothesis Inv_make : forall p m, Inv p -> In m (moves p) -> legal p m = true -> Inv (make p m).
  Hypothesis Inv_eval : forall p, Inv p -> -32000 < evalf p < 32000.

  Local Notation has_legal := (SearchMateProofs.has_legal pos mv moves legal).
  Local Notation mated := (SearchMateProofs.mated pos mv moves legal in_check).
  Local Notation mates := (SearchMateProofs.mates pos mv moves legal make in_check).
  Local Notation lmove := (lmove pos mv moves legal).
  Local Notation within := (within pos mv moves legal make).
  Local Notation fresh := (fresh pos mv moves legal make halfmove repeated).
  Local Notation keeps_mate2 := (keeps_mate2 pos mv moves legal make in_check).
  Local Notation allows_mate1 := (allows_mate1 pos mv moves legal make in_check).
  Local Notation nodraw q := (N.lt (halfmove q) 100%N /\ repeated q = false).
  Local Notation Vn := (V pos mv moves legal make in_check evalf is_cap halfmove repeated).
  Local Notation Vqn := (Vq pos mv moves legal make evalf is_cap).
  Local Notation Vr := (Vroot pos mv moves legal make in_check evalf is_cap halfmove repeated).
  Local Notation mval := (move_value pos mv moves legal make in_check evalf is_cap halfmove repeated).
  Local Notation srch := (search pos mv moves legal make in_check evalf is_cap is_promo cap_score mv_eqb key
                                 halfmove repeated default_mv no_limits (fun _ => 0%N) (fun _ => false) false).

  (* ---------------- ranges ---------------- *)

  Lemma Vq_tight : forall fuel p ply, Inv p -> -32000 < Vqn fuel p ply < 32000.
  Proof.
    induction fuel as [|f IH]; intros p ply HI; cbn [Vq]; [lia|].
    destruct (Nat.eqb ply PLY_MAX); [lia|].
    assert (G : -31999 <= maxl (map (fun m => - Vqn f (make p m) (S ply))
                                    (filter (legal p) (filter is_cap (moves p)))) (evalf p) <= 31999).
    { apply maxl_bounds.
      - pose proof (Inv_eval p HI). lia.
      - intros x Hx. apply in_map_iff in Hx. destruct Hx as [m [<- Hm]].
        apply filter_In in Hm. destruct Hm as [Hm Hl]. apply filter_In in Hm. destruct Hm as [Hm _].
        specialize (IH (make p m) (S ply) (Inv_make p m HI Hm Hl)). lia. }
    lia.
  Qed.

  (* a value at ply k lies between "mated here" and "mating with the next move" *)
  Lemma V_bound : forall fuel d p ply, Inv p -> (ply <= 255)%nat ->
    -32768 + Z.of_nat ply <= Vn fuel d p ply <= 32767 - Z.of_nat ply.
  Proof.
    induction fuel as [|f IH]; intros d p ply HI Hp; cbn [V]; [lia|].
    unfold PLY_MAX. destruct (Nat.eqb ply 255) eqn:E; [lia|].
    apply Nat.eqb_neq in E.
    destruct (N.leb 100 (halfmove p)); [lia|].
    destruct (repeated p); [lia|].
    destruct (if in_check p then S d else d) as [|dm1].
    - pose proof (Vq_tight f p ply HI). lia.
    - assert (Hall : forall x, In x (map (fun m => - Vn f dm1 (make p m) (S ply)) (filter (legal p) (moves p)))
                               -> -32768 + Z.of_nat ply <= x <= 32767 - Z.of_nat ply).
      { intros x Hx. apply in_map_iff in Hx. destruct Hx as [m [<- Hm]].
        apply filter_In in Hm. destruct Hm as [Hm Hl].
        specialize (IH dm1 (make p m) (S ply) (Inv_make p m HI Hm Hl) ltac:(lia)). lia. }
      destruct (map _ _) as [|x t].
      + unfold SCORE_MIN. destruct (in_check p); lia.
      + apply maxl_bounds.
        * apply Hall. left. reflexivity.
        * intros y Hy. apply Hall. right. exact Hy.
  Qed.

  (* ---------------- one node of the game ---------------- *)

  Lemma V_node f d p ply : (ply < 255)%nat -> nodraw p ->
    Vn (S f) d p ply =
    match (if in_check p then S d else d) with
    | O => Vqn f p ply
    | S dm1 =>
      match map (fun m => - Vn f dm1 (make p m) (S ply)) (filter (legal p) (moves p)) with
      | [] => if in_check p then -32768 + Z.of_nat ply else 0
      | x :: t => maxl t x
      end
    end.
  Proof.
    intros Hp [Hh Hr]. cbn [V]. unfold PLY_MAX, SCORE_MIN.
    replace (Nat.eqb ply 255) with false by (symmetry; apply Nat.eqb_neq; lia).
    replace (N.leb 100 (halfmove p)) with false by (symmetry; apply N.leb_gt; exact Hh).
    rewrite Hr. reflexivity.
  Qed.

  (* a node that is searched full width: no legal move (mate / stalemate score), or the value
     is the greatest negated child value and is attained by a legal move *)
  Lemma V_expand f d dm1 p ply : (ply < 255)%nat -> nodraw p ->
    (if in_check p then S d else d) = S dm1 ->
    (~ has_legal p /\ Vn (S f) d p ply = (if in_check p then -32768 + Z.of_nat ply else 0))
    \/ (has_legal p
        /\ (forall m, lmove p m -> - Vn f dm1 (make p m) (S ply) <= Vn (S f) d p ply)
        /\ exists m, lmove p m /\ Vn (S f) d p ply = - Vn f dm1 (make p m) (S ply)).
  Proof.
    intros Hp Hnd He. rewrite (V_node f d p ply Hp Hnd), He.
    destruct (filter (legal p) (moves p)) as [|m0 l] eqn:EF.
    - left. split; [|reflexivity].
      intros [m [Hm Hl]].
      assert (X : In m (filter (legal p) (moves p))) by (apply filter_In; split; assumption).
      rewrite EF in X. contradiction.
    - right. cbn [map].
      set (g := fun m => - Vn f dm1 (make p m) (S ply)).
      destruct (maxl_ne_spec (g m0) (map g l)) as [Hle Hin].
      assert (Hlm : forall m, lmove p m <-> In m (m0 :: l)).
      { intros m. rewrite <- EF. unfold MateValueProofs.lmove. rewrite filter_In.
        split; intros [A B]; split; assumption. }
      split; [|split].
      + exists m0. apply Hlm. left. reflexivity.
      + intros m Hm. apply (Hle (g m)). change (g m0 :: map g l) with (map g (m0 :: l)).
        apply in_map. apply Hlm. exact Hm.
      + change (g m0 :: map g l) with (map g (m0 :: l)) in Hin.
        apply in_map_iff in Hin. destruct Hin as [m [Hgm Hm]].
        exists m. split; [apply Hlm; exact Hm|symmetry; exact Hgm].
  Qed.

  (* (b) the value MIN + ply means: mated here *)
  Lemma V_mated f d p ply : Inv p -> (ply < 255)%nat -> nodraw p ->
    (Vn (S f) d p ply = -32768 + Z.of_nat ply <-> mated p).
  Proof.
    intros HI Hp Hnd. unfold SearchMateProofs.mated.
    destruct (if in_check p then S d else d) as [|dm1] eqn:He.
    - assert (Hc : in_check p = false) by (destruct (in_check p); [discriminate He|reflexivity]).
      rewrite (V_node f d p ply Hp Hnd), He, Hc.
      pose proof (Vq_tight f p ply HI) as Hq. split; [lia|intros [X _]; discriminate X].
    - destruct (V_expand f d dm1 p ply Hp Hnd He) as [[Hn Hv]|[Hh [_ [m [[Hm Hl] Hv]]]]].
      + rewrite Hv. destruct (in_check p).
        * split; [intros _; split; [reflexivity|exact Hn]|reflexivity].
        * split; [lia|intros [X _]; discriminate X].
      + pose proof (V_bound f dm1 (make p m) (S ply) (Inv_make p m HI Hm Hl) ltac:(lia)) as Hb.
        split; [lia|intros [_ X]; contradiction].
  Qed.

  (* the value MAX - ply means: there is a mating move *)
  Lemma V_wins1 f d p ply : Inv p -> (S ply < 255)%nat -> (1 <= d)%nat ->
    (forall q, within 1%nat p q -> nodraw q) ->
    (Vn (S (S f)) d p ply >= 32767 - Z.of_nat ply <-> exists r, mates p r).
  Proof.
    intros HI Hp Hd Hw.
    assert (Hnd : nodraw p) by (apply Hw; constructor).
    assert (Hch : forall m, lmove p m -> nodraw (make p m)).
    { intros m Hm. apply Hw. apply (WS _ _ _ _ _ 0%nat p m _ Hm). constructor. }
    destruct (if in_check p then S d else d) as [|dm1] eqn:He; [destruct (in_check p); [discriminate He|lia]|].
    destruct (V_expand (S f) d dm1 p ply ltac:(lia) Hnd He) as [[Hn Hv]|[Hh [Hle [m [Hm Hv]]]]].
    - rewrite Hv. split.
      + destruct (in_check p); lia.
      + intros [r [Hr1 [Hr2 _]]]. exfalso. apply Hn. exists r. split; assumption.
    - split.
      + intros Hge. exists m. destruct Hm as [Hm1 Hm2].
        pose proof (V_bound (S f) dm1 (make p m) (S ply) (Inv_make p m HI Hm1 Hm2) ltac:(lia)) as Hb.
        split; [exact Hm1|split; [exact Hm2|]].
        apply (V_mated f dm1 (make p m) (S ply) (Inv_make p m HI Hm1 Hm2) ltac:(lia)
                       (Hch m (conj Hm1 Hm2))). lia.
      + intros [r [Hr1 [Hr2 Hmt]]].
        apply (V_mated f dm1 (make p r) (S ply) (Inv_make p r HI Hr1 Hr2) ltac:(lia)
                       (Hch r (conj Hr1 Hr2))) in Hmt.
        pose proof (Hle r (conj Hr1 Hr2)). lia.
  Qed.

  (* a value <= MIN + ply + 2 means: mated here, or every move runs into a mate in one *)
  Lemma V_loses2 f d p ply : Inv p -> (S (S ply) < 255)%nat -> (2 <= d)%nat ->
    (forall q, within 2%nat p q -> nodraw q) ->
    (Vn (S (S (S f))) d p ply <= -32768 + Z.of_nat ply + 2
     <-> mated p \/ (has_legal p /\ forall r, lmove p r -> exists m2, mates (make p r) m2)).
  Proof.
    intros HI Hp Hd Hw.
    assert (Hnd : nodraw p) by (apply Hw; constructor).
    assert (Hch : forall r, lmove p r -> forall q, within 1%nat (make p r) q -> nodraw q).
    { intros r Hr q Hq. apply Hw. exact (WS _ _ _ _ _ 1%nat p r q Hr Hq). }
    destruct (if in_check p then S d else d) as [|dm1] eqn:He; [destruct (in_check p); [discriminate He|lia]|].
    assert (Hdm : (1 <= dm1)%nat) by (destruct (in_check p); lia).
    assert (Hone : forall r, lmove p r ->
              (- Vn (S (S f)) dm1 (make p r) (S ply) <= -32768 + Z.of_nat ply + 2
               <-> exists m2, mates (make p r) m2)).
    { intros r [Hr1 Hr2].
      rewrite <- (V_wins1 f dm1 (make p r) (S ply) (Inv_make p r HI Hr1 Hr2) ltac:(lia) Hdm
                          (Hch r (conj Hr1 Hr2))).
      lia. }
    destruct (V_expand (S (S f)) d dm1 p ply ltac:(lia) Hnd He) as [[Hn Hv]|[Hh [Hle [m [Hm Hv]]]]].
    - rewrite Hv. unfold SearchMateProofs.mated. destruct (in_check p).
      + split; [intros _; left; split; [reflexivity|exact Hn]|lia].
      + split; [lia|]. intros [[X _]|[X _]]; [discriminate X|contradiction].
    - split.
      + intros Hv2. right. split; [exact Hh|].
        intros r Hr. apply (Hone r Hr). pose proof (Hle r Hr). lia.
      + intros [[_ X]|[_ Hall]]; [contradiction|].
        rewrite Hv. apply (Hone m Hm). apply Hall. exact Hm.
  Qed.

  (* ---------------- (c) the value of a root move ---------------- *)

  Lemma FUEL_eq : FUEL = S (S (S 297)).
  Proof. reflexivity. Qed.

  Lemma mval_mates D root m : Inv root -> lmove root m -> nodraw (make root m) ->
    (mval D root m = 32767 <-> mates root m).
  Proof.
    intros HI [Hm Hl] Hnd. unfold move_value. rewrite FUEL_eq.
    pose proof (V_mated (S (S 297)) (pred D) (make root m) 1%nat (Inv_make root m HI Hm Hl) ltac:(lia) Hnd) as E.
    unfold SearchMateProofs.mates. split.
    - intros H. split; [exact Hm|split; [exact Hl|]]. apply E. cbn [Z.of_nat Pos.of_succ_nat]. lia.
    - intros [_ [_ H]]. apply E in H. cbn [Z.of_nat Pos.of_succ_nat] in H. lia.
  Qed.

  Lemma mval_allows D root m : Inv root -> (2 <= D)%nat -> lmove root m ->
    (forall q, within 1%nat (make root m) q -> nodraw q) ->
    (mval D root m <= -32766 <-> allows_mate1 root m).
  Proof.
    intros HI HD [Hm Hl] Hw. unfold move_value, MateValueProofs.allows_mate1. rewrite FUEL_eq.
    pose proof (V_wins1 (S 297) (pred D) (make root m) 1%nat (Inv_make root m HI Hm Hl) ltac:(lia) ltac:(lia) Hw) as E.
    cbn [Z.of_nat Pos.of_succ_nat] in E. split.
    - intros H. split; [split; assumption|]. apply E. lia.
    - intros [_ H]. apply E in H. lia.
  Qed.

  Lemma mval_keeps D root m : Inv root -> (3 <= D)%nat -> lmove root m ->
    (forall q, within 2%nat (make root m) q -> nodraw q) ->
    (mval D root m >= 32765 <-> keeps_mate2 root m).
  Proof.
    intros HI HD [Hm Hl] Hw. unfold move_value, MateValueProofs.keeps_mate2. rewrite FUEL_eq.
    pose proof (V_loses2 297 (pred D) (make root m) 1%nat (Inv_make root m HI Hm Hl) ltac:(lia) ltac:(lia) Hw) as E.
    cbn [Z.of_nat Pos.of_succ_nat] in E. split.
    - intros H. split; [split; assumption|]. apply E. lia.
    - intros [_ H]. apply E in H. lia.
  Qed.

  (* fresh: no draw anywhere within n <= 2 plies of a child of the root *)
  Lemma within_mono : forall n p q, within n p q -> within (S n) p q.
  Proof.
    induction 1 as [n p|n p m q Hm _ IH]; [constructor|].
    exact (WS _ _ _ _ _ (S n) p m q Hm IH).
  Qed.

  Lemma fresh_child2 root m : fresh root -> lmove root m -> forall q, within 2%nat (make root m) q -> nodraw q.
  Proof. intros Hf Hm q Hq. apply Hf. exact (WS _ _ _ _ _ 2%nat root m q Hm Hq). Qed.

  Lemma fresh_child1 root m : fresh root -> lmove root m -> forall q, within 1%nat (make root m) q -> nodraw q.
  Proof. intros Hf Hm q Hq. apply (fresh_child2 root m Hf Hm). apply within_mono, Hq. Qed.

  Lemma fresh_child0 root m : fresh root -> lmove root m -> nodraw (make root m).
  Proof. intros Hf Hm. apply (fresh_child1 root m Hf Hm). constructor. Qed.

  Theorem off_value_characterisation : forall root D m,
    Inv root -> (3 <= D <= 255)%nat -> fresh root -> lmove root m ->
    (mval D root m = 32767 <-> mates root m)
    /\ (mval D root m >= 32765 <-> keeps_mate2 root m)
    /\ (mval D root m <= -32766 <-> allows_mate1 root m).
  Proof.
    intros root D m HI HD Hf Hm. split; [|split].
    - apply mval_mates; [exact HI|exact Hm|apply fresh_child0; assumption].
    - apply mval_keeps; [exact HI|lia|exact Hm|apply fresh_child2; assumption].
    - apply mval_allows; [exact HI|lia|exact Hm|apply fresh_child1; assumption].
  Qed.

  (* ---------------- (d) the announced move has the greatest value ---------------- *)

  Lemma mval_le_max D root m : Inv root -> lmove root m -> mval D root m <= 32767.
  Proof.
    intros HI [Hm Hl]. unfold move_value.
    pose proof (V_bound FUEL (pred D) (make root m) 1%nat (Inv_make root m HI Hm Hl) ltac:(lia)) as Hb.
    cbn [Z.of_nat Pos.of_succ_nat] in Hb. lia.
  Qed.

  Lemma announced_best : forall (s0 : St mv) root D m,
    running mv s0 = true -> Inv root -> (1 <= D <= 255)%nat -> has_legal root ->
    last (snd (srch s0 root (Some D))) (Bestmove mv default_mv) = Bestmove mv m ->
    lmove root m /\ forall m1, lmove root m1 -> mval D root m1 <= mval D root m.
  Proof.
    intros s0 root D m Hs HI HD Hex Ha.
    destruct (search_exact pos mv moves legal make in_check evalf is_cap is_promo cap_score mv_eqb key
                halfmove repeated default_mv Inv Inv_make Inv_eval s0 root D Hs HI HD Hex)
      as [m' [H1 [H2 [H3 [_ H5]]]]].
    rewrite Ha in H1. injection H1 as ->.
    split; [split; assumption|].
    intros m1 [Hm1 Hl1].
    rewrite (Vr_eq pos mv moves legal make in_check evalf is_cap halfmove repeated Inv Inv_make Inv_eval
                   D root HI Hex) in H5.
    injection H5 as H5. rewrite H5.
    apply maxl_in_le. apply in_map. apply filter_In. split; assumption.
  Qed.

  (* ---------------- the three clauses ---------------- *)

  Theorem off_mate_in_one : forall s0 root D m,
    running mv s0 = true -> Inv root -> (1 <= D <= 255)%nat -> fresh root ->
    (exists m1, mates root m1) ->
    last (snd (srch s0 root (Some D))) (Bestmove mv default_mv) = Bestmove mv m ->
    mates root m.
  Proof.
    intros s0 root D m Hs HI HD Hf [m1 Hm1] Ha.
    assert (Hl1 : lmove root m1) by (destruct Hm1 as [A [B _]]; split; assumption).
    destruct (announced_best s0 root D m Hs HI HD (ex_intro _ m1 Hl1) Ha) as [Hm Hmax].
    apply (mval_mates D root m HI Hm (fresh_child0 root m Hf Hm)).
    apply (mval_mates D root m1 HI Hl1 (fresh_child0 root m1 Hf Hl1)) in Hm1.
    pose proof (Hmax m1 Hl1). pose proof (mval_le_max D root m HI Hm). lia.
  Qed.

  Theorem off_keeps_mate_in_two : forall s0 root D m,
    running mv s0 = true -> Inv root -> (3 <= D <= 255)%nat -> fresh root ->
    (exists m1, keeps_mate2 root m1) ->
    last (snd (srch s0 root (Some D))) (Bestmove mv default_mv) = Bestmove mv m ->
    keeps_mate2 root m.
  Proof.
    intros s0 root D m Hs HI HD Hf [m1 Hm1] Ha.
    assert (Hl1 : lmove root m1) by (destruct Hm1 as [A _]; exact A).
    destruct (announced_best s0 root D m Hs HI ltac:(lia) (ex_intro _ m1 Hl1) Ha) as [Hm Hmax].
    apply (mval_keeps D root m HI ltac:(lia) Hm (fresh_child2 root m Hf Hm)).
    apply (mval_keeps D root m1 HI ltac:(lia) Hl1 (fresh_child2 root m1 Hf Hl1)) in Hm1.
    pose proof (Hmax m1 Hl1). lia.
  Qed.

  Theorem off_avoids_mate_in_one : forall s0 root D m,
    running mv s0 = true -> Inv root -> (2 <= D <= 255)%nat -> fresh root ->
    (exists m1, lmove root m1 /\ ~ allows_mate1 root m1) ->
    last (snd (srch s0 root (Some D))) (Bestmove mv default_mv) = Bestmove mv m ->
    ~ allows_mate1 root m.
  Proof.
    intros s0 root D m Hs HI HD Hf [m1 [Hl1 Hm1]] Ha.
    destruct (announced_best s0 root D m Hs HI ltac:(lia) (ex_intro _ m1 Hl1) Ha) as [Hm Hmax].
    intros Hal.
    apply (mval_allows D root m HI ltac:(lia) Hm (fresh_child1 root m Hf Hm)) in Hal.
    apply Hm1. apply (mval_allows D root m1 HI ltac:(lia) Hl1 (fresh_child1 root m1 Hf Hl1)).
    pose proof (Hmax m1 Hl1). lia.
  Qed.
End MateValue.
