(* PawnProofs.v — pseudo-legal pawn move generation (pushes, double pushes, captures, en passant,
   the four promotions) of the engine model is exactly [pawn_moves] of spec/Rules.v, and every
   generated pawn ply satisfies [move_okb] and [flags_ok]  (part of C01). *)
From Coq Require Import NArith ZArith List Lia Bool.
Import ListNotations.
From RCE Require Import lib.Bits lib.Geometry generated.Consts model.Tables model.Board model.Movegen
  model.Wf model.WfFull spec.Rules model.Abs proofs.BoardProofsPBB.

Close Scope N_scope.
Open Scope nat_scope.

Local Opaque pawn_attacks.

(* ------------------------------------------------------------------ *)
(* small boolean helpers *)
Lemma okind_eqb_refl a : okind_eqb a a = true.
Proof. destruct a as [k|]; [apply kind_eqb_refl|reflexivity]. Qed.

Lemma color_eqb_refl a : color_eqb a a = true.
Proof. destruct a; reflexivity. Qed.

Lemma color_eqb_opp a : color_eqb (opposite a) a = false.
Proof. destruct a; reflexivity. Qed.

Lemma Zeqb_of_nat a b : (Z.of_nat a =? Z.of_nat b)%Z = Nat.eqb a b.
Proof. destruct (Z.eqb_spec (Z.of_nat a) (Z.of_nat b)), (Nat.eqb_spec a b); try reflexivity; lia. Qed.

(* ------------------------------------------------------------------ *)
(* squares <-> coordinates *)
Definition sqz (r f : Z) : Square := mkSq (Z.to_nat r) (Z.to_nat f).

Lemma geo_rank_idx s : sq_valid s = true -> Geometry.rank (idx s) = Z.of_nat (Board.rank s).
Proof.
  intros V. apply sq_valid_lt in V. destruct V as [Hr Hf]. unfold Geometry.rank, idx. f_equal.
  symmetry. apply (Nat.div_unique _ 8 _ (Board.file s)); lia.
Qed.

Lemma geo_file_idx s : sq_valid s = true -> Geometry.file (idx s) = Z.of_nat (Board.file s).
Proof.
  intros V. apply sq_valid_lt in V. destruct V as [Hr Hf]. unfold Geometry.file, idx. f_equal.
  symmetry. apply (Nat.mod_unique _ 8 (Board.rank s)); lia.
Qed.

Lemma inb_range r f : inb r f = true <-> (0 <= r < 8 /\ 0 <= f < 8)%Z.
Proof. unfold inb. lia. Qed.

Lemma idx_sqz r f : (0 <= r)%Z -> (0 <= f)%Z -> idx (sqz r f) = mk r f.
Proof. intros. unfold idx, sqz, mk; cbn [Board.rank Board.file]. lia. Qed.

Lemma sqz_valid r f : inb r f = true -> sq_valid (sqz r f) = true.
Proof.
  intros H. apply inb_range in H. unfold sq_valid, sqz; cbn [Board.rank Board.file].
  apply andb_true_iff; split; apply Nat.ltb_lt; lia.
Qed.

Lemma sqz_of_square s : sqz (Z.of_nat (Board.rank s)) (Z.of_nat (Board.file s)) = s.
Proof. destruct s as [r f]. unfold sqz; cbn [Board.rank Board.file]. rewrite !Nat2Z.id. reflexivity. Qed.

Lemma mk_lt64 r f : inb r f = true -> mk r f < 64.
Proof. intros H. apply inb_range in H. unfold mk. lia. Qed.

Lemma sq_of_idx_mk r f : inb r f = true -> sq_of_idx (mk r f) = sqz r f.
Proof.
  intros H. pose proof (sqz_valid r f H) as V. apply inb_range in H.
  rewrite <- (idx_sqz r f) by lia. apply sq_of_idx_idx. exact V.
Qed.

Lemma geo_rank_mk r f : inb r f = true -> Geometry.rank (mk r f) = r.
Proof.
  intros H. pose proof (sqz_valid r f H) as V. apply inb_range in H.
  rewrite <- (idx_sqz r f) by lia. rewrite (geo_rank_idx _ V). unfold sqz; cbn [Board.rank]. lia.
Qed.

Lemma geo_file_mk r f : inb r f = true -> Geometry.file (mk r f) = f.
Proof.
  intros H. pose proof (sqz_valid r f H) as V. apply inb_range in H.
  rewrite <- (idx_sqz r f) by lia. rewrite (geo_file_idx _ V). unfold sqz; cbn [Board.file]. lia.
Qed.

(* u8 arithmetic of Square + Delta *)
Lemma u8_add_small x d : (0 <= Z.of_nat x + d < 256)%Z -> u8_add x d = Z.to_nat (Z.of_nat x + d).
Proof. intros H. unfold u8_add. rewrite Z.mod_small by exact H. reflexivity. Qed.

Lemma sq_add_small s dr df :
  (0 <= Z.of_nat (Board.rank s) + dr < 256)%Z -> (0 <= Z.of_nat (Board.file s) + df < 256)%Z ->
  sq_add s (dr, df) = sqz (Z.of_nat (Board.rank s) + dr) (Z.of_nat (Board.file s) + df).
Proof.
  intros Hr Hf. unfold sq_add, sqz; cbn [fst snd]. rewrite (u8_add_small _ _ Hr), (u8_add_small _ _ Hf).
  reflexivity.
Qed.

Lemma u8_add_west f ef : f < 8 -> ef < 8 ->
  (Nat.eqb ef (u8_add f (-1)) = true <-> Z.of_nat ef = (Z.of_nat f - 1)%Z).
Proof.
  intros Hf He. destruct f as [|f'].
  - change (u8_add 0 (-1)) with 255. rewrite Nat.eqb_eq. lia.
  - rewrite u8_add_small by lia. rewrite Nat.eqb_eq. lia.
Qed.

(* ------------------------------------------------------------------ *)
(* the shifted origin masks *)
Lemma shl8_sweep :
  forallb (fun i => N.eqb (bb_shl (bb_shl 1 (N.of_nat i)) 8) (bit (i + 8))) (seq 0 56) = true.
Proof. vm_compute. reflexivity. Qed.
Lemma shl16_sweep :
  forallb (fun i => N.eqb (bb_shl (bb_shl 1 (N.of_nat i)) 16) (bit (i + 16))) (seq 0 48) = true.
Proof. vm_compute. reflexivity. Qed.
Lemma shr8_sweep :
  forallb (fun i => N.eqb (shr64 (bb_shl 1 (N.of_nat i)) 8) (bit (i - 8))) (seq 8 56) = true.
Proof. vm_compute. reflexivity. Qed.
Lemma shr16_sweep :
  forallb (fun i => N.eqb (shr64 (bb_shl 1 (N.of_nat i)) 16) (bit (i - 16))) (seq 16 48) = true.
Proof. vm_compute. reflexivity. Qed.

Lemma shl8_bit i : i < 56 -> bb_shl (bb_shl 1 (N.of_nat i)) 8 = bit (i + 8).
Proof.
  intros H. apply N.eqb_eq. apply (proj1 (forallb_forall _ _) shl8_sweep i). apply in_seq. lia.
Qed.
Lemma shl16_bit i : i < 48 -> bb_shl (bb_shl 1 (N.of_nat i)) 16 = bit (i + 16).
Proof.
  intros H. apply N.eqb_eq. apply (proj1 (forallb_forall _ _) shl16_sweep i). apply in_seq. lia.
Qed.
Lemma shr8_bit i : 8 <= i < 64 -> shr64 (bb_shl 1 (N.of_nat i)) 8 = bit (i - 8).
Proof.
  intros H. apply N.eqb_eq. apply (proj1 (forallb_forall _ _) shr8_sweep i). apply in_seq. lia.
Qed.
Lemma shr16_bit i : 16 <= i < 64 -> shr64 (bb_shl 1 (N.of_nat i)) 16 = bit (i - 16).
Proof.
  intros H. apply N.eqb_eq. apply (proj1 (forallb_forall _ _) shr16_sweep i). apply in_seq. lia.
Qed.

Lemma land_bit_eq0 j x : N.eqb (N.land (bit j) x) 0 = negb (tb x j).
Proof.
  pose proof (nonempty_land_bit j x) as H. unfold nonempty in H. unfold tb. rewrite <- H.
  rewrite negb_involutive. reflexivity.
Qed.

Lemma back_ranks_sweep :
  forallb (fun i => Bool.eqb (tb 0xff000000000000ff i) (Nat.ltb i 8 || Nat.leb 56 i)) (seq 0 64) = true.
Proof. vm_compute. reflexivity. Qed.

(* ------------------------------------------------------------------ *)
(* the mailbox of [abs b] and the bitboards *)
Lemma at_abs b n : n < 64 -> at_ (cells (abs b)) n = get_piece b (sq_of_idx n).
Proof.
  intros H. unfold at_, abs; cbn [cells].
  rewrite (nth_indep _ None (get_piece b (sq_of_idx 0))) by (rewrite map_length, seq_length; exact H).
  rewrite (map_nth (fun i => get_piece b (sq_of_idx i))). rewrite seq_nth by exact H. reflexivity.
Qed.

Lemma at_abs_sq b s : sq_valid s = true -> at_ (cells (abs b)) (idx s) = get_piece b s.
Proof. intros V. rewrite at_abs by (apply idx_lt; exact V). rewrite sq_of_idx_idx by exact V. reflexivity. Qed.

Lemma get_piece_occ b s k : PWf (bbs b) -> sq_valid s = true ->
  (get_piece b s = Some k <-> occ (bbs b) k (N.of_nat (idx s)) = true).
Proof.
  intros W V. unfold get_piece. rewrite <- (gpk_some_iff _ _ _ W V).
  destruct (get_piece_kind (bbs b) s) eqn:E; cbn [piece_opt]; split; intros H; congruence.
Qed.

Definition ptypes : list PType := [Pawn; Knight; Bishop; Rook; Queen; King].
Lemma ptypes_all t : In t ptypes.
Proof. destruct t; cbn; tauto. Qed.

Lemma color_bit p col n : PWf p ->
  N.testbit (match col with White => white_pieces p | Black => black_pieces p end) n
  = existsb (fun t => occ p (t, col) n) ptypes.
Proof.
  intros W. destruct col.
  - rewrite (pw_w p W). unfold white_union. rewrite !N.lor_spec. unfold ptypes, occ. cbn [existsb bb_get].
    rewrite orb_false_r, !orb_assoc. reflexivity.
  - rewrite (pw_b p W). unfold black_union. rewrite !N.lor_spec. unfold ptypes, occ. cbn [existsb bb_get].
    rewrite orb_false_r, !orb_assoc. reflexivity.
Qed.

Lemma has_color_abs b col n : PWf (bbs b) -> n < 64 ->
  has_color (cells (abs b)) col n = tb (same_pieces b col) n.
Proof.
  intros W Hn. unfold has_color. rewrite (at_abs b n Hn). unfold tb, same_pieces.
  replace (match col with White => white_pieces (bbs b) | Black => black_pieces (bbs b) end)
    with (match col with White => white_pieces (bbs b) | Black => black_pieces (bbs b) end) by reflexivity.
  rewrite (color_bit (bbs b) col _ W).
  pose proof (sq_of_idx_valid n Hn) as V.
  unfold get_piece.
  destruct (gpk_cases (bbs b) (sq_of_idx n) W V) as [[k [Hk E]]|[A E]]; rewrite E; cbn [piece_opt];
    rewrite idx_sq_of_idx in *.
  - destruct k as [t x]. cbn [snd]. destruct (color_eqb_spec x col) as [->|Hx].
    + symmetry. apply existsb_exists. exists t. split; [apply ptypes_all|exact Hk].
    + symmetry. destruct (existsb _ ptypes) eqn:Ex; [|reflexivity].
      apply existsb_exists in Ex. destruct Ex as [t' [_ Ht']].
      assert (Hne : (t, x) <> (t', col)) by congruence.
      rewrite (occ_disjoint _ _ _ _ W Hne Hk) in Ht'. discriminate.
  - symmetry. destruct (existsb _ ptypes) eqn:Ex; [|reflexivity].
    apply existsb_exists in Ex. destruct Ex as [t' [_ Ht']]. rewrite A in Ht'. discriminate.
Qed.

Lemma occupied_colors cs n : occupied cs n = has_color cs White n || has_color cs Black n.
Proof. unfold occupied, has_color. destruct (at_ cs n) as [[t []]|]; reflexivity. Qed.

Lemma occupied_abs b n : PWf (bbs b) -> n < 64 ->
  occupied (cells (abs b)) n = tb (all_pieces (bbs b)) n.
Proof.
  intros W Hn. rewrite occupied_colors, !has_color_abs by assumption.
  unfold same_pieces, tb. rewrite (pw_a _ W), N.lor_spec. reflexivity.
Qed.

Lemma occupied_get_piece b s : sq_valid s = true ->
  occupied (cells (abs b)) (idx s) = negb (is_none (get_piece b s)).
Proof. intros V. unfold occupied. rewrite (at_abs_sq b s V). destruct (get_piece b s); reflexivity. Qed.

(* ------------------------------------------------------------------ *)
(* what wf_full says about a pawn of the side to move *)
Lemma wf_full_PWf b : wf_full b = true -> PWf (bbs b).
Proof.
  unfold wf_full, wfb. intros H.
  do 8 (apply andb_true_iff in H; destruct H as [H _]).
  apply pbb_wf_iff. exact H.
Qed.

Lemma pawn_rank b s c : wf_full b = true -> sq_valid s = true -> get_piece b s = Some (Pawn, c) ->
  1 <= Board.rank s <= 6.
Proof.
  intros WF V HP. pose proof (wf_full_PWf b WF) as W.
  apply (get_piece_occ b s _ W V) in HP.
  unfold wf_full in WF.
  apply andb_true_iff in WF; destruct WF as [WF _].
  apply andb_true_iff in WF; destruct WF as [_ NB].
  unfold no_pawn_on_back_ranks in NB. apply N.eqb_eq in NB.
  assert (B : N.testbit (N.land (N.lor (white_pawns (bbs b)) (black_pawns (bbs b))) 0xff000000000000ff)
                        (N.of_nat (idx s)) = false) by (rewrite NB; apply N.bits_0).
  rewrite N.land_spec, N.lor_spec in B.
  assert (O : N.testbit (white_pawns (bbs b)) (N.of_nat (idx s)) || N.testbit (black_pawns (bbs b)) (N.of_nat (idx s)) = true).
  { unfold occ in HP. destruct c; cbn [bb_get] in HP; rewrite HP; [reflexivity|apply orb_true_r]. }
  rewrite O in B. cbn [andb] in B.
  pose proof (idx_lt s V) as Hi.
  pose proof (proj1 (forallb_forall _ _) back_ranks_sweep (idx s)) as S1. cbv beta in S1.
  assert (Ii : In (idx s) (seq 0 64)) by (apply in_seq; lia). specialize (S1 Ii).
  unfold tb in S1. rewrite B in S1. apply sq_valid_lt in V. unfold idx in *.
  destruct (Nat.ltb_spec (Board.rank s * 8 + Board.file s) 8), (Nat.leb_spec 56 (Board.rank s * 8 + Board.file s));
    cbn in S1; try discriminate. lia.
Qed.

Lemma ep_facts b ef : wf_full b = true -> ep_file b = Some ef ->
  ef < 8 /\
  get_piece b (sqz (ep_rank (current_turn b)) (Z.of_nat ef)) = Some (Pawn, opposite (current_turn b)) /\
  get_piece b (sqz (ep_rank (current_turn b) + forward (current_turn b)) (Z.of_nat ef)) = None.
Proof.
  intros WF E. unfold wf_full in WF.
  apply andb_true_iff in WF; destruct WF as [WF _].
  apply andb_true_iff in WF; destruct WF as [WF _].
  apply andb_true_iff in WF; destruct WF as [_ EP].
  unfold ep_target_ok in EP. rewrite E in EP.
  apply andb_true_iff in EP; destruct EP as [L EP]. apply Nat.ltb_lt in L. split; [exact L|].
  unfold sqz. rewrite Nat2Z.id.
  destruct (current_turn b); cbn [ep_rank forward opposite];
    apply andb_true_iff in EP; destruct EP as [EP _];
    apply andb_true_iff in EP; destruct EP as [H1 H2];
    unfold has in H1; apply okind_eqb_eq in H1; unfold empty_sq, is_none in H2.
  - change (Z.to_nat 4) with 4. change (Z.to_nat (4 + 1)) with 5. split; [exact H1|].
    destruct (get_piece b (mkSq 5 ef)); [discriminate|reflexivity].
  - change (Z.to_nat 3) with 3. change (Z.to_nat (3 + -1)) with 2. split; [exact H1|].
    destruct (get_piece b (mkSq 2 ef)); [discriminate|reflexivity].
Qed.

(* ------------------------------------------------------------------ *)
(* the context of this file: a pawn of the side to move on a fully well-formed board *)
Definition deltas (c : Color) : list (Z * Z) := match c with White => wpawn_deltas | Black => bpawn_deltas end.
Definition dirq (c : Color) : Z * Z := match c with White => NORTH | Black => SOUTH end.
Definition backn (c : Color) : nat := match c with White => 7 | Black => 0 end.

Record PCtx (b : Board) (s : Square) (c : Color) : Prop := mkPCtx {
  pc_pw : PWf (bbs b);
  pc_v : sq_valid s = true;
  pc_rk : 1 <= Board.rank s <= 6;
  pc_piece : get_piece b s = Some (Pawn, c);
  pc_turn : c = current_turn b;
  pc_ep : forall ef, ep_file b = Some ef ->
          ef < 8 /\ get_piece b (sqz (ep_rank c) (Z.of_nat ef)) = Some (Pawn, opposite c)
          /\ get_piece b (sqz (ep_rank c + forward c) (Z.of_nat ef)) = None }.

Lemma pctx_of_wf b s c : wf_full b = true -> sq_valid s = true -> get_piece b s = Some (Pawn, c) ->
  c = current_turn b -> PCtx b s c.
Proof.
  intros WF V HP HC. constructor; try assumption.
  - apply wf_full_PWf; exact WF.
  - eapply pawn_rank; eassumption.
  - intros ef E. subst c. apply ep_facts; assumption.
Qed.

Lemma forward_cases c : forward c = 1%Z \/ forward c = (-1)%Z.
Proof. destruct c; cbn; auto. Qed.

Lemma pc_fl b s c : PCtx b s c -> Board.file s < 8.
Proof. intros C. apply (sq_valid_lt s (pc_v _ _ _ C)). Qed.

Lemma inb_one b s c : PCtx b s c -> forall f, (0 <= f < 8)%Z ->
  inb (Z.of_nat (Board.rank s) + forward c) f = true.
Proof. intros C f Hf. pose proof (pc_rk _ _ _ C). apply inb_range. destruct (forward_cases c) as [->| ->]; lia. Qed.

Lemma inb_two b s c : PCtx b s c -> Z.of_nat (Board.rank s) = start_rank c -> forall f, (0 <= f < 8)%Z ->
  inb (Z.of_nat (Board.rank s) + 2 * forward c) f = true.
Proof. intros C R f Hf. apply inb_range. rewrite R. destruct c; cbn; lia. Qed.

Lemma empty_get b d : sq_valid d = true -> occupied (cells (abs b)) (idx d) = false -> get_piece b d = None.
Proof.
  intros V H. rewrite (occupied_get_piece b d V) in H. destruct (get_piece b d); [discriminate|reflexivity].
Qed.

Lemma has_color_get b col t : t < 64 -> has_color (cells (abs b)) col t = true ->
  exists tt, get_piece b (sq_of_idx t) = Some (tt, col).
Proof.
  intros Ht. unfold has_color. rewrite (at_abs b t Ht).
  destruct (get_piece b (sq_of_idx t)) as [[tt x]|]; [|discriminate].
  intros H. destruct (color_eqb_spec x col); [subst; eauto|discriminate].
Qed.

(* the attack squares of a pawn, in coordinates *)
Lemma leaper_pawn c i t :
  In t (leaper_targets (deltas c) i) <->
  exists df, (df = 1 \/ df = -1)%Z
             /\ inb (Geometry.rank i + forward c) (Geometry.file i + df) = true
             /\ t = mk (Geometry.rank i + forward c) (Geometry.file i + df).
Proof.
  unfold leaper_targets.
  destruct c; unfold deltas, wpawn_deltas, bpawn_deltas; cbn [flat_map walk fst snd forward app];
    rewrite in_app_iff, app_nil_r.
  - split.
    + intros [H|H].
      * exists 1%Z. destruct (inb (Geometry.rank i + 1) (Geometry.file i + 1)); [|destruct H].
        destruct H as [<-|[]]. auto.
      * exists (-1)%Z. destruct (inb (Geometry.rank i + 1) (Geometry.file i + -1)); [|destruct H].
        destruct H as [<-|[]]. auto.
    + intros [df [[->| ->] [I ->]]]; [left|right]; rewrite I; left; reflexivity.
  - split.
    + intros [H|H].
      * exists 1%Z. destruct (inb (Geometry.rank i + -1) (Geometry.file i + 1)); [|destruct H].
        destruct H as [<-|[]]. auto.
      * exists (-1)%Z. destruct (inb (Geometry.rank i + -1) (Geometry.file i + -1)); [|destruct H].
        destruct H as [<-|[]]. auto.
    + intros [df [[->| ->] [I ->]]]; [left|right]; rewrite I; left; reflexivity.
Qed.

(* ------------------------------------------------------------------ *)
(* the engine's list before promotion explosion, component by component *)
Definition caps_l (b : Board) (s : Square) (c : Color) : list Ply :=
  plies_to s (Pawn, c) (N.land (pawn_attacks (idx s) c) (same_pieces b (opposite c))).
Definition next_test (b : Board) (s : Square) (c : Color) : bool :=
  N.eqb (N.land (match c with
                 | White => bb_shl (bb_shl 1 (N.of_nat (idx s))) 8
                 | Black => shr64 (bb_shl 1 (N.of_nat (idx s))) 8 end) (all_pieces (bbs b))) 0.
Definition dnext_test (b : Board) (s : Square) (c : Color) : bool :=
  N.eqb (N.land (match c with
                 | White => bb_shl (bb_shl 1 (N.of_nat (idx s))) 16
                 | Black => shr64 (bb_shl 1 (N.of_nat (idx s))) 16 end) (all_pieces (bbs b))) 0.
Definition single_l (b : Board) (s : Square) (c : Color) : list Ply :=
  if next_test b s c then [ply_new s (sq_add s (dirq c)) (Pawn, c)] else [].
Definition double_ply (s : Square) (c : Color) (d : Square) : Ply :=
  set_flags (ply_new s d (Pawn, c)) false false true.
Definition double_l (b : Board) (s : Square) (c : Color) : list Ply :=
  if Nat.eqb (Board.rank s) (match c with White => 1 | Black => 6 end) && next_test b s c && dnext_test b s c
  then [double_ply s c (sq_add (sq_add s (dirq c)) (dirq c))] else [].
Definition ep_ply (s : Square) (c : Color) (d : Square) : Ply :=
  set_captured (set_flags (ply_new s d (Pawn, c)) false true false) (Some (Pawn, opposite c)).
Definition ep_to (b : Board) (s : Square) (c : Color) (d : Square) : list Ply :=
  match ep_file b with
  | Some f => if Nat.eqb f (Board.file d) then [ep_ply s c d] else []
  | None => []
  end.
Definition eps_l (b : Board) (s : Square) (c : Color) : list Ply :=
  if Nat.eqb (Board.rank s) (match c with White => 4 | Black => 3 end)
  then ep_to b s c (sq_add (sq_add s (dirq c)) EAST) ++ ep_to b s c (sq_add (sq_add s (dirq c)) WEST)
  else [].
Definition raw_list (b : Board) (s : Square) (c : Color) : list Ply :=
  caps_l b s c ++ single_l b s c ++ double_l b s c ++ eps_l b s c.

Lemma pawn_moveset_raw b s c :
  pawn_moveset s b c = flat_map (fun p => explode_promotion p c (backn c)) (raw_list b s c).
Proof.
  unfold pawn_moveset, raw_list, caps_l, single_l, double_l, eps_l, ep_to, ep_ply, double_ply,
    next_test, dnext_test, dirq, backn.
  cbv zeta. reflexivity.
Qed.

Lemma next_test_spec b s c : PCtx b s c ->
  next_test b s c = negb (occupied (cells (abs b)) (mk (Z.of_nat (Board.rank s) + forward c) (Z.of_nat (Board.file s)))).
Proof.
  intros C. pose proof (pc_rk _ _ _ C) as R. pose proof (pc_fl _ _ _ C) as F.
  unfold next_test. destruct c; cbn [forward].
  - rewrite shl8_bit by (unfold idx; lia). rewrite land_bit_eq0.
    replace (mk (Z.of_nat (Board.rank s) + 1) (Z.of_nat (Board.file s))) with (idx s + 8) by (unfold mk, idx; lia).
    rewrite occupied_abs; [reflexivity|apply (pc_pw _ _ _ C)|unfold idx; lia].
  - rewrite shr8_bit by (unfold idx; lia). rewrite land_bit_eq0.
    replace (mk (Z.of_nat (Board.rank s) + -1) (Z.of_nat (Board.file s))) with (idx s - 8) by (unfold mk, idx; lia).
    rewrite occupied_abs; [reflexivity|apply (pc_pw _ _ _ C)|unfold idx; lia].
Qed.

Lemma dnext_test_spec b s c : PCtx b s c -> Z.of_nat (Board.rank s) = start_rank c ->
  dnext_test b s c = negb (occupied (cells (abs b)) (mk (Z.of_nat (Board.rank s) + 2 * forward c) (Z.of_nat (Board.file s)))).
Proof.
  intros C S. pose proof (pc_fl _ _ _ C) as F.
  unfold dnext_test. destruct c; cbn [forward start_rank] in *.
  - rewrite shl16_bit by (unfold idx; lia). rewrite land_bit_eq0.
    replace (mk (Z.of_nat (Board.rank s) + 2 * 1) (Z.of_nat (Board.file s))) with (idx s + 16) by (unfold mk, idx; lia).
    rewrite occupied_abs; [reflexivity|apply (pc_pw _ _ _ C)|unfold idx; lia].
  - rewrite shr16_bit by (unfold idx; lia). rewrite land_bit_eq0.
    replace (mk (Z.of_nat (Board.rank s) + 2 * -1) (Z.of_nat (Board.file s))) with (idx s - 16) by (unfold mk, idx; lia).
    rewrite occupied_abs; [reflexivity|apply (pc_pw _ _ _ C)|unfold idx; lia].
Qed.

Lemma sq_add_dir b s c : PCtx b s c ->
  sq_add s (dirq c) = sqz (Z.of_nat (Board.rank s) + forward c) (Z.of_nat (Board.file s)).
Proof.
  intros C. pose proof (pc_rk _ _ _ C) as R. pose proof (pc_fl _ _ _ C) as F.
  destruct c; unfold dirq, NORTH, SOUTH; rewrite sq_add_small by lia; cbn [forward]; rewrite Z.add_0_r; reflexivity.
Qed.

Lemma sq_add_dir2 b s c : PCtx b s c -> Z.of_nat (Board.rank s) = start_rank c ->
  sq_add (sq_add s (dirq c)) (dirq c) = sqz (Z.of_nat (Board.rank s) + 2 * forward c) (Z.of_nat (Board.file s)).
Proof.
  intros C S. rewrite (sq_add_dir b s c C). pose proof (pc_fl _ _ _ C) as F.
  destruct c; unfold dirq, NORTH, SOUTH; cbn [forward start_rank] in *;
    rewrite sq_add_small by (unfold sqz; cbn [Board.rank Board.file]; lia);
    unfold sqz; cbn [Board.rank Board.file]; f_equal; lia.
Qed.

(* ------------------------------------------------------------------ *)
(* the raw plies and their destination squares, as propositions *)
Definition Tgt (b : Board) (s : Square) (c : Color) (t : nat) : Prop :=
  let cs := cells (abs b) in
  let rz := Z.of_nat (Board.rank s) in let fz := Z.of_nat (Board.file s) in let d := forward c in
  (In t (leaper_targets (deltas c) (idx s)) /\ has_color cs (opposite c) t = true)
  \/ (t = mk (rz + d) fz /\ occupied cs t = false)
  \/ (t = mk (rz + 2 * d) fz /\ rz = start_rank c /\ occupied cs (mk (rz + d) fz) = false /\ occupied cs t = false)
  \/ (exists ef, ep_file b = Some ef /\ rz = ep_rank c /\ Z.abs (fz - Z.of_nat ef) = 1%Z
                 /\ t = mk (rz + d) (Z.of_nat ef)).

Definition Raw (b : Board) (s : Square) (c : Color) (p : Ply) : Prop :=
  let cs := cells (abs b) in
  let rz := Z.of_nat (Board.rank s) in let fz := Z.of_nat (Board.file s) in let d := forward c in
  (exists t, In t (leaper_targets (deltas c) (idx s)) /\ has_color cs (opposite c) t = true
             /\ p = ply_new s (sq_of_idx t) (Pawn, c))
  \/ (occupied cs (mk (rz + d) fz) = false /\ p = ply_new s (sqz (rz + d) fz) (Pawn, c))
  \/ (rz = start_rank c /\ occupied cs (mk (rz + d) fz) = false /\ occupied cs (mk (rz + 2 * d) fz) = false
      /\ p = double_ply s c (sqz (rz + 2 * d) fz))
  \/ (exists ef, ep_file b = Some ef /\ rz = ep_rank c /\ Z.abs (fz - Z.of_nat ef) = 1%Z
                 /\ p = ep_ply s c (sqz (rz + d) (Z.of_nat ef))).

Lemma in_single b s c p : PCtx b s c ->
  (In p (single_l b s c) <->
   occupied (cells (abs b)) (mk (Z.of_nat (Board.rank s) + forward c) (Z.of_nat (Board.file s))) = false
   /\ p = ply_new s (sqz (Z.of_nat (Board.rank s) + forward c) (Z.of_nat (Board.file s))) (Pawn, c)).
Proof.
  intros C. unfold single_l. rewrite (next_test_spec b s c C), (sq_add_dir b s c C).
  destruct (occupied _ _); cbn [negb In]; split.
  - intros [].
  - intros [H _]; discriminate.
  - intros [<-|[]]. split; reflexivity.
  - intros [_ ->]. left; reflexivity.
Qed.

Lemma start_rank_nat s c :
  Nat.eqb (Board.rank s) (match c with White => 1 | Black => 6 end) = true <-> Z.of_nat (Board.rank s) = start_rank c.
Proof. rewrite Nat.eqb_eq. destruct c; cbn [start_rank]; lia. Qed.

Lemma ep_rank_nat s c :
  Nat.eqb (Board.rank s) (match c with White => 4 | Black => 3 end) = true <-> Z.of_nat (Board.rank s) = ep_rank c.
Proof. rewrite Nat.eqb_eq. destruct c; cbn [ep_rank]; lia. Qed.

Lemma in_double b s c p : PCtx b s c ->
  (In p (double_l b s c) <->
   Z.of_nat (Board.rank s) = start_rank c
   /\ occupied (cells (abs b)) (mk (Z.of_nat (Board.rank s) + forward c) (Z.of_nat (Board.file s))) = false
   /\ occupied (cells (abs b)) (mk (Z.of_nat (Board.rank s) + 2 * forward c) (Z.of_nat (Board.file s))) = false
   /\ p = double_ply s c (sqz (Z.of_nat (Board.rank s) + 2 * forward c) (Z.of_nat (Board.file s)))).
Proof.
  intros C. unfold double_l. pose proof (start_rank_nat s c) as HS.
  destruct (Nat.eqb (Board.rank s) _) eqn:E.
  - assert (S : Z.of_nat (Board.rank s) = start_rank c) by (apply HS; reflexivity).
    rewrite (next_test_spec b s c C), (dnext_test_spec b s c C S), (sq_add_dir2 b s c C S).
    destruct (occupied _ (mk (_ + forward c) _)); cbn [negb andb In].
    + split; [intros []|intros [_ [H _]]; discriminate].
    + destruct (occupied _ _); cbn [negb In].
      * split; [intros []|intros [_ [_ [H _]]]; discriminate].
      * split; [intros [<-|[]]; auto|intros [_ [_ [_ ->]]]; left; reflexivity].
  - cbn [andb In]. split; [intros []|]. intros [S _]. apply HS in S. discriminate.
Qed.

Lemma in_eps b s c p : PCtx b s c ->
  (In p (eps_l b s c) <->
   exists ef, ep_file b = Some ef /\ Z.of_nat (Board.rank s) = ep_rank c
              /\ Z.abs (Z.of_nat (Board.file s) - Z.of_nat ef) = 1%Z
              /\ p = ep_ply s c (sqz (Z.of_nat (Board.rank s) + forward c) (Z.of_nat ef))).
Proof.
  intros C. pose proof (pc_rk _ _ _ C) as R. pose proof (pc_fl _ _ _ C) as F.
  unfold eps_l. rewrite (sq_add_dir b s c C).
  set (rz := Z.of_nat (Board.rank s)). set (f := Board.file s) in *. set (d := forward c).
  assert (D : (0 <= rz + d < 8)%Z) by (unfold rz, d; destruct (forward_cases c) as [->| ->]; lia).
  assert (EE : sq_add (sqz (rz + d) (Z.of_nat f)) EAST = mkSq (Z.to_nat (rz + d)) (f + 1)).
  { unfold sq_add, EAST, sqz; cbn [fst snd Board.rank Board.file]. rewrite Nat2Z.id.
    rewrite !u8_add_small by lia. f_equal; lia. }
  assert (EW : sq_add (sqz (rz + d) (Z.of_nat f)) WEST = mkSq (Z.to_nat (rz + d)) (u8_add f (-1))).
  { unfold sq_add, WEST, sqz; cbn [fst snd Board.rank Board.file]. rewrite Nat2Z.id.
    rewrite (u8_add_small _ 0) by lia. f_equal; lia. }
  rewrite EE, EW. unfold ep_to; cbn [Board.file].
  pose proof (ep_rank_nat s c) as HR. fold rz in HR.
  destruct (ep_file b) as [ef|] eqn:Eef.
  2:{ split.
      - destruct (Nat.eqb (Board.rank s) _); cbn; tauto.
      - intros [ef [X _]]; discriminate. }
  destruct (pc_ep _ _ _ C ef Eef) as [Lef _].
  destruct (Nat.eqb (Board.rank s) _) eqn:Erk.
  - assert (RR : rz = ep_rank c) by (apply HR; reflexivity).
    rewrite in_app_iff. split.
    + intros [H|H].
      * destruct (Nat.eqb_spec ef (f + 1)) as [E|E]; [|destruct H]. destruct H as [<-|[]].
        exists ef. repeat split; auto; [lia|].
        unfold sqz. rewrite Nat2Z.id, E. reflexivity.
      * destruct (Nat.eqb ef (u8_add f (-1))) eqn:E; [|destruct H]. destruct H as [<-|[]].
        pose proof (proj1 (Nat.eqb_eq _ _) E) as E'. apply (u8_add_west f ef F Lef) in E.
        exists ef. repeat split; auto; [lia|].
        unfold sqz. rewrite Nat2Z.id, <- E'. reflexivity.
    + intros [ef' [X [_ [Habs ->]]]]. injection X as <-.
      destruct (Z.eq_dec (Z.of_nat ef) (Z.of_nat f + 1)) as [E|E].
      * left. assert (E1 : ef = f + 1) by lia. rewrite (proj2 (Nat.eqb_eq _ _) E1). left.
        unfold sqz. rewrite Nat2Z.id, E1. reflexivity.
      * right. assert (E1 : Z.of_nat ef = (Z.of_nat f - 1)%Z) by lia.
        pose proof (proj2 (u8_add_west f ef F Lef) E1) as E2. rewrite E2. left.
        apply Nat.eqb_eq in E2. unfold sqz. rewrite Nat2Z.id, <- E2. reflexivity.
  - split; [intros []|]. intros [ef' [_ [RR _]]]. apply HR in RR. discriminate.
Qed.

Section PawnGen.

Hypothesis pawn_attacks_geo : forall s c, (s < 64)%nat ->
  pawn_attacks s c = set_of (leaper_targets (match c with White => wpawn_deltas | Black => bpawn_deltas end) s).

Lemma in_caps b s c p : PCtx b s c ->
  (In p (caps_l b s c) <->
   exists t, In t (leaper_targets (deltas c) (idx s)) /\ has_color (cells (abs b)) (opposite c) t = true
             /\ p = ply_new s (sq_of_idx t) (Pawn, c)).
Proof.
  intros C. unfold caps_l, plies_to. rewrite in_map_iff.
  rewrite (pawn_attacks_geo (idx s) c (idx_lt s (pc_v _ _ _ C))). fold (deltas c).
  split.
  - intros [t [<- Ht]]. apply asc_bits_In in Ht. destruct Ht as [L Ht].
    unfold tb in Ht. rewrite N.land_spec in Ht. apply andb_true_iff in Ht. destruct Ht as [H1 H2].
    exists t. split; [apply set_of_tb; exact H1|]. split; [|reflexivity].
    rewrite (has_color_abs b _ t (pc_pw _ _ _ C) L). exact H2.
  - intros [t [H1 [H2 ->]]]. exists t. split; [reflexivity|].
    pose proof (leaper_targets_lt64 _ _ _ H1) as L.
    apply asc_bits_In. split; [exact L|]. unfold tb. rewrite N.land_spec. apply andb_true_iff. split.
    + apply set_of_tb. exact H1.
    + rewrite (has_color_abs b _ t (pc_pw _ _ _ C) L) in H2. exact H2.
Qed.

Lemma in_raw b s c p : PCtx b s c -> (In p (raw_list b s c) <-> Raw b s c p).
Proof.
  intros C. unfold raw_list, Raw. cbv zeta. rewrite !in_app_iff.
  rewrite (in_caps b s c p C), (in_single b s c p C), (in_double b s c p C), (in_eps b s c p C).
  reflexivity.
Qed.

(* ------------------------------------------------------------------ *)
(* what every raw ply looks like *)
Definition Shape (b : Board) (s : Square) (c : Color) (dest : Square) (epf dppf : bool) : Prop :=
  sq_valid dest = true /\ dest <> s
  /\ epf = negb (Nat.eqb (Board.file s) (Board.file dest)) && is_none (get_piece b dest)
  /\ dppf = (Z.abs (Z.of_nat (Board.rank s) - Z.of_nat (Board.rank dest)) =? 2)%Z
  /\ (forall k, get_piece b dest = Some k -> snd k = opposite c)
  /\ (epf = true -> Board.rank dest <> Board.rank s
                   /\ exists k, get_piece b (mkSq (Board.rank s) (Board.file dest)) = Some k /\ snd k = opposite c).

Lemma Raw_facts b s c p : PCtx b s c -> Raw b s c p ->
  p_start p = s /\ p_piece p = (Pawn, c) /\ p_castles p = false /\ p_promoted p = None
  /\ Tgt b s c (idx (p_dest p))
  /\ Shape b s c (p_dest p) (p_ep p) (p_dpp p)
  /\ (p_ep p || p_dpp p = true -> Board.rank (p_dest p) <> backn c).
Proof.
  intros C. pose proof (pc_rk _ _ _ C) as R. pose proof (pc_fl _ _ _ C) as F.
  pose proof (pc_v _ _ _ C) as V.
  unfold Raw. cbv zeta.
  set (rz := Z.of_nat (Board.rank s)). set (fz := Z.of_nat (Board.file s)). set (d := forward c).
  assert (D : (d = 1 \/ d = -1)%Z) by apply forward_cases.
  intros [[t [H1 [H2 ->]]]|[[O1 ->]|[[S [O1 [O2 ->]]]|[ef [Eef [RR [Habs ->]]]]]]];
    cbn [p_start p_piece p_castles p_promoted p_dest p_ep p_dpp ply_new double_ply ep_ply set_flags set_captured];
    (split; [reflexivity|]); (split; [reflexivity|]); (split; [reflexivity|]); (split; [reflexivity|]).
  - (* capture *)
    pose proof (leaper_targets_lt64 _ _ _ H1) as L.
    pose proof H1 as G. apply leaper_pawn in G. destruct G as [df [Hdf [I Et]]].
    rewrite (geo_rank_idx s V), (geo_file_idx s V) in I, Et. fold rz fz d in I, Et.
    pose proof (sq_of_idx_mk _ _ I) as Esq. rewrite <- Et in Esq.
    pose proof (sqz_valid _ _ I) as Vd. apply inb_range in I.
    destruct (has_color_get b _ t L H2) as [tt G].
    rewrite idx_sq_of_idx. split; [left; split; assumption|]. split; [|cbn; discriminate].
    rewrite Esq in *. unfold Shape. cbn [sqz Board.rank Board.file].
    split; [exact Vd|]. split.
    { intros E. apply (f_equal Board.rank) in E. unfold sqz in E; cbn [Board.rank] in E. lia. }
    split.
    { rewrite G. cbn [is_none]. rewrite andb_false_r. reflexivity. }
    split.
    { symmetry. apply Z.eqb_neq. fold rz. lia. }
    split.
    { intros k Hk. rewrite G in Hk. injection Hk as <-. reflexivity. }
    intros X; discriminate.
  - (* single push *)
    assert (I : inb (rz + d) fz = true) by (apply (inb_one b s c C); unfold fz; lia).
    pose proof (sqz_valid _ _ I) as Vd. apply inb_range in I.
    rewrite idx_sqz by lia. split; [right; left; split; [reflexivity|exact O1]|]. split; [|cbn; discriminate].
    unfold Shape. split; [exact Vd|]. split.
    { intros E. apply (f_equal Board.rank) in E. unfold sqz in E; cbn [Board.rank] in E. lia. }
    assert (FE : Nat.eqb (Board.file s) (Z.to_nat fz) = true) by (unfold fz; rewrite Nat2Z.id; apply Nat.eqb_refl).
    assert (Em : forall k, get_piece b (sqz (rz + d) fz) = Some k -> snd k = opposite c).
    { intros k Hk. rewrite <- (idx_sqz (rz + d) fz) in O1 by lia.
      rewrite (empty_get b _ Vd O1) in Hk. discriminate. }
    cbn [sqz Board.rank Board.file]. rewrite FE. cbn [negb andb].
    split; [reflexivity|]. split.
    { symmetry. apply Z.eqb_neq. fold rz. lia. }
    split; [exact Em|intros X; discriminate].
  - (* double push *)
    assert (I : inb (rz + 2 * d) fz = true) by (apply (inb_two b s c C S); unfold fz; lia).
    pose proof (sqz_valid _ _ I) as Vd. apply inb_range in I.
    rewrite idx_sqz by lia.
    split; [right; right; left; repeat split; assumption|]. split.
    2:{ intros _. unfold sqz; cbn [Board.rank]. fold rz in S. rewrite S. unfold d.
        destruct c; cbn; discriminate. }
    unfold Shape. split; [exact Vd|]. split.
    { intros E. apply (f_equal Board.rank) in E. unfold sqz in E; cbn [Board.rank] in E. lia. }
    assert (FE : Nat.eqb (Board.file s) (Z.to_nat fz) = true) by (unfold fz; rewrite Nat2Z.id; apply Nat.eqb_refl).
    assert (Em : forall k, get_piece b (sqz (rz + 2 * d) fz) = Some k -> snd k = opposite c).
    { intros k Hk. rewrite <- (idx_sqz (rz + 2 * d) fz) in O2 by lia.
      rewrite (empty_get b _ Vd O2) in Hk. discriminate. }
    cbn [sqz Board.rank Board.file]. rewrite FE. cbn [negb andb].
    split; [reflexivity|]. split.
    { symmetry. apply Z.eqb_eq. fold rz. lia. }
    split; [exact Em|intros X; discriminate].
  - (* en passant *)
    destruct (pc_ep _ _ _ C ef Eef) as [Lef [G1 G2]].
    assert (I : inb (rz + d) (Z.of_nat ef) = true) by (apply (inb_one b s c C); lia).
    pose proof (sqz_valid _ _ I) as Vd. apply inb_range in I.
    rewrite idx_sqz by lia.
    split; [right; right; right; exists ef; repeat split; assumption|]. split.
    2:{ intros _. unfold sqz; cbn [Board.rank]. rewrite RR. unfold d.
        destruct c; cbn; discriminate. }
    fold rz in RR. rewrite <- RR in G1, G2. fold d in G2.
    unfold Shape. split; [exact Vd|]. split.
    { intros E. apply (f_equal Board.rank) in E. unfold sqz in E; cbn [Board.rank] in E. lia. }
    rewrite G2. cbn [sqz Board.rank Board.file is_none]. rewrite Nat2Z.id.
    split.
    { assert (NE : Board.file s <> ef) by (unfold fz in Habs; lia).
      apply Nat.eqb_neq in NE. rewrite NE. reflexivity. }
    split.
    { symmetry. apply Z.eqb_neq. fold rz. lia. }
    split; [intros k Hk; discriminate|].
    intros _. split; [lia|].
    exists (Pawn, opposite c). split; [|reflexivity].
    unfold sqz, rz in G1. rewrite !Nat2Z.id in G1. exact G1.
Qed.

Lemma Tgt_Raw b s c t : PCtx b s c -> Tgt b s c t -> exists p, Raw b s c p /\ idx (p_dest p) = t.
Proof.
  intros C. pose proof (pc_rk _ _ _ C) as R.
  unfold Tgt, Raw. cbv zeta.
  set (rz := Z.of_nat (Board.rank s)). set (fz := Z.of_nat (Board.file s)). set (d := forward c).
  assert (D : (d = 1 \/ d = -1)%Z) by apply forward_cases.
  intros [[H1 H2]|[[-> O1]|[[-> [S [O1 O2]]]|[ef [Eef [RR [Habs ->]]]]]]].
  - eexists. split; [left; exists t; repeat split; assumption|]. cbn [p_dest ply_new]. apply idx_sq_of_idx.
  - eexists. split; [right; left; split; [exact O1|reflexivity]|]. cbn [p_dest ply_new].
    apply idx_sqz; unfold fz; lia.
  - eexists. split; [right; right; left; repeat split; try eassumption; reflexivity|].
    cbn [p_dest double_ply set_flags ply_new]. apply idx_sqz; unfold fz; [|lia].
    fold rz in S. rewrite S. unfold d. destruct c; cbn; lia.
  - eexists. split; [right; right; right; exists ef; repeat split; try eassumption; reflexivity|].
    cbn [p_dest ep_ply set_captured set_flags ply_new]. apply idx_sqz; lia.
Qed.

(* ------------------------------------------------------------------ *)
(* promotion explosion *)
Lemma explode_move_of p c : sq_valid (p_dest p) = true -> p_promoted p = None ->
  map move_of (explode_promotion p c (backn c)) = with_promotions c (idx (p_start p)) (idx (p_dest p)).
Proof.
  intros V N. unfold explode_promotion, with_promotions. rewrite (geo_rank_idx _ V).
  assert (E : (Z.of_nat (Board.rank (p_dest p)) =? last_rank c)%Z = Nat.eqb (Board.rank (p_dest p)) (backn c)).
  { destruct c; cbn [last_rank backn]; [change 7%Z with (Z.of_nat 7)|change 0%Z with (Z.of_nat 0)];
      apply Zeqb_of_nat. }
  rewrite E. destruct (Nat.eqb _ _); cbn [map]; unfold move_of;
    cbn [p_start p_dest p_promoted set_promoted ply_new fst]; [reflexivity|rewrite N; reflexivity].
Qed.

Lemma explode_in p c m : In m (explode_promotion p c (backn c)) ->
  m = p \/ (Board.rank (p_dest p) = backn c /\
            exists t, (t = Queen \/ t = Rook \/ t = Knight \/ t = Bishop)
                      /\ m = set_promoted (ply_new (p_start p) (p_dest p) (p_piece p)) (Some (t, c))).
Proof.
  unfold explode_promotion. destruct (Nat.eqb_spec (Board.rank (p_dest p)) (backn c)) as [E|E].
  - intros H. right. split; [exact E|]. cbn [map In] in H.
    destruct H as [<-|[<-|[<-|[<-|[]]]]]; eexists; (split; [|reflexivity]); auto.
  - intros [<-|[]]. left; reflexivity.
Qed.

Lemma explode_ends p c m : In m (explode_promotion p c (backn c)) ->
  p_start m = p_start p /\ p_dest m = p_dest p.
Proof.
  intros H. apply explode_in in H. destruct H as [->|[_ [t [_ ->]]]]; split; reflexivity.
Qed.

Lemma in_get_moveset b s c m : PCtx b s c ->
  (In m (get_moveset (Pawn, c) s b) <-> exists p, Raw b s c p /\ In m (explode_promotion p c (backn c))).
Proof.
  intros C. unfold get_moveset; cbn [fst snd]. rewrite pawn_moveset_raw, filter_In, in_flat_map. split.
  - intros [[p [Hp Hm]] _]. exists p. split; [exact (proj1 (in_raw b s c p C) Hp)|exact Hm].
  - intros [p [Hp Hm]]. split; [exists p; split; [exact (proj2 (in_raw b s c p C) Hp)|exact Hm]|].
    destruct (Raw_facts b s c p C Hp) as [E1 [_ [_ [_ [_ [[Vd [Ne _]] _]]]]]].
    destruct (explode_ends p c m Hm) as [Es Ed].
    unfold ply_sane. rewrite Es, Ed, E1, (pc_v _ _ _ C), Vd. cbn [andb].
    rewrite sq_eqb_neq' by exact Ne. reflexivity.
Qed.

(* ------------------------------------------------------------------ *)
(* the rules' pawn moves through the same destination predicate *)
Lemma wp_none c i t : Geometry.rank t <> last_rank c -> with_promotions c i t = [mkMove i t None].
Proof.
  intros H. unfold with_promotions.
  destruct (Z.eqb_spec (Geometry.rank t) (last_rank c)); [contradiction|reflexivity].
Qed.

Lemma spec_char b s c mv : PCtx b s c ->
  (In mv (pawn_moves (abs b) (idx s)) <-> exists t, Tgt b s c t /\ In mv (with_promotions c (idx s) t)).
Proof.
  intros C. pose proof (pc_rk _ _ _ C) as R. pose proof (pc_fl _ _ _ C) as F.
  pose proof (pc_v _ _ _ C) as V.
  unfold pawn_moves, Tgt. cbv zeta.
  change (side (abs b)) with (current_turn b). change (ep (abs b)) with (ep_file b).
  rewrite <- (pc_turn _ _ _ C).
  rewrite (geo_rank_idx s V), (geo_file_idx s V). unfold Rules.sq. fold (deltas c).
  set (cs := cells (abs b)).
  set (rz := Z.of_nat (Board.rank s)). set (fz := Z.of_nat (Board.file s)). set (d := forward c).
  assert (D : (d = 1 \/ d = -1)%Z) by apply forward_cases.
  assert (I1 : inb (rz + d) fz = true) by (apply (inb_one b s c C); unfold fz; lia).
  rewrite I1. cbn [andb].
  assert (W2 : rz = start_rank c ->
               with_promotions c (idx s) (mk (rz + 2 * d) fz) = [mkMove (idx s) (mk (rz + 2 * d) fz) None]).
  { intros S. apply wp_none. rewrite geo_rank_mk by (apply (inb_two b s c C S); unfold fz; lia).
    rewrite S. unfold d. destruct c; cbn; discriminate. }
  assert (W3 : forall ef, ef < 8 -> rz = ep_rank c ->
               with_promotions c (idx s) (mk (rz + d) (Z.of_nat ef)) = [mkMove (idx s) (mk (rz + d) (Z.of_nat ef)) None]).
  { intros ef Lef RR. apply wp_none. rewrite geo_rank_mk by (apply (inb_one b s c C); lia).
    rewrite RR. unfold d. destruct c; cbn; discriminate. }
  rewrite !in_app_iff. split.
  - intros [H|[H|H]].
    + destruct (occupied cs (mk (rz + d) fz)) eqn:O1; cbn [negb] in H; [destruct H|].
      apply in_app_iff in H. destruct H as [H|H].
      * exists (mk (rz + d) fz). split; [right; left; split; [reflexivity|exact O1]|exact H].
      * destruct (Z.eqb_spec rz (start_rank c)) as [S|S]; cbn [andb] in H; [|destruct H].
        destruct (occupied cs (mk (rz + 2 * d) fz)) eqn:O2; cbn [negb] in H; [destruct H|].
        exists (mk (rz + 2 * d) fz). split; [right; right; left; repeat split; assumption|].
        rewrite (W2 S). exact H.
    + apply in_flat_map in H. destruct H as [t [H1 H2]].
      destruct (has_color cs (opposite c) t) eqn:HC; [|destruct H2].
      exists t. split; [left; split; assumption|exact H2].
    + destruct (ep_file b) as [ef|] eqn:Eef; [|destruct H].
      destruct (pc_ep _ _ _ C ef Eef) as [Lef _].
      destruct (Z.eqb_spec rz (ep_rank c)) as [RR|RR]; cbn [andb] in H; [|destruct H].
      destruct (Z.eqb_spec (Z.abs (fz - Z.of_nat ef)) 1) as [A|A]; [|destruct H].
      exists (mk (rz + d) (Z.of_nat ef)).
      split; [right; right; right; exists ef; repeat split; auto|].
      rewrite (W3 ef Lef RR). exact H.
  - intros [t [[[H1 H2]|[[-> O1]|[[-> [S [O1 O2]]]|[ef [Eef [RR [A ->]]]]]]] Hm]].
    + right; left. apply in_flat_map. exists t. split; [exact H1|]. rewrite H2. exact Hm.
    + left. rewrite O1. cbn [negb]. apply in_app_iff. left. exact Hm.
    + left. rewrite O1. cbn [negb]. apply in_app_iff. right.
      rewrite (proj2 (Z.eqb_eq _ _) S), O2. cbn [andb negb]. rewrite <- (W2 S). exact Hm.
    + right; right. rewrite Eef. destruct (pc_ep _ _ _ C ef Eef) as [Lef _].
      rewrite (proj2 (Z.eqb_eq _ _) RR), (proj2 (Z.eqb_eq _ _) A). cbn [andb].
      rewrite <- (W3 ef Lef RR). exact Hm.
Qed.

(* ------------------------------------------------------------------ *)
(* a pawn ply of the right shape passes move_okb and flags_ok once its capture is filled in *)
Lemma pawn_ply_ok b s c m : PCtx b s c ->
  p_start m = s -> p_piece m = (Pawn, c) -> p_castles m = false ->
  Shape b s c (p_dest m) (p_ep m) (p_dpp m) ->
  (p_promoted m = None \/ exists t, p_promoted m = Some (t, c) /\ t <> Pawn /\ t <> King) ->
  move_okb b (fill_captured b m) = true /\ flags_ok b (fill_captured b m) = true.
Proof.
  intros C Es Ep Ec [Vd [Ne [Ea [Da [Hc Hd]]]]] Hp.
  pose proof (pc_v _ _ _ C) as V. pose proof (pc_piece _ _ _ C) as HP.
  destruct m as [st de pc cap pr cas epf dpf hm rt].
  cbn [p_start p_dest p_piece p_captured p_promoted p_castles p_ep p_dpp] in *. subst st pc cas.
  assert (A1 : sq_eqb s de = false) by (apply sq_eqb_neq'; exact Ne).
  assert (A2 : Nat.ltb (Board.file de) 8 = true) by (apply Nat.ltb_lt; apply (sq_valid_lt de Vd)).
  assert (A3 : color_eqb c (current_turn b) = true) by (rewrite <- (pc_turn _ _ _ C); apply color_eqb_refl).
  assert (A4 : match pr with
               | Some (t, c0) => ptype_eqb Pawn Pawn && color_eqb c0 c && negb (ptype_eqb t Pawn) && negb (ptype_eqb t King)
               | None => true
               end = true).
  { destruct Hp as [->|[t [-> [T1 T2]]]]; [reflexivity|]. rewrite color_eqb_refl.
    destruct t; try contradiction; reflexivity. }
  split.
  - unfold move_okb, fill_captured. cbn [p_ep]. destruct epf.
    + destruct (Hd eq_refl) as [Nr [k [Hk Sk]]].
      symmetry in Ea. apply andb_true_iff in Ea. destruct Ea as [Ef Ee].
      cbn [set_captured p_start p_dest p_piece p_captured p_promoted p_castles p_ep p_dpp fst snd].
      unfold ep_capture_square.
      rewrite Hk, V, Vd, A1, HP, A3, A4, Sk, color_eqb_opp, Ee, !okind_eqb_refl, A2.
      assert (B1 : sq_eqb (mkSq (Board.rank s) (Board.file de)) de = false).
      { unfold sq_eqb; cbn [Board.rank Board.file]. apply Nat.eqb_neq in Nr. rewrite Nat.eqb_sym, Nr. reflexivity. }
      assert (B2 : sq_eqb (mkSq (Board.rank s) (Board.file de)) s = false).
      { unfold sq_eqb; cbn [Board.rank Board.file]. rewrite Nat.eqb_sym in Ef.
        apply negb_true_iff in Ef. rewrite Ef. apply andb_false_r. }
      rewrite B1, B2. destruct dpf; reflexivity.
    + cbn [set_captured p_start p_dest p_piece p_captured p_promoted p_castles p_ep p_dpp fst snd].
      rewrite V, Vd, A1, HP, A3, A4, !okind_eqb_refl, A2.
      assert (B : match get_piece b de with Some c0 => negb (color_eqb (snd c0) c) | None => true end = true).
      { destruct (get_piece b de) as [k|] eqn:G; [|reflexivity]. rewrite (Hc k eq_refl), color_eqb_opp. reflexivity. }
      rewrite B. destruct dpf; reflexivity.
  - unfold flags_ok, move_of, is_castle, is_capture_move, is_ep, is_double_push, is_capture, fill_captured.
    cbn [p_ep]. destruct epf;
      cbn [set_captured p_start p_dest p_piece p_captured p_promoted p_castles p_ep p_dpp m_from m_to];
      rewrite (at_abs_sq b s V), HP; cbv beta iota;
      rewrite (geo_file_idx s V), (geo_file_idx de Vd), (geo_rank_idx s V), (geo_rank_idx de Vd),
        (occupied_get_piece b de Vd), Zeqb_of_nat, <- Da.
    + destruct (Hd eq_refl) as [Nr [k [Hk Sk]]].
      symmetry in Ea. apply andb_true_iff in Ea. destruct Ea as [Ef Ee].
      unfold ep_capture_square. rewrite Hk, Ef, Ee. destruct dpf; reflexivity.
    + rewrite negb_involutive, <- Ea. destruct (get_piece b de); destruct dpf; reflexivity.
Qed.

(* ------------------------------------------------------------------ *)
(* the two results *)
Theorem pawn_gen_spec : forall b sq c,
  wf_full b = true -> sq_valid sq = true -> get_piece b sq = Some (Pawn, c) -> c = current_turn b ->
  forall mv, In mv (map move_of (get_moveset (Pawn, c) sq b)) <-> In mv (piece_moves (abs b) (idx sq) (Pawn, c)).
Proof.
  intros b s c WF V HP HC mv. pose proof (pctx_of_wf b s c WF V HP HC) as C.
  change (piece_moves (abs b) (idx s) (Pawn, c)) with (pawn_moves (abs b) (idx s)).
  rewrite (spec_char b s c mv C), in_map_iff. split.
  - intros [m [<- Hm]]. apply (in_get_moveset b s c m C) in Hm. destruct Hm as [p [Hp Hm]].
    destruct (Raw_facts b s c p C Hp) as [E1 [_ [_ [E4 [T [[Vd _] _]]]]]].
    exists (idx (p_dest p)). split; [exact T|].
    rewrite <- E1 at 1. rewrite <- (explode_move_of p c Vd E4). apply in_map. exact Hm.
  - intros [t [T Hm]]. destruct (Tgt_Raw b s c t C T) as [p [Hp <-]].
    destruct (Raw_facts b s c p C Hp) as [E1 [_ [_ [E4 [_ [[Vd _] _]]]]]].
    rewrite <- E1 in Hm at 1. rewrite <- (explode_move_of p c Vd E4) in Hm.
    apply in_map_iff in Hm. destruct Hm as [m [<- Hm]].
    exists m. split; [reflexivity|]. apply (in_get_moveset b s c m C). exists p. split; assumption.
Qed.

Theorem pawn_gen_ok : forall b sq c,
  wf_full b = true -> sq_valid sq = true -> get_piece b sq = Some (Pawn, c) -> c = current_turn b ->
  forall m, In m (map (fill_captured b) (get_moveset (Pawn, c) sq b)) ->
  move_okb b m = true /\ flags_ok b m = true.
Proof.
  intros b s c WF V HP HC m' Hm'. pose proof (pctx_of_wf b s c WF V HP HC) as C.
  apply in_map_iff in Hm'. destruct Hm' as [m [<- Hm]].
  apply (in_get_moveset b s c m C) in Hm. destruct Hm as [p [Hp Hm]].
  destruct (Raw_facts b s c p C Hp) as [E1 [E2 [E3 [E4 [_ [Sh NB]]]]]].
  apply explode_in in Hm. destruct Hm as [->|[Bk [t [Ht ->]]]].
  - apply (pawn_ply_ok b s c p C E1 E2 E3 Sh). left; exact E4.
  - assert (Fl : p_ep p = false /\ p_dpp p = false).
    { destruct (p_ep p), (p_dpp p); auto; exfalso; apply NB; auto. }
    destruct Fl as [F1 F2]. rewrite F1, F2 in Sh.
    apply (pawn_ply_ok b s c _ C); cbn [p_start p_dest p_piece p_castles p_ep p_dpp p_promoted set_promoted ply_new];
      try assumption; try reflexivity.
    right. exists t. split; [reflexivity|]. destruct Ht as [->|[->|[->| ->]]]; split; discriminate.
Qed.

End PawnGen.

Print Assumptions pawn_gen_spec.
Print Assumptions pawn_gen_ok.
