(* assembling the chunked sweeps into the all-squares statements *)
From Coq Require Import NArith ZArith List Lia.
From RCE Require Import lib.Bits lib.Geometry generated.Consts model.Tables proofs.TablesProofs
  proofs.SweepRook0 proofs.SweepRook1 proofs.SweepRook2 proofs.SweepRook3 proofs.SweepBishop.
Open Scope N_scope.

Lemma rook_exact : forall s, (s < 64)%nat -> forall occ : N,
  rook_get_attacks s occ = Some (set_of (slider_attacks rook_dirs s (tb occ))).
Proof.
  intros s Hs occ. unfold rook_get_attacks.
  destruct (Nat.lt_ge_cases s 16); [eapply (sweep_range_exact _ _ _ _ _ _ _ _ rook_sweep_0); lia|].
  destruct (Nat.lt_ge_cases s 32); [eapply (sweep_range_exact _ _ _ _ _ _ _ _ rook_sweep_1); lia|].
  destruct (Nat.lt_ge_cases s 48); [eapply (sweep_range_exact _ _ _ _ _ _ _ _ rook_sweep_2); lia|].
  eapply (sweep_range_exact _ _ _ _ _ _ _ _ rook_sweep_3); lia.
Qed.

Lemma bishop_exact : forall s, (s < 64)%nat -> forall occ : N,
  bishop_get_attacks s occ = Some (set_of (slider_attacks bishop_dirs s (tb occ))).
Proof.
  intros s Hs occ. unfold bishop_get_attacks.
  eapply (sweep_range_exact _ _ _ _ _ _ _ _ bishop_sweep); lia.
Qed.

Lemma queen_exact : forall s, (s < 64)%nat -> forall occ : N,
  queen_get_attacks s occ
  = Some (set_of (slider_attacks rook_dirs s (tb occ) ++ slider_attacks bishop_dirs s (tb occ))).
Proof.
  intros s Hs occ. unfold queen_get_attacks.
  rewrite (rook_exact s Hs occ), (bishop_exact s Hs occ), set_of_app. reflexivity.
Qed.

Lemma sliders_on_board : forall s occ, (s < 64)%nat ->
  (forall a, rook_get_attacks s occ = Some a -> a < 2^64) /\
  (forall a, bishop_get_attacks s occ = Some a -> a < 2^64).
Proof.
  intros s occ Hs. split; intros a Ha.
  - rewrite (rook_exact s Hs occ) in Ha. injection Ha as <-.
    apply set_of_lt. intros i Hi. exact (slider_attacks_lt64 rook_dirs s (tb occ) i Hi).
  - rewrite (bishop_exact s Hs occ) in Ha. injection Ha as <-.
    apply set_of_lt. intros i Hi. exact (slider_attacks_lt64 bishop_dirs s (tb occ) i Hi).
Qed.
