(* AttackProofs.v — attack sets and check status of the engine model are those of the rules
   (part of C01).  The model's attack functions are the geometric ones (ray lists, leaper
   targets); on a board with consistent bitboards the occupancy, colour and piece bitboards say
   exactly what the mailbox abstraction says; hence piece_attacks, attacked_squares and
   is_in_check coincide with attack_targets, attacked_by and in_check of spec/Rules.v. *)
From Coq Require Import NArith ZArith List Lia Bool.
Import ListNotations.
From RCE Require Import lib.Bits lib.Geometry generated.Consts model.Tables proofs.TablesProofs
  proofs.SweepLeapers model.Board model.Movegen model.Wf spec.Rules model.Abs proofs.BoardProofsPBB.
Open Scope N_scope.

(* ------------------------------------------------------------------ *)
(* small list facts *)
Lemma nth_map_seq {A} (f : nat -> A) (len n : nat) (d : A) :
  (n < len)%nat -> nth n (map f (seq 0 len)) d = f n.
Proof.
  intros H. rewrite (nth_indep _ d (f 0%nat)) by (rewrite map_length, seq_length; exact H).
  rewrite map_nth, seq_nth by exact H. reflexivity.
Qed.

Lemma nth_map_in {A B} (f : A -> B) (l : list A) (n : nat) (d : B) (a : A) :
  (n < length l)%nat -> nth n (map f l) d = f (nth n l a).
Proof.
  intros H. rewrite (nth_indep _ d (f a)) by (rewrite map_length; exact H).
  apply map_nth.
Qed.

Lemma existsb_ext_in {A} (f g : A -> bool) (l : list A) :
  (forall x, In x l -> f x = g x) -> existsb f l = existsb g l.
Proof.
  induction l as [|a t IH]; intros H; cbn [existsb]; [reflexivity|].
  rewrite (H a) by (left; reflexivity). rewrite IH; [reflexivity|].
  intros x Hx. apply H. right. exact Hx.
Qed.

Lemma tb_0 n : tb 0 n = false.
Proof. unfold tb. apply N.bits_0. Qed.

Lemma tb_lor x y n : tb (N.lor x y) n = tb x n || tb y n.
Proof. unfold tb. apply N.lor_spec. Qed.

Lemma tb_set_of_memb l n : tb (set_of l) n = memb n l.
Proof.
  apply eq_true_iff_eq. rewrite set_of_tb. unfold memb. rewrite existsb_exists. split.
  - intros H. exists n. split; [exact H|apply Nat.eqb_refl].
  - intros [x [H1 H2]]. apply Nat.eqb_eq in H2. subst x. exact H1.
Qed.

(* ------------------------------------------------------------------ *)
(* 1. geometry of the model's attack functions *)
Lemma ray_lists_tbl_eq :
  ray_lists_tbl = map (fun s => map (fun d => ray_list s d) dir8) (seq 0 64).
Proof. vm_compute. reflexivity. Qed.

Lemma ray_sq_spec : forall s d, (s < 64)%nat -> (d < 8)%nat ->
  ray_sq s d = ray_list s (nth d dir8 (0,0)%Z).
Proof.
  intros s d Hs Hd. unfold ray_sq. rewrite ray_lists_tbl_eq.
  rewrite (nth_map_seq (fun s => map (fun d => ray_list s d) dir8) 64 s [] Hs).
  apply nth_map_in. exact Hd.
Qed.

Lemma rook_attacks_geo : forall s o, (s < 64)%nat ->
  rook_attacks s o = set_of (slider_attacks rook_dirs s (tb o)).
Proof.
  intros s o Hs. unfold rook_attacks, slide_attacks, slider_attacks, rook_dirs.
  cbn [flat_map].
  rewrite !(ray_sq_spec s _ Hs) by lia. reflexivity.
Qed.

Lemma bishop_attacks_geo : forall s o, (s < 64)%nat ->
  bishop_attacks s o = set_of (slider_attacks bishop_dirs s (tb o)).
Proof.
  intros s o Hs. unfold bishop_attacks, slide_attacks, slider_attacks, bishop_dirs.
  cbn [flat_map].
  rewrite !(ray_sq_spec s _ Hs) by lia. reflexivity.
Qed.

Lemma queen_attacks_geo : forall s o, (s < 64)%nat ->
  queen_attacks s o
  = set_of (slider_attacks rook_dirs s (tb o) ++ slider_attacks bishop_dirs s (tb o)).
Proof.
  intros s o Hs. unfold queen_attacks.
  rewrite (rook_attacks_geo s o Hs), (bishop_attacks_geo s o Hs), set_of_app. reflexivity.
Qed.

Lemma knight_tbl_eq : knight_tbl = map knight_model (seq 0 64).
Proof. vm_compute. reflexivity. Qed.
Lemma king_tbl_eq : king_tbl = map king_model (seq 0 64).
Proof. vm_compute. reflexivity. Qed.
Lemma wpawn_tbl_eq : wpawn_tbl = map wpawn_model (seq 0 64).
Proof. vm_compute. reflexivity. Qed.
Lemma bpawn_tbl_eq : bpawn_tbl = map bpawn_model (seq 0 64).
Proof. vm_compute. reflexivity. Qed.

Lemma knight_attacks_model : forall s, (s < 64)%nat -> knight_attacks s = knight_model s.
Proof. intros s Hs. unfold knight_attacks. rewrite knight_tbl_eq. apply nth_map_seq. exact Hs. Qed.
Lemma king_attacks_model : forall s, (s < 64)%nat -> king_attacks s = king_model s.
Proof. intros s Hs. unfold king_attacks. rewrite king_tbl_eq. apply nth_map_seq. exact Hs. Qed.
Lemma pawn_attacks_model : forall s c, (s < 64)%nat ->
  pawn_attacks s c = match c with White => wpawn_model s | Black => bpawn_model s end.
Proof.
  intros s c Hs. unfold pawn_attacks. destruct c.
  - rewrite wpawn_tbl_eq. apply nth_map_seq. exact Hs.
  - rewrite bpawn_tbl_eq. apply nth_map_seq. exact Hs.
Qed.

Lemma knight_attacks_geo : forall s, (s < 64)%nat ->
  knight_attacks s = set_of (leaper_targets knight_deltas s).
Proof.
  intros s Hs. rewrite (knight_attacks_model s Hs).
  exact (leaper_sweep_exact _ _ knight_sweep_ok s Hs).
Qed.

Lemma king_attacks_geo : forall s, (s < 64)%nat ->
  king_attacks s = set_of (leaper_targets king_deltas s).
Proof.
  intros s Hs. rewrite (king_attacks_model s Hs).
  exact (leaper_sweep_exact _ _ king_sweep_ok s Hs).
Qed.

Lemma pawn_attacks_geo : forall s c, (s < 64)%nat ->
  pawn_attacks s c
  = set_of (leaper_targets (match c with White => wpawn_deltas | Black => bpawn_deltas end) s).
Proof.
  intros s c Hs. rewrite (pawn_attacks_model s c Hs). destruct c.
  - exact (leaper_sweep_exact _ _ wpawn_sweep_ok s Hs).
  - exact (leaper_sweep_exact _ _ bpawn_sweep_ok s Hs).
Qed.

(* all attack sets are on the board *)
Lemma slider_attacks_set_lt dirs s o : set_of (slider_attacks dirs s o) < 2^64.
Proof. apply set_of_lt. intros i Hi. exact (slider_attacks_lt64 dirs s o i Hi). Qed.
Lemma leaper_targets_set_lt ds s : set_of (leaper_targets ds s) < 2^64.
Proof. apply set_of_lt. intros i Hi. exact (leaper_targets_lt64 ds s i Hi). Qed.

(* ------------------------------------------------------------------ *)
(* bridging lemmas: the bitboards vs the mailbox abstraction *)
(* (idx_sq_of_idx : idx (sq_of_idx i) = i  and  sq_of_idx_idx : sq_valid s = true ->
   sq_of_idx (idx s) = s  are in proofs/BoardProofsPBB.v) *)

Lemma at_abs b n : (n < 64)%nat -> at_ (cells (abs b)) n = get_piece b (sq_of_idx n).
Proof.
  intros H. unfold at_, abs. cbn [cells].
  apply (nth_map_seq (fun i => get_piece b (sq_of_idx i)) 64 n None H).
Qed.

Lemma cells_abs_length b : length (cells (abs b)) = 64%nat.
Proof. unfold abs. cbn [cells]. rewrite map_length, seq_length. reflexivity. Qed.

(* get_piece_kind at square index n, through the twelve occupancy bits *)
Lemma gpk_idx_cases p n : PWf p -> (n < 64)%nat ->
  (exists k, occ p k (N.of_nat n) = true /\ (forall k', k <> k' -> occ p k' (N.of_nat n) = false)
             /\ get_piece_kind p (sq_of_idx n) = PSome k) \/
  ((forall k, occ p k (N.of_nat n) = false) /\ get_piece_kind p (sq_of_idx n) = PNone).
Proof.
  intros W Hn. pose proof (sq_of_idx_valid n Hn) as V.
  destruct (gpk_cases p (sq_of_idx n) W V) as [[k [Hk E]]|[A E]]; rewrite idx_sq_of_idx in *.
  - left. exists k. split; [exact Hk|split; [|exact E]].
    intros k' Hk'. apply (occ_disjoint p k k'); assumption.
  - right. split; assumption.
Qed.

Definition color_bb (p : PBB) (c : Color) : N :=
  match c with White => white_pieces p | Black => black_pieces p end.

Lemma tb_color_bb p c n : PWf p ->
  tb (color_bb p c) n =
  let o := fun t => occ p (t, c) (N.of_nat n) in
  o Pawn || o Knight || o Bishop || o Rook || o Queen || o King.
Proof.
  intros W. unfold color_bb, tb. destruct c.
  - rewrite (pw_w p W). unfold white_union. rewrite !N.lor_spec. reflexivity.
  - rewrite (pw_b p W). unfold black_union. rewrite !N.lor_spec. reflexivity.
Qed.

Lemma color_bb_gpk p c n : PWf p -> (n < 64)%nat ->
  tb (color_bb p c) n =
  match get_piece_kind p (sq_of_idx n) with PSome k => color_eqb (snd k) c | _ => false end.
Proof.
  intros W Hn. rewrite (tb_color_bb p c n W). cbv beta zeta.
  destruct (gpk_idx_cases p n W Hn) as [[k [Hk [O E]]]|[A E]]; rewrite E.
  - destruct k as [t c']. cbn [snd]. destruct (color_eqb_spec c' c) as [->|Hc].
    + destruct t; rewrite Hk; rewrite ?orb_true_r; reflexivity.
    + repeat match goal with
             | |- context [occ p (?t', c) ?m] => rewrite (O (t', c)) by congruence
             end.
      reflexivity.
  - rewrite !A. reflexivity.
Qed.

Lemma all_pieces_gpk p n : PWf p -> (n < 64)%nat ->
  tb (all_pieces p) n =
  match get_piece_kind p (sq_of_idx n) with PSome _ => true | _ => false end.
Proof.
  intros W Hn. rewrite (pw_a p W), tb_lor.
  change (white_pieces p) with (color_bb p White). change (black_pieces p) with (color_bb p Black).
  rewrite !(color_bb_gpk p _ n W Hn).
  destruct (get_piece_kind p (sq_of_idx n)) as [|[t []]|]; reflexivity.
Qed.

Lemma bb_get_gpk p k n : PWf p -> (n < 64)%nat ->
  tb (bb_get p k) n =
  match get_piece_kind p (sq_of_idx n) with PSome k' => kind_eqb k' k | _ => false end.
Proof.
  intros W Hn. unfold tb. fold (occ p k (N.of_nat n)).
  destruct (gpk_idx_cases p n W Hn) as [[k' [Hk [O E]]]|[A E]]; rewrite E.
  - destruct (kind_eqb_spec k' k) as [->|Hne]; [exact Hk|apply O; exact Hne].
  - apply A.
Qed.

Lemma get_piece_gpk b s : get_piece b s = piece_opt (get_piece_kind (bbs b) s).
Proof. reflexivity. Qed.

(* the occupancy the engine uses is the occupancy of the mailbox *)
Lemma occupied_abs b n : pbb_wf (bbs b) = true -> (n < 64)%nat ->
  tb (all_pieces (bbs b)) n = occupied (cells (abs b)) n.
Proof.
  intros W Hn. apply pbb_wf_iff in W. unfold occupied.
  rewrite (at_abs b n Hn), get_piece_gpk, (all_pieces_gpk _ n W Hn).
  destruct (get_piece_kind (bbs b) (sq_of_idx n)); reflexivity.
Qed.

(* the union board of a colour *)
Lemma has_color_abs b c n : pbb_wf (bbs b) = true -> (n < 64)%nat ->
  tb (same_pieces b c) n = has_color (cells (abs b)) c n.
Proof.
  intros W Hn. apply pbb_wf_iff in W. unfold has_color.
  change (same_pieces b c) with (color_bb (bbs b) c).
  rewrite (at_abs b n Hn), get_piece_gpk, (color_bb_gpk _ c n W Hn).
  destruct (get_piece_kind (bbs b) (sq_of_idx n)) as [|[t c']|]; reflexivity.
Qed.

Lemma white_pieces_abs b n : pbb_wf (bbs b) = true -> (n < 64)%nat ->
  tb (white_pieces (bbs b)) n = has_color (cells (abs b)) White n.
Proof. exact (has_color_abs b White n). Qed.
Lemma black_pieces_abs b n : pbb_wf (bbs b) = true -> (n < 64)%nat ->
  tb (black_pieces (bbs b)) n = has_color (cells (abs b)) Black n.
Proof. exact (has_color_abs b Black n). Qed.

(* each of the twelve piece boards *)
Lemma has_piece_abs b k n : pbb_wf (bbs b) = true -> (n < 64)%nat ->
  tb (bb_get (bbs b) k) n = has_piece (cells (abs b)) k n.
Proof.
  intros W Hn. apply pbb_wf_iff in W. unfold has_piece.
  rewrite (at_abs b n Hn), get_piece_gpk, (bb_get_gpk _ k n W Hn).
  destruct (get_piece_kind (bbs b) (sq_of_idx n)); reflexivity.
Qed.

(* a set bit of a colour board means get_piece finds a piece of that colour there *)
Lemma same_pieces_get_piece b c n : pbb_wf (bbs b) = true -> (n < 64)%nat ->
  (tb (same_pieces b c) n = true <->
   exists k, get_piece b (sq_of_idx n) = Some k /\ snd k = c).
Proof.
  intros W Hn. apply pbb_wf_iff in W.
  change (same_pieces b c) with (color_bb (bbs b) c).
  rewrite (color_bb_gpk _ c n W Hn), get_piece_gpk.
  destruct (get_piece_kind (bbs b) (sq_of_idx n)) as [|k|]; cbn [piece_opt].
  - split; [discriminate|intros [k [H _]]; discriminate].
  - split.
    + intros H. exists k. split; [reflexivity|]. destruct (color_eqb_spec (snd k) c); congruence.
    + intros [k' [H1 H2]]. injection H1 as <-. destruct (color_eqb_spec (snd k) c); congruence.
  - split; [discriminate|intros [k [H _]]; discriminate].
Qed.

(* bits of any board of a well-formed PBB are below 64 *)
Lemma bb_get_lt b k : pbb_wf (bbs b) = true -> bb_get (bbs b) k < 2^64.
Proof. intros W. apply pbb_wf_iff in W. apply (pw_lt _ W). Qed.

(* ------------------------------------------------------------------ *)
(* 2. piece_attacks *)
Lemma slider_attacks_ext dirs s (f g : nat -> bool) :
  (forall x, (x < 64)%nat -> f x = g x) -> slider_attacks dirs s f = slider_attacks dirs s g.
Proof.
  intros H. unfold slider_attacks. apply flat_map_ext. intros d.
  apply slide_ext. intros x Hx. apply H. exact (ray_list_lt64 s d x Hx).
Qed.

Lemma slider_attacks_abs dirs b s : pbb_wf (bbs b) = true ->
  slider_attacks dirs s (tb (all_pieces (bbs b))) = slider_attacks dirs s (occupied (cells (abs b))).
Proof.
  intros W. apply slider_attacks_ext. intros x Hx. apply occupied_abs; assumption.
Qed.

(* the attack set as a set_of of the rules' target list (no restriction on the tested bit) *)
Lemma piece_attacks_set_of : forall b k s, pbb_wf (bbs b) = true -> (s < 64)%nat ->
  piece_attacks k s b = set_of (attack_targets (cells (abs b)) s k).
Proof.
  intros b [t c] s W Hs. unfold piece_attacks, attack_targets. cbn [fst snd].
  destruct t.
  - apply pawn_attacks_geo. exact Hs.
  - apply king_attacks_geo. exact Hs.
  - rewrite (queen_attacks_geo s _ Hs), !(slider_attacks_abs _ b s W). reflexivity.
  - rewrite (rook_attacks_geo s _ Hs), (slider_attacks_abs _ b s W). reflexivity.
  - rewrite (bishop_attacks_geo s _ Hs), (slider_attacks_abs _ b s W). reflexivity.
  - apply knight_attacks_geo. exact Hs.
Qed.

Lemma piece_attacks_spec : forall b k s, pbb_wf (bbs b) = true -> (s < 64)%nat ->
  forall n, (n < 64)%nat ->
  tb (piece_attacks k s b) n = memb n (attack_targets (cells (abs b)) s k).
Proof.
  intros b k s W Hs n _. rewrite (piece_attacks_set_of b k s W Hs). apply tb_set_of_memb.
Qed.

Lemma attack_targets_lt64 c s k x : In x (attack_targets c s k) -> (x < 64)%nat.
Proof.
  destruct k as [t col]. unfold attack_targets. cbn [fst snd]. destruct t; intros H.
  - eapply leaper_targets_lt64; exact H.
  - eapply leaper_targets_lt64; exact H.
  - apply in_app_or in H. destruct H as [H|H]; eapply slider_attacks_lt64; exact H.
  - eapply slider_attacks_lt64; exact H.
  - eapply slider_attacks_lt64; exact H.
  - eapply leaper_targets_lt64; exact H.
Qed.

Lemma piece_attacks_lt b k s : pbb_wf (bbs b) = true -> (s < 64)%nat ->
  piece_attacks k s b < 2^64.
Proof.
  intros W Hs. rewrite (piece_attacks_set_of b k s W Hs). apply set_of_lt.
  intros i Hi. eapply attack_targets_lt64; exact Hi.
Qed.

(* ------------------------------------------------------------------ *)
(* 3. attacked_squares *)
Lemma tb_fold_left_lor {A} (step : N -> A -> N) (h : A -> N) :
  (forall acc x, step acc x = N.lor acc (h x)) ->
  forall l a n, tb (fold_left step l a) n = tb a n || existsb (fun x => tb (h x) n) l.
Proof.
  intros Hstep. induction l as [|x t IH]; intros a n; cbn [fold_left existsb].
  - rewrite orb_false_r. reflexivity.
  - rewrite IH, Hstep, tb_lor, orb_assoc. reflexivity.
Qed.

Lemma fold_left_lor_lt {A} (step : N -> A -> N) (h : A -> N) :
  (forall acc x, step acc x = N.lor acc (h x)) ->
  forall l a, a < 2^64 -> (forall x, In x l -> h x < 2^64) -> fold_left step l a < 2^64.
Proof.
  intros Hstep l a Ha Hl. apply lt64_bits. intros n Hn.
  replace n with (N.of_nat (N.to_nat n)) by apply N2Nat.id.
  fold (tb (fold_left step l a) (N.to_nat n)).
  rewrite (tb_fold_left_lor step h Hstep). unfold tb. rewrite N2Nat.id.
  rewrite (proj1 (lt64_bits a) Ha n Hn). cbn [orb].
  destruct (existsb _ l) eqn:E; [|reflexivity].
  apply existsb_exists in E. destruct E as [x [Hx Hb]].
  rewrite (proj1 (lt64_bits (h x)) (Hl x Hx) n Hn) in Hb. discriminate.
Qed.

(* the per-square contribution of attacked_squares *)
Definition attack_contrib (b : Board) (c : Color) (s : nat) : N :=
  if tb (same_pieces b (opposite c)) s then
    match get_piece b (sq_of_idx s) with
    | Some k => piece_attacks k s b
    | None => 0
    end
  else 0.

Lemma attacked_squares_fold b c :
  attacked_squares b c
  = fold_left (fun acc s => N.lor acc (attack_contrib b c s)) (seq 0 64) 0.
Proof.
  unfold attacked_squares.
  replace (match c with White => black_pieces (bbs b) | Black => white_pieces (bbs b) end)
    with (same_pieces b (opposite c)) by (destruct c; reflexivity).
  assert (E : forall l a,
    fold_left (fun acc s =>
                 if tb (same_pieces b (opposite c)) s then
                   match get_piece b (sq_of_idx s) with
                   | Some k => N.lor acc (piece_attacks k s b)
                   | None => acc
                   end
                 else acc) l a
    = fold_left (fun acc s => N.lor acc (attack_contrib b c s)) l a).
  { induction l as [|s t IH]; intros a; cbn [fold_left]; [reflexivity|].
    rewrite IH. f_equal. unfold attack_contrib.
    destruct (tb (same_pieces b (opposite c)) s); [|symmetry; apply N.lor_0_r].
    destruct (get_piece b (sq_of_idx s)); [reflexivity|symmetry; apply N.lor_0_r]. }
  apply E.
Qed.

Lemma attack_contrib_spec b c s n : pbb_wf (bbs b) = true -> (s < 64)%nat -> (n < 64)%nat ->
  tb (attack_contrib b c s) n =
  match at_ (cells (abs b)) s with
  | Some k => if color_eqb (snd k) (opposite c)
              then memb n (attack_targets (cells (abs b)) s k) else false
  | None => false
  end.
Proof.
  intros W Hs Hn. unfold attack_contrib.
  rewrite (has_color_abs b (opposite c) s W Hs). unfold has_color.
  rewrite (at_abs b s Hs).
  destruct (get_piece b (sq_of_idx s)) as [[t c']|].
  - cbn [snd]. destruct (color_eqb c' (opposite c)).
    + apply piece_attacks_spec; assumption.
    + apply tb_0.
  - apply tb_0.
Qed.

Lemma attacked_spec : forall b c n, pbb_wf (bbs b) = true -> (n < 64)%nat ->
  tb (attacked_squares b c) n = attacked_by (cells (abs b)) (opposite c) n.
Proof.
  intros b c n W Hn. rewrite attacked_squares_fold.
  rewrite (tb_fold_left_lor (fun acc s => N.lor acc (attack_contrib b c s)) (attack_contrib b c))
    by reflexivity.
  rewrite tb_0. cbn [orb]. unfold attacked_by.
  apply existsb_ext_in. intros s Hs. apply in_seq in Hs.
  apply attack_contrib_spec; [exact W|lia|exact Hn].
Qed.

Lemma attacked_squares_lt b c : pbb_wf (bbs b) = true -> attacked_squares b c < 2^64.
Proof.
  intros W. rewrite attacked_squares_fold.
  apply (fold_left_lor_lt (fun acc s => N.lor acc (attack_contrib b c s)) (attack_contrib b c)).
  - reflexivity.
  - reflexivity.
  - intros s Hs. apply in_seq in Hs. unfold attack_contrib.
    destruct (tb _ s); [|reflexivity].
    destruct (get_piece b (sq_of_idx s)); [|reflexivity].
    apply piece_attacks_lt; [exact W|lia].
Qed.

(* ------------------------------------------------------------------ *)
(* 4. is_in_check *)
Lemma nonempty_land_existsb x y : x < 2^64 ->
  nonempty (N.land x y) = existsb (fun n => tb x n && tb y n) (seq 0 64).
Proof.
  intros Hx. apply eq_true_iff_eq. unfold nonempty. rewrite negb_true_iff, existsb_exists. split.
  - intros H. apply N.eqb_neq in H.
    pose proof (N.bit_log2 _ H) as B. set (m := N.log2 (N.land x y)) in *.
    rewrite N.land_spec in B. apply andb_true_iff in B. destruct B as [Bx By].
    assert (Hm : m < 64).
    { destruct (N.lt_ge_cases m 64) as [L|G]; [exact L|].
      rewrite (proj1 (lt64_bits x) Hx m G) in Bx. discriminate. }
    exists (N.to_nat m). split; [apply in_seq; lia|].
    unfold tb. rewrite N2Nat.id, Bx, By. reflexivity.
  - intros [n [_ H]]. apply andb_true_iff in H. destruct H as [H1 H2]. unfold tb in *.
    apply N.eqb_neq. intros Z.
    assert (B : N.testbit (N.land x y) (N.of_nat n) = true) by (rewrite N.land_spec, H1, H2; reflexivity).
    rewrite Z, N.bits_0 in B. discriminate.
Qed.

Lemma in_check_spec : forall b c, pbb_wf (bbs b) = true ->
  is_in_check b c = in_check (cells (abs b)) c.
Proof.
  intros b c W. unfold is_in_check, in_check.
  replace (match c with White => white_king (bbs b) | Black => black_king (bbs b) end)
    with (bb_get (bbs b) (King, c)) by (destruct c; reflexivity).
  rewrite (nonempty_land_existsb _ _ (bb_get_lt b (King, c) W)).
  apply existsb_ext_in. intros n Hn. apply in_seq in Hn.
  rewrite (has_piece_abs b (King, c) n W) by lia.
  rewrite (attacked_spec b c n W) by lia.
  destruct (has_piece (cells (abs b)) (King, c) n); reflexivity.
Qed.

(* the king boards, as stated in the task *)
Lemma white_king_abs b n : pbb_wf (bbs b) = true -> (n < 64)%nat ->
  tb (white_king (bbs b)) n = has_piece (cells (abs b)) (King, White) n.
Proof. exact (has_piece_abs b (King, White) n). Qed.
Lemma black_king_abs b n : pbb_wf (bbs b) = true -> (n < 64)%nat ->
  tb (black_king (bbs b)) n = has_piece (cells (abs b)) (King, Black) n.
Proof. exact (has_piece_abs b (King, Black) n). Qed.
