(* ThreadsLiveProofs.v — liveness-style facts about the input thread x search threads protocol
   (model/Threads.v): from every reachable state of the repaired variant the system can still run
   to completion (never_wedged), a stop alone ends an otherwise unbounded search (stop_suffices),
   and the unrepaired variant (flag re-armed at entry) can wedge (unrepaired_wedges). *)
From Coq Require Import List Lia Bool Arith.
Import ListNotations.
From RCE Require Import model.Threads proofs.ThreadsProofs.

(* ---------- generic facts about run ---------- *)

Lemma run_app : forall v ls1 ls2 s, run v s (ls1 ++ ls2) = run v (run v s ls1) ls2.
Proof.
  intros v ls1. induction ls1 as [|l t IH]; intros ls2 s; simpl; auto.
  destruct (step v s l); apply IH.
Qed.

Lemma run_cons : forall v l t s, run v s (l :: t) = run v (run v s [l]) t.
Proof. intros v l t s. simpl. destruct (step v s l); reflexivity. Qed.

Lemma run_reach : forall v cmds ls s, Reach v cmds s -> Reach v cmds (run v s ls).
Proof.
  intros v cmds ls. induction ls as [|l t IH]; intros s HR; simpl; auto.
  destruct (step v s l) as [s'|] eqn:Hs; apply IH; auto.
  eapply RS; eauto.
Qed.

(* ---------- generic list facts ---------- *)

Lemma set_nth_id : forall {A} (l : list A) k d, set_nth l k (nth k l d) = l.
Proof.
  intros A l. induction l as [|a t IH]; intros k d; destruct k; simpl; auto.
  rewrite IH. reflexivity.
Qed.

Lemma set_nth_set_nth : forall {A} (l : list A) k x y,
  set_nth (set_nth l k x) k y = set_nth l k y.
Proof.
  intros A l. induction l as [|a t IH]; intros k x y; destruct k; simpl; auto.
  rewrite IH. reflexivity.
Qed.

Lemma set_nth_snoc : forall {A} (l : list A) x y, set_nth (l ++ [x]) (length l) y = l ++ [y].
Proof.
  intros A l. induction l as [|a t IH]; intros x y; simpl; auto.
  rewrite IH. reflexivity.
Qed.

Lemma forallb_exited_nth : forall l,
  (forall j, j < length l -> is_exited (nth j l Exited) = true) -> forallb is_exited l = true.
Proof.
  induction l as [|a t IH]; intros H; simpl; auto.
  apply andb_true_intro. split.
  - apply (H 0). simpl. lia.
  - apply IH. intros j Hj. apply (H (S j)). simpl. lia.
Qed.

Lemma forallb_exited_pc : forall l k,
  forallb is_exited l = true -> is_exited (nth k l Exited) = true.
Proof.
  induction l as [|a t IH]; intros k H; destruct k; simpl in *; auto;
    apply andb_prop in H; destruct H as [H1 H2]; auto.
Qed.

(* ---------- one thread scheduled alone ---------- *)

Definition next (p : Pc) : Pc :=
  match p with
  | Spawned => Running | Running => Finishing | Finishing => Cleared
  | Cleared => Printed | Printed => Exited | Exited => Exited
  end.

Fixpoint nextn (n : nat) (p : Pc) : Pc :=
  match n with O => p | S n' => nextn n' (next p) end.

Lemma nextn_5 : forall p, nextn 5 p = Exited.
Proof. destruct p; reflexivity. Qed.

(* one step of thread k when it either finishes by itself or its flag is false *)
Definition Tstep (k : nat) (s s' : State) : Prop :=
  pcs s' = set_nth (pcs s) k (next (pc s k)) /\
  pending s' = pending s /\
  (flag s k = false -> flag s' k = false).

Lemma thread_step_run : forall s k fin,
  k < length (pcs s) -> (fin = true \/ flag s k = false) ->
  Tstep k s (run fixed s [LThread k fin]).
Proof.
  intros s k fin Hk Hc.
  assert (Hkb : (k <? length (pcs s)) = true) by (apply Nat.ltb_lt; exact Hk).
  assert (Hor : negb (flag s k) || fin = true).
  { destruct Hc as [-> | ->]; [apply orb_true_r | reflexivity]. }
  unfold Tstep, run, step, fixed. cbn [rearm]. rewrite Hkb.
  destruct (pc s k) eqn:Hpc; cbn [next].
  - unfold set_pc; cbn. repeat split; auto.
  - rewrite Hor. unfold set_pc; cbn. repeat split; auto.
  - unfold set_pc, set_flag, flag; cbn. repeat split; auto.
    intros Hf. rewrite nth_set_nth.
    destruct ((k =? k) && (k <? length (flags s))); auto.
  - unfold set_pc, add_log; cbn. repeat split; auto.
  - unfold set_pc; cbn. repeat split; auto.
  - repeat split; auto. unfold pc in Hpc. rewrite <- Hpc. symmetry. apply set_nth_id.
Qed.

Lemma thread_steps_run : forall n s k fin,
  k < length (pcs s) -> (fin = true \/ flag s k = false) ->
  pcs (run fixed s (repeat (LThread k fin) n)) = set_nth (pcs s) k (nextn n (pc s k)) /\
  pending (run fixed s (repeat (LThread k fin) n)) = pending s.
Proof.
  induction n as [|n IH]; intros s k fin Hk Hc.
  - simpl. split; auto. unfold pc. symmetry. apply set_nth_id.
  - cbn [repeat]. rewrite run_cons.
    destruct (thread_step_run s k fin Hk Hc) as (Hpcs & Hpd & Hfl).
    remember (run fixed s [LThread k fin]) as s1 eqn:Es1.
    assert (Hk1 : k < length (pcs s1)) by (rewrite Hpcs, length_set_nth; exact Hk).
    assert (Hc1 : fin = true \/ flag s1 k = false).
    { destruct Hc as [Hc|Hc]; [left; exact Hc | right; apply Hfl; exact Hc]. }
    destruct (IH s1 k fin Hk1 Hc1) as (Hpcs' & Hpd').
    split.
    + rewrite Hpcs'. unfold pc at 1. rewrite Hpcs.
      rewrite nth_set_nth_same by exact Hk.
      rewrite set_nth_set_nth. reflexivity.
    + rewrite Hpd'. exact Hpd.
Qed.

Lemma finish_thread_run : forall s k fin,
  k < length (pcs s) -> (fin = true \/ flag s k = false) ->
  pcs (run fixed s (repeat (LThread k fin) 5)) = set_nth (pcs s) k Exited /\
  pending (run fixed s (repeat (LThread k fin) 5)) = pending s.
Proof.
  intros s k fin Hk Hc.
  destruct (thread_steps_run 5 s k fin Hk Hc) as (H1 & H2).
  rewrite nextn_5 in H1. split; assumption.
Qed.

(* ---------- all threads, one after the other ---------- *)

Lemma drain_threads : forall n s,
  n <= length (pcs s) ->
  exists ls, length ls <= 5 * n /\
             pending (run fixed s ls) = pending s /\
             length (pcs (run fixed s ls)) = length (pcs s) /\
             (forall j, j < n -> pc (run fixed s ls) j = Exited).
Proof.
  induction n as [|n IH]; intros s Hn.
  - exists []. simpl. repeat split; auto. intros j Hj. lia.
  - destruct (IH s) as (ls & Hlen & Hpd & Hlp & Hex); [lia|].
    remember (run fixed s ls) as s1 eqn:Es1.
    assert (Hk : n < length (pcs s1)) by lia.
    destruct (finish_thread_run s1 n true Hk (or_introl eq_refl)) as (Hpcs & Hpd').
    exists (ls ++ repeat (LThread n true) 5).
    rewrite run_app, <- Es1.
    split; [|split; [|split]].
    + rewrite app_length, repeat_length. lia.
    + rewrite Hpd'. exact Hpd.
    + rewrite Hpcs, length_set_nth. exact Hlp.
    + intros j Hj. unfold pc. rewrite Hpcs, nth_set_nth.
      destruct (Nat.eqb_spec j n) as [->|Hne].
      * apply Nat.ltb_lt in Hk. rewrite Hk. reflexivity.
      * simpl. apply Hex. lia.
Qed.

Lemma drain_threads_all : forall s,
  exists ls, length ls <= 5 * length (pcs s) /\
             pending (run fixed s ls) = pending s /\
             all_exited (run fixed s ls) = true.
Proof.
  intros s. destruct (drain_threads (length (pcs s)) s (le_n _)) as (ls & Hlen & Hpd & Hlp & Hex).
  exists ls. repeat split; auto.
  unfold all_exited. apply forallb_exited_nth. intros j Hj.
  rewrite Hlp in Hj. specialize (Hex j Hj). unfold pc in Hex. rewrite Hex. reflexivity.
Qed.

(* ---------- the pending commands, one at a time ---------- *)

Lemma go_when_exited : forall s rest,
  pending s = CmdGo :: rest -> all_exited s = true -> step fixed s LInput = Some (spawn s).
Proof.
  intros s rest Hp He. unfold step. rewrite Hp. unfold fixed; cbn [old_go].
  destruct (latest s) as [k|]; auto.
  assert (Hx : is_exited (pc s k) = true) by (apply forallb_exited_pc; exact He).
  rewrite Hx. simpl. rewrite andb_false_r. reflexivity.
Qed.

Lemma drain_cmds : forall p s,
  pending s = p -> all_exited s = true ->
  exists ls, length ls <= 6 * length p /\
             pending (run fixed s ls) = [] /\
             all_exited (run fixed s ls) = true.
Proof.
  induction p as [|c rest IH]; intros s Hp He.
  - exists []. simpl. repeat split; auto.
  - assert (Hnospawn : forall s', step fixed s LInput = Some s' ->
                                  pending s' = rest -> pcs s' = pcs s ->
              exists ls, length ls <= 6 * length (c :: rest) /\
                         pending (run fixed s ls) = [] /\ all_exited (run fixed s ls) = true).
    { intros s' Hs Hp' Hpc'.
      destruct (IH s' Hp') as (ls & Hlen & Hpd & Hex).
      { unfold all_exited. rewrite Hpc'. exact He. }
      exists (LInput :: ls). cbn [run]. rewrite Hs.
      repeat split; auto. simpl length. lia. }
    destruct c.
    + (* go: spawn, then let the new thread finish *)
      pose proof (go_when_exited s rest Hp He) as Hs.
      set (k := length (pcs s)).
      assert (Hk : k < length (pcs (spawn s))).
      { unfold spawn; cbn. rewrite app_length. simpl. unfold k. lia. }
      destruct (finish_thread_run (spawn s) k true Hk (or_introl eq_refl)) as (Hpcs & Hpd).
      remember (run fixed (spawn s) (repeat (LThread k true) 5)) as s2 eqn:Es2.
      assert (Hp2 : pending s2 = rest).
      { rewrite Hpd. unfold spawn; cbn. rewrite Hp. reflexivity. }
      assert (He2 : all_exited s2 = true).
      { unfold all_exited. rewrite Hpcs. unfold spawn; cbn. unfold k.
        rewrite set_nth_snoc, forallb_app. unfold all_exited in He. rewrite He. reflexivity. }
      destruct (IH s2 Hp2 He2) as (ls & Hlen & Hpd' & Hex').
      exists (LInput :: repeat (LThread k true) 5 ++ ls).
      cbn [run]. rewrite Hs. rewrite run_app, <- Es2.
      repeat split; auto.
      cbn [length]. rewrite app_length, repeat_length. lia.
    + (* stop *)
      unfold step in Hnospawn. rewrite Hp in Hnospawn.
      destruct (latest s) as [k|].
      * apply (Hnospawn _ eq_refl); unfold set_flag, pop_cmd; cbn; try rewrite Hp; reflexivity.
      * apply (Hnospawn _ eq_refl); unfold pop_cmd; cbn; try rewrite Hp; reflexivity.
    + (* isready *)
      unfold step in Hnospawn. rewrite Hp in Hnospawn.
      apply (Hnospawn _ eq_refl); unfold add_log, pop_cmd; cbn; try rewrite Hp; reflexivity.
    + (* position *)
      unfold step in Hnospawn. rewrite Hp in Hnospawn.
      apply (Hnospawn _ eq_refl); unfold pop_cmd; cbn; try rewrite Hp; reflexivity.
Qed.

(* ---------- never wedged ---------- *)

Lemma can_complete : forall s,
  exists ls, length ls <= 6 * (length (pcs s) + length (pending s)) + length (pending s)
             /\ pending (run fixed s ls) = []
             /\ all_exited (run fixed s ls) = true.
Proof.
  intros s.
  destruct (drain_threads_all s) as (ls1 & Hlen1 & Hpd1 & Hex1).
  destruct (drain_cmds (pending s) (run fixed s ls1) Hpd1 Hex1) as (ls2 & Hlen2 & Hpd2 & Hex2).
  exists (ls1 ++ ls2). rewrite run_app.
  repeat split; auto. rewrite app_length. lia.
Qed.

Lemma never_wedged : forall cmds s,
  Reach fixed cmds s ->
  exists ls, length ls <= 6 * (length (pcs s) + length (pending s)) + length (pending s)
             /\ pending (run fixed s ls) = []
             /\ all_exited (run fixed s ls) = true
             /\ total_bestmoves (run fixed s ls) = total_accepted (run fixed s ls).
Proof.
  intros cmds s HR. destruct (can_complete s) as (ls & Hlen & Hpd & Hex).
  exists ls. repeat split; auto.
  apply (answers cmds). - apply run_reach; exact HR. - exact Hex.
Qed.

(* ---------- a stop alone suffices ---------- *)

Lemma thread_step_frame : forall v s k fin s',
  step v s (LThread k fin) = Some s' ->
  pending s' = pending s /\ latest s' = latest s /\ length (pcs s') = length (pcs s).
Proof.
  intros v s k fin s' Hs. unfold step in Hs.
  destruct (k <? length (pcs s)); [|discriminate].
  destruct (pc s k).
  - inversion Hs; subst s'. destruct (rearm v); cbn; rewrite length_set_nth; auto.
  - destruct (negb (flag s k) || fin); inversion Hs; subst s'; cbn;
      rewrite ?length_set_nth; auto.
  - inversion Hs; subst s'. cbn. rewrite length_set_nth. auto.
  - inversion Hs; subst s'. cbn. rewrite length_set_nth. auto.
  - inversion Hs; subst s'. cbn. rewrite length_set_nth. auto.
  - discriminate.
Qed.

(* the reachable states of the two-line session go / stop *)
Definition GS (s : State) : Prop :=
  (pending s = [CmdGo; CmdStop] /\ pcs s = [] /\ latest s = None) \/
  (pending s = [CmdStop] /\ length (pcs s) = 1 /\ latest s = Some 0) \/
  (pending s = [] /\ length (pcs s) = 1 /\ latest s = Some 0 /\ flag s 0 = false).

Lemma GS_reach : forall s, Reach fixed [CmdGo; CmdStop] s -> GS s.
Proof.
  intros s HR. induction HR as [|s l s' HR IH Hs].
  - left. cbn. auto.
  - destruct IH as [(Hp & Hpc & Hl)|[(Hp & Hn & Hl)|(Hp & Hn & Hl & Hf)]].
    + destruct l as [|k fin].
      * unfold step in Hs. rewrite Hp, Hl in Hs. inversion Hs; subst s'.
        right; left. unfold spawn; cbn. rewrite Hp, Hpc. cbn. auto.
      * unfold step in Hs. rewrite Hpc in Hs. cbn in Hs.
        destruct (k <? 0) eqn:Hk; [apply Nat.ltb_lt in Hk; lia | discriminate].
    + destruct l as [|k fin].
      * unfold step in Hs. rewrite Hp, Hl in Hs. inversion Hs; subst s'.
        right; right. unfold set_flag, pop_cmd, flag; cbn. rewrite Hp. cbn.
        repeat split; auto. destruct (flags s); reflexivity.
      * destruct (thread_step_frame _ _ _ _ _ Hs) as (Hp' & Hl' & Hn').
        right; left. rewrite Hp', Hl', Hn'. auto.
    + destruct l as [|k fin].
      * unfold step in Hs. rewrite Hp in Hs. discriminate.
      * destruct (thread_step_frame _ _ _ _ _ Hs) as (Hp' & Hl' & Hn').
        right; right. rewrite Hp', Hl', Hn'. repeat split; auto.
        apply (flag_stays_cleared _ s (LThread k fin) s' 0 HR); auto. lia.
Qed.

Lemma stop_suffices : forall s k,
  Reach fixed [CmdGo; CmdStop] s -> pending s = [] -> latest s = Some k ->
  exists ls, Forall (fun l => match l with LThread _ fin => fin = false | LInput => True end) ls
             /\ all_exited (run fixed s ls) = true
             /\ count_bestmoves (run fixed s ls) k = 1.
Proof.
  intros s k HR Hp Hl.
  destruct (GS_reach s HR) as [(Hp' & _)|[(Hp' & _)|(_ & Hn & Hl' & Hf)]];
    try (rewrite Hp in Hp'; discriminate).
  rewrite Hl in Hl'. inversion Hl'; subst k.
  exists (repeat (LThread 0 false) 5).
  assert (Hk : 0 < length (pcs s)) by lia.
  destruct (finish_thread_run s 0 false Hk (or_intror Hf)) as (Hpcs & _).
  assert (HR' : Reach fixed [CmdGo; CmdStop] (run fixed s (repeat (LThread 0 false) 5)))
    by (apply run_reach; exact HR).
  remember (run fixed s (repeat (LThread 0 false) 5)) as s2 eqn:Es2.
  assert (Hpcs2 : pcs s2 = [Exited]).
  { rewrite Hpcs. destruct (pcs s) as [|p [|q t]]; simpl in Hn; try discriminate. reflexivity. }
  split; [|split].
  - apply Forall_forall. intros x Hx. apply repeat_spec in Hx. subst x. reflexivity.
  - unfold all_exited. rewrite Hpcs2. reflexivity.
  - rewrite (one_bestmove _ s2 0 HR').
    + unfold pc. rewrite Hpcs2. reflexivity.
    + rewrite Hpcs2. simpl. lia.
Qed.

(* ---------- the unrepaired variant can wedge ---------- *)

Definition unrepaired : Variant := mkVariant true false.

Definition Wedged (s : State) : Prop :=
  pending s = [] /\ pcs s = [Running] /\ flags s = [true].

Lemma wedged_step : forall s l,
  Wedged s -> match l with LThread _ fin => fin = false | LInput => True end ->
  step unrepaired s l = None \/ step unrepaired s l = Some s.
Proof.
  intros s l (Hp & Hpc & Hfl) Hl. destruct l as [|k fin].
  - left. unfold step. rewrite Hp. reflexivity.
  - subst fin. unfold step, pc, flag. rewrite Hpc, Hfl.
    destruct k as [|k]; cbn; auto.
Qed.

Lemma wedged_run : forall ls s,
  Wedged s ->
  Forall (fun l => match l with LThread _ fin => fin = false | LInput => True end) ls ->
  run unrepaired s ls = s.
Proof.
  induction ls as [|l t IH]; intros s HW HF; simpl; auto.
  inversion HF as [|x y Hl Ht]; subst.
  destruct (wedged_step s l HW Hl) as [-> | ->]; apply IH; auto.
Qed.

Lemma unrepaired_wedges : exists ls0,
  let s := run (mkVariant true false) (init [CmdGo; CmdStop]) ls0 in
  pending s = []
  /\ forall ls, Forall (fun l => match l with LThread _ fin => fin = false | LInput => True end) ls ->
                all_exited (run (mkVariant true false) s ls) = false.
Proof.
  exists [LInput; LInput; LThread 0 false]. intros s.
  assert (HW : Wedged s) by (subst s; vm_compute; auto).
  split.
  - destruct HW as (Hp & _). exact Hp.
  - intros ls HF. change (mkVariant true false) with unrepaired.
    rewrite (wedged_run ls s HW HF).
    destruct HW as (_ & Hpc & _). unfold all_exited. rewrite Hpc. reflexivity.
Qed.
