(* finite sweeps: rays, leaper tables, agreement of dumped tables with the model *)
From Coq Require Import NArith List.
From RCE Require Import lib.Bits lib.Geometry generated.Consts model.Tables proofs.TablesProofs.
Lemma rays_sweep_ok : rays_sweep = true.
Proof. vm_cast_no_check (eq_refl true). Qed.
Lemma knight_sweep_ok : leaper_sweep knight_model knight_deltas = true.
Proof. vm_cast_no_check (eq_refl true). Qed.
Lemma king_sweep_ok : leaper_sweep king_model king_deltas = true.
Proof. vm_cast_no_check (eq_refl true). Qed.
Lemma wpawn_sweep_ok : leaper_sweep wpawn_model wpawn_deltas = true.
Proof. vm_cast_no_check (eq_refl true). Qed.
Lemma bpawn_sweep_ok : leaper_sweep bpawn_model bpawn_deltas = true.
Proof. vm_cast_no_check (eq_refl true). Qed.
Lemma gen_tables_agree_ok : gen_tables_agree = true.
Proof. vm_cast_no_check (eq_refl true). Qed.
