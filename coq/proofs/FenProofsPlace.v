(* FenProofsPlace.v — C07 part 3, the piece-placement field: the engine's index loop and the
   rank-by-rank reader of SpecFen.v describe the same 64 cells. *)
From Coq Require Import NArith ZArith List Lia Bool Ascii String.
Import ListNotations.
From RCE Require Import lib.Bits model.Board model.Wf model.Fen spec.Rules spec.SpecFen
  proofs.FenProofsCore.
Open Scope N_scope.

(* ------------------------------------------------------------------ *)
(* strings *)

Lemma sapp_nil_r s : (s ++ "")%string = s.
Proof. induction s as [|c t IH]; cbn [append]; [reflexivity|rewrite IH; reflexivity]. Qed.

Lemma sapp_assoc a b c : ((a ++ b) ++ c)%string = (a ++ (b ++ c))%string.
Proof. induction a as [|x t IH]; cbn [append]; [reflexivity|rewrite IH; reflexivity]. Qed.

Fixpoint join (sep : ascii) (l : list string) : string :=
  match l with
  | [] => ""
  | x :: t => match t with [] => x | _ => (x ++ String sep (join sep t))%string end
  end.

Lemma split_on_nonempty sep s cur : split_on sep s cur <> [].
Proof.
  revert cur. induction s as [|c t IH]; intros cur; cbn [split_on]; [discriminate|].
  destruct (Ascii.eqb c sep); [discriminate|apply IH].
Qed.

Lemma split_on_join sep s cur : (cur ++ s)%string = join sep (split_on sep s cur).
Proof.
  revert cur. induction s as [|c t IH]; intros cur; cbn [split_on].
  - cbn [join]. apply sapp_nil_r.
  - destruct (Ascii.eqb_spec c sep) as [->|Hne].
    + pose proof (split_on_nonempty sep t "") as Hn. pose proof (IH ""%string) as IH0.
      cbn [join]. destruct (split_on sep t "") as [|y l]; [contradiction|].
      rewrite <- IH0. reflexivity.
    + rewrite <- IH, sapp_assoc. reflexivity.
Qed.

(* ------------------------------------------------------------------ *)
(* characters *)

Lemma piece_eq c : fen_piece c = piece_of_char c.
Proof. destruct c as [[] [] [] [] [] [] [] []]; reflexivity. Qed.

Lemma is_ws_false c :
  nat_of_ascii c <> 32%nat -> nat_of_ascii c <> 9%nat -> nat_of_ascii c <> 10%nat ->
  nat_of_ascii c <> 12%nat -> nat_of_ascii c <> 13%nat -> is_ws c = false.
Proof.
  intros H1 H2 H3 H4 H5. unfold is_ws.
  repeat match goal with |- context [Nat.eqb ?a ?b] => destruct (Nat.eqb_spec a b); [contradiction|] end.
  reflexivity.
Qed.

Lemma fen_piece_nows c k : fen_piece c = Some k -> is_ws c = false.
Proof. destruct c as [[] [] [] [] [] [] [] []]; vm_compute; intros; try discriminate; reflexivity. Qed.

Fixpoint nows (s : string) : bool :=
  match s with
  | EmptyString => true
  | String c t => negb (is_ws c) && nows t
  end.

Lemma nows_app a b : nows (a ++ b) = nows a && nows b.
Proof. induction a as [|c t IH]; cbn [append nows]; [reflexivity|rewrite IH, andb_assoc; reflexivity]. Qed.

(* ------------------------------------------------------------------ *)
(* the loop *)

Definition fl (i : N) : N := 8 * (7 - i / 8) + i mod 8.
Definition flipn (j : nat) : nat := (8 * (7 - j / 8) + j mod 8)%nat.

Lemma placement_cons c t i a :
  placement (String c t) i a =
  if N.leb 64 i then None
  else match fen_piece c with
       | Some k => placement t (i + 1) (acc_or a k (N.shiftl 1 (fl i)))
       | None =>
         if Nat.leb 49 (nat_of_ascii c) && Nat.leb (nat_of_ascii c) 56
         then placement t (i + N.of_nat (nat_of_ascii c - 48)) a
         else if Nat.eqb (nat_of_ascii c) 47 then (if N.eqb i 0 then None else placement t i a)
         else None
       end.
Proof. reflexivity. Qed.

Lemma placement_nows s : forall i a a', placement s i a = Some a' -> nows s = true.
Proof.
  induction s as [|c t IH]; intros i a a' H; [reflexivity|].
  rewrite placement_cons in H. cbn [nows].
  destruct (N.leb 64 i); [discriminate|].
  destruct (fen_piece c) as [k|] eqn:Ef.
  - rewrite (fen_piece_nows c k Ef), (IH _ _ _ H). reflexivity.
  - destruct (Nat.leb 49 (nat_of_ascii c) && Nat.leb (nat_of_ascii c) 56) eqn:Ed.
    + apply andb_true_iff in Ed. destruct Ed as [E1 E2].
      apply Nat.leb_le in E1. apply Nat.leb_le in E2.
      rewrite is_ws_false by lia. rewrite (IH _ _ _ H). reflexivity.
    + destruct (Nat.eqb_spec (nat_of_ascii c) 47) as [E|E]; [|discriminate].
      destruct (N.eqb i 0); [discriminate|].
      rewrite is_ws_false by lia. rewrite (IH _ _ _ H). reflexivity.
Qed.

Fixpoint put (a : acc12) (i : N) (cs : list (option Kind)) : acc12 :=
  match cs with
  | [] => a
  | None :: t => put a (i + 1) t
  | Some k :: t => put (acc_or a k (N.shiftl 1 (fl i))) (i + 1) t
  end.

Lemma put_repeat_none d : forall a i rest,
  put a i (repeat None d ++ rest)%list = put a (i + N.of_nat d) rest.
Proof.
  induction d as [|d IH]; intros a i rest.
  - cbn [repeat app]. rewrite N.add_0_r. reflexivity.
  - cbn [repeat app put]. rewrite IH. f_equal. lia.
Qed.

Lemma put_app l1 : forall a i l2,
  put a i (l1 ++ l2)%list = put (put a i l1) (i + N.of_nat (List.length l1)) l2.
Proof.
  induction l1 as [|[k|] t IH]; intros a i l2.
  - cbn [app put List.length]. rewrite N.add_0_r. reflexivity.
  - cbn [app put List.length]. rewrite IH. f_equal. lia.
  - cbn [app put List.length]. rewrite IH. f_equal. lia.
Qed.

Lemma placement_rank r : forall cs, rank_cells r = Some cs ->
  forall t i a, i + N.of_nat (List.length cs) <= 64 ->
  placement (r ++ t) i a = placement t (i + N.of_nat (List.length cs)) (put a i cs).
Proof.
  induction r as [|c r' IH]; intros cs H t i a Hi.
  - cbn [rank_cells] in H. inversion H. subst cs. cbn [append put List.length].
    rewrite N.add_0_r. reflexivity.
  - cbn [rank_cells] in H. destruct (rank_cells r') as [rest|] eqn:Er; [|discriminate].
    specialize (IH rest eq_refl). cbn [append]. rewrite placement_cons, piece_eq.
    destruct (piece_of_char c) as [k|] eqn:Ep.
    + inversion H. subst cs. cbn [List.length] in Hi |- *.
      replace (N.leb 64 i) with false by (symmetry; apply N.leb_gt; lia).
      rewrite IH by lia. cbn [put]. f_equal. lia.
    + destruct (Nat.leb 49 (nat_of_ascii c) && Nat.leb (nat_of_ascii c) 56) eqn:Ed; [|discriminate].
      inversion H. subst cs. rewrite app_length, repeat_length in Hi |- *.
      apply andb_true_iff in Ed. destruct Ed as [E1 E2].
      apply Nat.leb_le in E1. apply Nat.leb_le in E2.
      replace (N.leb 64 i) with false by (symmetry; apply N.leb_gt; lia).
      rewrite IH by lia. rewrite put_repeat_none. f_equal. lia.
Qed.

Lemma placement_slash t i a : i <> 0 -> i < 64 ->
  placement (String "/" t) i a = placement t i a.
Proof.
  intros H0 H1. rewrite placement_cons.
  replace (N.leb 64 i) with false by (symmetry; apply N.leb_gt; lia).
  change (fen_piece "/") with (@None Kind). change (nat_of_ascii "/") with 47%nat.
  change (Nat.leb 49 47 && Nat.leb 47 56) with false. change (Nat.eqb 47 47) with true.
  cbv iota. destruct (N.eqb_spec i 0); [contradiction|reflexivity].
Qed.

(* ------------------------------------------------------------------ *)
(* the bits of the accumulators *)

Lemma kind_eqb_eq k k' : kind_eqb k k' = true <-> k = k'.
Proof.
  destruct k as [[] []], k' as [[] []]; cbn; split; intros H; try reflexivity; try discriminate.
Qed.

Lemma shiftl1_bit x n : N.testbit (N.shiftl 1 x) n = N.eqb x n.
Proof. rewrite N.shiftl_1_l. apply N.pow2_bits_eqb. Qed.

Lemma put_spec cs : forall a i K n,
  N.testbit (put a i cs K) n = true <->
  N.testbit (a K) n = true \/ exists j, nth_error cs j = Some (Some K) /\ n = fl (i + N.of_nat j).
Proof.
  induction cs as [|[k|] t IH]; intros a i K n.
  - cbn [put]. split; [intros H; left; exact H|].
    intros [H|[j [Hj _]]]; [exact H|]. destruct j; discriminate.
  - cbn [put]. rewrite IH. unfold acc_or at 1. split.
    + intros [H|[j [Hj Hn]]].
      * destruct (kind_eqb k K) eqn:Ek; [|left; exact H].
        rewrite N.lor_spec, shiftl1_bit in H. apply orb_true_iff in H. destruct H as [H|H]; [left; exact H|].
        right. exists 0%nat. apply kind_eqb_eq in Ek. subst k. split; [reflexivity|].
        apply N.eqb_eq in H. rewrite N.add_0_r. symmetry. exact H.
      * right. exists (S j). split; [exact Hj|]. rewrite Hn. f_equal. lia.
    + intros [H|[j [Hj Hn]]].
      * left. destruct (kind_eqb k K); [|exact H]. rewrite N.lor_spec, H. reflexivity.
      * destruct j as [|j].
        -- cbn [nth_error] in Hj. inversion Hj. subst k. left.
           assert (Ek : kind_eqb K K = true) by (apply kind_eqb_eq; reflexivity).
           rewrite Ek, N.lor_spec, shiftl1_bit. rewrite N.add_0_r in Hn. subst n.
           rewrite N.eqb_refl. apply orb_true_r.
        -- right. exists j. split; [exact Hj|]. rewrite Hn. f_equal. lia.
  - cbn [put]. rewrite IH. split.
    + intros [H|[j [Hj Hn]]]; [left; exact H|].
      right. exists (S j). split; [exact Hj|]. rewrite Hn. f_equal. lia.
    + intros [H|[j [Hj Hn]]]; [left; exact H|].
      destruct j as [|j]; [discriminate|].
      right. exists j. split; [exact Hj|]. rewrite Hn. f_equal. lia.
Qed.

(* ------------------------------------------------------------------ *)
(* from reading order (rank 8 first) to cell order (rank 1 first) *)

Lemma len8 {A} (l : list A) : List.length l = 8%nat ->
  exists x0 x1 x2 x3 x4 x5 x6 x7, l = [x0; x1; x2; x3; x4; x5; x6; x7].
Proof.
  intros H. do 8 (destruct l as [|? l]; [discriminate|]). destruct l; [|discriminate].
  repeat eexists.
Qed.

Lemma flip_nth_error {A} (c1 c2 c3 c4 c5 c6 c7 c8 : list A) :
  List.length c1 = 8%nat -> List.length c2 = 8%nat -> List.length c3 = 8%nat -> List.length c4 = 8%nat ->
  List.length c5 = 8%nat -> List.length c6 = 8%nat -> List.length c7 = 8%nat -> List.length c8 = 8%nat ->
  forall j, (j < 64)%nat ->
  nth_error (c8 ++ c7 ++ c6 ++ c5 ++ c4 ++ c3 ++ c2 ++ c1)%list j =
  nth_error (c1 ++ c2 ++ c3 ++ c4 ++ c5 ++ c6 ++ c7 ++ c8)%list (flipn j).
Proof.
  intros H1 H2 H3 H4 H5 H6 H7 H8.
  destruct (len8 _ H1) as (? & ? & ? & ? & ? & ? & ? & ? & ->).
  destruct (len8 _ H2) as (? & ? & ? & ? & ? & ? & ? & ? & ->).
  destruct (len8 _ H3) as (? & ? & ? & ? & ? & ? & ? & ? & ->).
  destruct (len8 _ H4) as (? & ? & ? & ? & ? & ? & ? & ? & ->).
  destruct (len8 _ H5) as (? & ? & ? & ? & ? & ? & ? & ? & ->).
  destruct (len8 _ H6) as (? & ? & ? & ? & ? & ? & ? & ? & ->).
  destruct (len8 _ H7) as (? & ? & ? & ? & ? & ? & ? & ? & ->).
  destruct (len8 _ H8) as (? & ? & ? & ? & ? & ? & ? & ? & ->).
  clear. intros j Hj.
  do 64 (destruct j as [|j]; [reflexivity|]). lia.
Qed.

Lemma flip_sweep :
  forallb (fun j => N.eqb (fl (N.of_nat j)) (N.of_nat (flipn j)) && Nat.eqb (flipn (flipn j)) j
                    && Nat.ltb (flipn j) 64) (seq 0 64) = true.
Proof. vm_compute. reflexivity. Qed.

Lemma flip_facts j : (j < 64)%nat ->
  fl (N.of_nat j) = N.of_nat (flipn j) /\ flipn (flipn j) = j /\ (flipn j < 64)%nat.
Proof.
  intros H. pose proof flip_sweep as S. rewrite forallb_forall in S.
  specialize (S j). rewrite in_seq in S. specialize (S ltac:(lia)).
  apply andb_true_iff in S. destruct S as [S S3]. apply andb_true_iff in S. destruct S as [S1 S2].
  apply N.eqb_eq in S1. apply Nat.eqb_eq in S2. apply Nat.ltb_lt in S3. auto.
Qed.

Lemma rank8_spec r c : rank8 r = Some c -> rank_cells r = Some c /\ List.length c = 8%nat.
Proof.
  unfold rank8. destruct (rank_cells r) as [l|]; [|discriminate].
  destruct (Nat.eqb_spec (List.length l) 8); [|discriminate]. intros H. inversion H. subst. auto.
Qed.

(* the main statement about the placement field *)
Theorem placement_agrees pl cells :
  placement_cells pl = Some cells ->
  exists a, placement pl 0 acc_empty = Some a
            /\ List.length cells = 64%nat
            /\ forall K n, N.testbit (a K) n = true <->
                           exists m, (m < 64)%nat /\ n = N.of_nat m /\ nth_error cells m = Some (Some K).
Proof.
  unfold placement_cells. intros H.
  destruct (split_on "/" pl "") as [|r8 [|r7 [|r6 [|r5 [|r4 [|r3 [|r2 [|r1 [|]]]]]]]]] eqn:Es; try discriminate.
  pose proof (split_on_join "/" pl "") as Hj. rewrite Es in Hj. cbn [join append] in Hj.
  destruct (rank8 r1) as [c1|] eqn:E1; [|discriminate].
  destruct (rank8 r2) as [c2|] eqn:E2; [|discriminate].
  destruct (rank8 r3) as [c3|] eqn:E3; [|discriminate].
  destruct (rank8 r4) as [c4|] eqn:E4; [|discriminate].
  destruct (rank8 r5) as [c5|] eqn:E5; [|discriminate].
  destruct (rank8 r6) as [c6|] eqn:E6; [|discriminate].
  destruct (rank8 r7) as [c7|] eqn:E7; [|discriminate].
  destruct (rank8 r8) as [c8|] eqn:E8; [|discriminate].
  inversion H. subst cells. clear H.
  apply rank8_spec in E1, E2, E3, E4, E5, E6, E7, E8.
  destruct E1 as [R1 L1], E2 as [R2 L2], E3 as [R3 L3], E4 as [R4 L4],
           E5 as [R5 L5], E6 as [R6 L6], E7 as [R7 L7], E8 as [R8 L8].
  exists (put acc_empty 0 (c8 ++ c7 ++ c6 ++ c5 ++ c4 ++ c3 ++ c2 ++ c1)%list).
  split; [|split].
  - rewrite Hj.
    rewrite (placement_rank r8 c8 R8) by (rewrite L8; lia). rewrite L8, placement_slash by lia.
    rewrite (placement_rank r7 c7 R7) by (rewrite L7; lia). rewrite L7, placement_slash by lia.
    rewrite (placement_rank r6 c6 R6) by (rewrite L6; lia). rewrite L6, placement_slash by lia.
    rewrite (placement_rank r5 c5 R5) by (rewrite L5; lia). rewrite L5, placement_slash by lia.
    rewrite (placement_rank r4 c4 R4) by (rewrite L4; lia). rewrite L4, placement_slash by lia.
    rewrite (placement_rank r3 c3 R3) by (rewrite L3; lia). rewrite L3, placement_slash by lia.
    rewrite (placement_rank r2 c2 R2) by (rewrite L2; lia). rewrite L2, placement_slash by lia.
    rewrite <- (sapp_nil_r r1).
    rewrite (placement_rank r1 c1 R1) by (rewrite L1; lia). rewrite L1.
    cbn [placement]. f_equal.
    rewrite !put_app, L8, L7, L6, L5, L4, L3, L2. reflexivity.
  - rewrite !app_length, L1, L2, L3, L4, L5, L6, L7, L8. reflexivity.
  - intros K n. rewrite put_spec. unfold acc_empty at 1. rewrite N.bits_0. split.
    + intros [H|[j [Hj' Hn]]]; [discriminate|].
      assert (Hlt : (j < 64)%nat).
      { apply (f_equal (@Some _)) in Hj'. assert (Hs : nth_error (c8 ++ c7 ++ c6 ++ c5 ++ c4 ++ c3 ++ c2 ++ c1)%list j <> None) by congruence.
        apply nth_error_Some in Hs. rewrite !app_length, L1, L2, L3, L4, L5, L6, L7, L8 in Hs. exact Hs. }
      destruct (flip_facts j Hlt) as (F1 & F2 & F3).
      exists (flipn j). split; [exact F3|]. split; [rewrite Hn, N.add_0_l; exact F1|].
      rewrite <- (flip_nth_error c1 c2 c3 c4 c5 c6 c7 c8) by assumption. exact Hj'.
    + intros (m & Hm & Hn & Hc). right.
      destruct (flip_facts m Hm) as (F1 & F2 & F3).
      exists (flipn m). split.
      * rewrite (flip_nth_error c1 c2 c3 c4 c5 c6 c7 c8) by assumption. rewrite F2. exact Hc.
      * rewrite N.add_0_l. destruct (flip_facts (flipn m) F3) as (G1 & _ & _).
        rewrite G1, F2. exact Hn.
Qed.
