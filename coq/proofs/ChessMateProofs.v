(* ChessMateProofs.v — C12 with the cache neutralised (the off_ theorems of MateValueProofs) instantiated with the
   chess model, and the link between the notions of those statements (mated / mates / keeps_mate2 /
   allows_mate1 / fresh, instantiated) and the boolean mate oracle of model/ChessSearch.v
   (is_mated, mating_moves, keeps_mate 1, allows_mate_in_one) and the boolean test freshb. *)
From Coq Require Import NArith ZArith List Lia Bool String.
Import ListNotations.
From RCE Require Import lib.Bits model.Board model.Movegen model.Wf model.WfFull model.Eval model.Search
  model.ChessSearch model.Fen spec.Game.
From RCE Require Import proofs.SearchProofs proofs.SearchMateProofs proofs.MateValueProofs
  proofs.ChessSearchProofs.
Open Scope Z_scope.

(* the notions of props/C12off.v on the chess model *)
Definition c_lmove : Board -> Ply -> Prop := lmove Board Ply get_all_moves is_legal_move.
Definition c_has_legal : Board -> Prop := has_legal Board Ply get_all_moves is_legal_move.
Definition c_mated : Board -> Prop := mated Board Ply get_all_moves is_legal_move c_in_check.
Definition c_mates : Board -> Ply -> Prop := mates Board Ply get_all_moves is_legal_move make_move c_in_check.
Definition c_within : nat -> Board -> Board -> Prop := within Board Ply get_all_moves is_legal_move make_move.
Definition c_fresh : Board -> Prop :=
  fresh Board Ply get_all_moves is_legal_move make_move halfmove_clock c_repeated.
Definition c_freshb : nat -> Board -> bool :=
  freshb Board Ply get_all_moves is_legal_move make_move halfmove_clock c_repeated.
Definition c_keeps_mate2 : Board -> Ply -> Prop :=
  keeps_mate2 Board Ply get_all_moves is_legal_move make_move c_in_check.
Definition c_allows_mate1 : Board -> Ply -> Prop :=
  allows_mate1 Board Ply get_all_moves is_legal_move make_move c_in_check.
Local Notation c_mval :=
  (move_value Board Ply get_all_moves is_legal_move make_move c_in_check evaluate is_capture
              halfmove_clock c_repeated).
(* the move announced by a depth-D search with the cache neutralised, no limits, no stop *)
Definition c_announces (s0 : CSt) (b : Board) (D : nat) (m : Ply) : Prop :=
  last (snd (c_search no_limits (fun _ => 0%N) (fun _ => false) false s0 b (Some D))) (Bestmove Ply ply_default)
  = Bestmove Ply m.

(* ------------------------------------------------------------------ *)
(* the three clauses and the value characterisation                     *)
(* ------------------------------------------------------------------ *)
Theorem chess_off_mate_in_one : forall (s0 : CSt) (b : Board) (D : nat) (m : Ply),
  running Ply s0 = true -> chess_inv b -> (1 <= D <= 255)%nat -> c_fresh b ->
  (exists m1, c_mates b m1) -> c_announces s0 b D m -> c_mates b m.
Proof.
  exact (off_mate_in_one Board Ply get_all_moves is_legal_move make_move c_in_check evaluate is_capture
           is_promotion cap_score ply_eqb zkey halfmove_clock c_repeated ply_default chess_inv
           chess_inv_make chess_inv_eval).
Qed.

Theorem chess_off_keeps_mate_in_two : forall (s0 : CSt) (b : Board) (D : nat) (m : Ply),
  running Ply s0 = true -> chess_inv b -> (3 <= D <= 255)%nat -> c_fresh b ->
  (exists m1, c_keeps_mate2 b m1) -> c_announces s0 b D m -> c_keeps_mate2 b m.
Proof.
  exact (off_keeps_mate_in_two Board Ply get_all_moves is_legal_move make_move c_in_check evaluate is_capture
           is_promotion cap_score ply_eqb zkey halfmove_clock c_repeated ply_default chess_inv
           chess_inv_make chess_inv_eval).
Qed.

Theorem chess_off_avoids_mate_in_one : forall (s0 : CSt) (b : Board) (D : nat) (m : Ply),
  running Ply s0 = true -> chess_inv b -> (2 <= D <= 255)%nat -> c_fresh b ->
  (exists m1, c_lmove b m1 /\ ~ c_allows_mate1 b m1) -> c_announces s0 b D m -> ~ c_allows_mate1 b m.
Proof.
  exact (off_avoids_mate_in_one Board Ply get_all_moves is_legal_move make_move c_in_check evaluate is_capture
           is_promotion cap_score ply_eqb zkey halfmove_clock c_repeated ply_default chess_inv
           chess_inv_make chess_inv_eval).
Qed.

Theorem chess_off_value_characterisation : forall (b : Board) (D : nat) (m : Ply),
  chess_inv b -> (3 <= D <= 255)%nat -> c_fresh b -> c_lmove b m ->
  (c_mval D b m = 32767 <-> c_mates b m)
  /\ (c_mval D b m >= 32765 <-> c_keeps_mate2 b m)
  /\ (c_mval D b m <= -32766 <-> c_allows_mate1 b m).
Proof.
  exact (off_value_characterisation Board Ply get_all_moves is_legal_move make_move c_in_check evaluate
           is_capture halfmove_clock c_repeated chess_inv chess_inv_make chess_inv_eval).
Qed.

(* ------------------------------------------------------------------ *)
(* the notions, in terms of get_legal_moves and the boolean mate oracle *)
(* ------------------------------------------------------------------ *)
Lemma c_lmove_iff b m : c_lmove b m <-> In m (get_legal_moves b).
Proof. unfold c_lmove, lmove, get_legal_moves. rewrite filter_In. reflexivity. Qed.

Lemma c_has_legal_iff b : c_has_legal b <-> get_legal_moves b <> [].
Proof.
  unfold c_has_legal, has_legal. split.
  - intros [m Hm] E. apply (c_lmove_iff b m) in Hm. rewrite E in Hm. exact Hm.
  - intros Hne. destruct (get_legal_moves b) as [|m t] eqn:E; [contradiction Hne; reflexivity|].
    exists m. apply (c_lmove_iff b m). rewrite E. left. reflexivity.
Qed.

Lemma c_mated_iff b : c_mated b <-> is_mated b = true.
Proof.
  unfold c_mated, mated, is_mated. fold (c_has_legal b). rewrite c_has_legal_iff.
  unfold c_in_check. destruct (get_legal_moves b) as [|m t].
  - split; [intros [H _]; exact H|intros H; split; [exact H|intros X; apply X; reflexivity]].
  - split; [intros [_ H]; exfalso; apply H; discriminate|discriminate].
Qed.

Lemma c_mates_iff b m : c_mates b m <-> In m (mating_moves b).
Proof.
  unfold c_mates, mates, mating_moves. fold (c_mated (make_move b m)).
  rewrite filter_In, c_mated_iff, <- c_lmove_iff. unfold c_lmove, lmove. tauto.
Qed.

Lemma c_exists_mate_iff b : (exists m, c_mates b m) <-> mating_moves b <> [].
Proof.
  split.
  - intros [m Hm] E. apply c_mates_iff in Hm. rewrite E in Hm. exact Hm.
  - intros Hne. destruct (mating_moves b) as [|m t] eqn:E; [contradiction Hne; reflexivity|].
    exists m. apply c_mates_iff. rewrite E. left. reflexivity.
Qed.

Lemma c_allows_mate1_iff b m :
  c_allows_mate1 b m <-> In m (get_legal_moves b) /\ allows_mate_in_one b m = true.
Proof.
  unfold c_allows_mate1, allows_mate1. fold (c_lmove b m). fold c_mates.
  rewrite c_lmove_iff, c_exists_mate_iff. unfold allows_mate_in_one.
  destruct (mating_moves (make_move b m)) as [|r t].
  - split; [intros [_ H]; exfalso; apply H; reflexivity|intros [_ H]; discriminate H].
  - split; intros [H _]; (split; [exact H|]); [reflexivity|discriminate].
Qed.

(* a win "in one" for the side to move: some legal move mates *)
Lemma wins_in_1 b : wins_in 1 b = true <-> exists m, c_mates b m.
Proof.
  cbn [wins_in]. rewrite existsb_exists. split.
  - intros [m [Hm Hv]]. exists m. apply c_mates_iff. unfold mating_moves. apply filter_In.
    split; [exact Hm|].
    destruct (is_mated (make_move b m)); [reflexivity|].
    destruct (get_legal_moves (make_move b m)) as [|r t]; [discriminate Hv|].
    cbn [forallb andb] in Hv. discriminate Hv.
  - intros [m Hm]. apply c_mates_iff in Hm. unfold mating_moves in Hm. apply filter_In in Hm.
    destruct Hm as [Hm Hv]. exists m. split; [exact Hm|]. rewrite Hv. reflexivity.
Qed.

Lemma c_keeps_mate2_iff b m :
  c_keeps_mate2 b m <-> In m (get_legal_moves b) /\ keeps_mate 1 b m = true.
Proof.
  unfold c_keeps_mate2, keeps_mate2. fold (c_lmove b m). fold (c_mated (make_move b m)).
  fold (c_has_legal (make_move b m)). fold c_mates.
  rewrite c_lmove_iff, c_mated_iff, c_has_legal_iff. unfold keeps_mate. cbv zeta.
  assert (Hall : (forall r, lmove Board Ply get_all_moves is_legal_move (make_move b m) r ->
                            exists m2, c_mates (make_move (make_move b m) r) m2)
                 <-> forallb (fun r => wins_in 1 (make_move (make_move b m) r))
                             (get_legal_moves (make_move b m)) = true).
  { rewrite forallb_forall. split.
    - intros H r Hr. apply wins_in_1. apply H. apply (c_lmove_iff (make_move b m) r). exact Hr.
    - intros H r Hr. apply wins_in_1. apply H. apply (c_lmove_iff (make_move b m) r). exact Hr. }
  rewrite Hall.
  destruct (is_mated (make_move b m)).
  - split; [intros [H _]; split; [exact H|reflexivity]|intros [H _]; split; [exact H|left; reflexivity]].
  - destruct (get_legal_moves (make_move b m)) as [|r t] eqn:E.
    + split.
      * intros [_ [H|[H _]]]; [discriminate H|exfalso; apply H; reflexivity].
      * intros [_ H]; discriminate H.
    + split.
      * intros [H [X|[_ X]]]; [discriminate X|split; [exact H|exact X]].
      * intros [H X]. split; [exact H|]. right. split; [discriminate|exact X].
Qed.

(* `fresh` can be established by computation *)
Lemma c_freshb_sound b : c_freshb 3 b = true -> c_fresh b.
Proof. exact (freshb_sound Board Ply get_all_moves is_legal_move make_move halfmove_clock c_repeated b). Qed.

(* ------------------------------------------------------------------ *)
(* the hypotheses are satisfiable: two concrete positions               *)
(* ------------------------------------------------------------------ *)
Lemma chess_start_example : chess_inv start_board /\ c_fresh start_board.
Proof. split; [split; vm_compute; reflexivity|apply c_freshb_sound; vm_compute; reflexivity]. Qed.

Definition c_back_rank : Board :=
  match from_fen "6k1/5ppp/8/8/8/8/8/R3K3 w - - 0 1" with Some b => b | None => start_board end.

Lemma chess_back_rank_example : forall (s0 : CSt) (D : nat) (m : Ply),
  running Ply s0 = true -> (1 <= D <= 255)%nat -> c_announces s0 c_back_rank D m ->
  to_notation m = "a1a8"%string /\ c_mates c_back_rank m.
Proof.
  intros s0 D m Hs HD Ha.
  assert (Hm : c_mates c_back_rank m).
  { apply (chess_off_mate_in_one s0 c_back_rank D m Hs); try assumption.
    - split; vm_compute; reflexivity.
    - apply c_freshb_sound. vm_compute. reflexivity.
    - apply c_exists_mate_iff. vm_compute. discriminate. }
  split; [|exact Hm].
  apply c_mates_iff in Hm.
  assert (E : forallb (fun x => String.eqb (to_notation x) "a1a8") (mating_moves c_back_rank) = true)
    by (vm_compute; reflexivity).
  rewrite forallb_forall in E. apply String.eqb_eq. apply E. exact Hm.
Qed.
