(* SyntaxProofs.v — the info line and the bestmove line of model/InfoLine.v are syntactically valid
   UCI (spec/UciSyntax.v).  Used by props/C14syntax.v. *)
From Coq Require Import NArith ZArith List Bool Ascii String Lia.
Import ListNotations.
From RCE Require Import model.Board model.Movegen model.Search model.InfoLine spec.UciSyntax.
Open Scope string_scope.

(* ------------------------------------------------------------------------------------------ *)
(* strings                                                                                     *)

Lemma app_nil_r_s : forall s : string, s ++ "" = s.
Proof. induction s; simpl; congruence. Qed.

Lemma app_snoc_s : forall (cur : string) c w, (cur ++ String c "") ++ w = cur ++ String c w.
Proof. induction cur; simpl; intros; congruence. Qed.

Lemma eqb_empty_false : forall s, s <> "" -> String.eqb s "" = false.
Proof. destruct s; simpl; congruence. Qed.

(* no space character *)
Fixpoint nosp (s : string) : bool :=
  match s with EmptyString => true | String c t => negb (Ascii.eqb c " "%char) && nosp t end.

(* ------------------------------------------------------------------------------------------ *)
(* tokenisation                                                                                *)

Lemma split_app_sp : forall a b cur,
  split_sp (a ++ " " ++ b) cur = (split_sp a cur ++ split_sp b "")%list.
Proof.
  induction a as [|c a IH]; intros b cur.
  - reflexivity.
  - change (String c a ++ " " ++ b) with (String c (a ++ " " ++ b)).
    cbn [split_sp]. destruct (Ascii.eqb c " "%char).
    + rewrite IH. reflexivity.
    + apply IH.
Qed.

Lemma tokens_app_sp : forall a b, tokens_sp (a ++ " " ++ b) = (tokens_sp a ++ tokens_sp b)%list.
Proof. intros. unfold tokens_sp. rewrite split_app_sp, filter_app. reflexivity. Qed.

Lemma split_word : forall w cur, nosp w = true -> split_sp w cur = [cur ++ w].
Proof.
  induction w as [|c w IH]; intros cur H.
  - simpl. rewrite app_nil_r_s. reflexivity.
  - simpl in H. apply andb_prop in H. destruct H as [Hc Hw].
    simpl. destruct (Ascii.eqb c " "%char); [discriminate|].
    rewrite IH by exact Hw. rewrite app_snoc_s. reflexivity.
Qed.

Lemma tokens_word : forall w, nosp w = true -> w <> "" -> tokens_sp w = [w].
Proof.
  intros w H Hne. unfold tokens_sp. rewrite split_word by exact H. simpl.
  rewrite eqb_empty_false by exact Hne. reflexivity.
Qed.

Lemma tokens_empty : tokens_sp "" = [].
Proof. reflexivity. Qed.

Definition word (w : string) : Prop := nosp w = true /\ w <> "".

Lemma tokens_join : forall l, Forall word l -> tokens_sp (join_sp l) = l.
Proof.
  unfold join_sp. induction l as [|w l IH]; intros H.
  - reflexivity.
  - inversion H as [|? ? [Hw Hne] Hl]; subst. destruct l as [|w2 l].
    + simpl. apply tokens_word; assumption.
    + change (String.concat " " (w :: w2 :: l)) with (w ++ " " ++ String.concat " " (w2 :: l)).
      rewrite tokens_app_sp, IH by exact Hl. rewrite tokens_word by assumption. reflexivity.
Qed.

(* ------------------------------------------------------------------------------------------ *)
(* characters                                                                                  *)

Lemma digit_not_sp : forall c, is_digit c = true -> Ascii.eqb c " "%char = false.
Proof.
  intros c H. destruct (Ascii.eqb_spec c " "%char) as [E|E]; [|reflexivity].
  subst c. vm_compute in H. discriminate.
Qed.
Lemma file_not_sp : forall c, is_file c = true -> Ascii.eqb c " "%char = false.
Proof.
  intros c H. destruct (Ascii.eqb_spec c " "%char) as [E|E]; [|reflexivity].
  subst c. vm_compute in H. discriminate.
Qed.
Lemma rank_not_sp : forall c, is_rank c = true -> Ascii.eqb c " "%char = false.
Proof.
  intros c H. destruct (Ascii.eqb_spec c " "%char) as [E|E]; [|reflexivity].
  subst c. vm_compute in H. discriminate.
Qed.
Lemma promo_not_sp : forall c, is_promo c = true -> Ascii.eqb c " "%char = false.
Proof.
  intros c H. destruct (Ascii.eqb_spec c " "%char) as [E|E]; [|reflexivity].
  subst c. vm_compute in H. discriminate.
Qed.

Lemma all_digits_nosp : forall s, all_digits s = true -> nosp s = true.
Proof.
  induction s as [|c s IH]; simpl; intros H; [reflexivity|].
  apply andb_prop in H. destruct H as [Hc Hs].
  rewrite (digit_not_sp c Hc), IH by exact Hs. reflexivity.
Qed.

Lemma is_number_word : forall s, is_number s = true -> word s.
Proof.
  intros s H. unfold is_number in H. apply andb_prop in H. destruct H as [Hne Hd]. split.
  - apply all_digits_nosp. exact Hd.
  - intros E. subst s. discriminate.
Qed.

Lemma is_move_word : forall w, is_move w = true -> word w.
Proof.
  intros w H.
  destruct w as [|a [|b [|c [|d [|e [|f w]]]]]]; cbn [is_move] in H; try discriminate.
  - do 3 (apply andb_prop in H; destruct H as [H ?]). split; [|discriminate].
    simpl. rewrite (file_not_sp a), (rank_not_sp b), (file_not_sp c), (rank_not_sp d) by assumption.
    reflexivity.
  - do 4 (apply andb_prop in H; destruct H as [H ?]). split; [|discriminate].
    simpl. rewrite (file_not_sp a), (rank_not_sp b), (file_not_sp c), (rank_not_sp d),
      (promo_not_sp e) by assumption.
    reflexivity.
Qed.

Lemma forallb_move_words : forall pv, forallb is_move pv = true -> Forall word pv.
Proof.
  intros pv H. rewrite forallb_forall in H. apply Forall_forall. intros x Hx.
  apply is_move_word, H, Hx.
Qed.

(* ------------------------------------------------------------------------------------------ *)
(* decimal printing                                                                            *)

Lemma digit_char_is_digit : forall d, (d < 10)%N -> is_digit (digit_char d) = true.
Proof.
  intros d H.
  assert (E : (d = 0 \/ d = 1 \/ d = 2 \/ d = 3 \/ d = 4 \/ d = 5 \/ d = 6 \/ d = 7 \/ d = 8 \/ d = 9)%N)
    by lia.
  repeat (destruct E as [E|E]; [subst d; reflexivity|]). subst d. reflexivity.
Qed.

Lemma dec_aux_digits : forall fuel n acc,
  all_digits acc = true -> all_digits (dec_aux fuel n acc) = true.
Proof.
  induction fuel as [|f IH]; intros n acc H; simpl.
  - exact H.
  - assert (H' : all_digits (String (digit_char (n mod 10)) acc) = true).
    { simpl. rewrite digit_char_is_digit by (apply N.mod_lt; discriminate). exact H. }
    destruct (N.ltb n 10); [exact H'|]. apply IH. exact H'.
Qed.

Lemma dec_aux_nonempty : forall fuel n acc,
  acc <> "" \/ fuel <> O -> dec_aux fuel n acc <> "".
Proof.
  induction fuel as [|f IH]; intros n acc H; simpl.
  - destruct H as [H|H]; [exact H|congruence].
  - destruct (N.ltb n 10); [discriminate|]. apply IH. left. discriminate.
Qed.

Lemma N_dec_number : forall n, is_number (N_dec n) = true.
Proof.
  intros n. unfold is_number, N_dec.
  rewrite eqb_empty_false by (apply dec_aux_nonempty; right; discriminate).
  rewrite dec_aux_digits by reflexivity. reflexivity.
Qed.

Lemma N_dec_word : forall n, word (N_dec n).
Proof. intros. apply is_number_word, N_dec_number. Qed.

Lemma is_int_of_number : forall s, is_number s = true -> is_int s = true.
Proof.
  intros s H. destruct s as [|c t]; [discriminate|].
  destruct c as [[] [] [] [] [] [] [] []]; try exact H.
  cbn in H. discriminate.
Qed.

Lemma is_int_neg : forall s, is_number s = true -> is_int ("-" ++ s) = true.
Proof. intros s H. exact H. Qed.

Lemma neg_word : forall s, word s -> word ("-" ++ s).
Proof. intros s [H Hne]. split; [exact H|discriminate]. Qed.

Lemma Z_dec_int : forall z, is_int (Z_dec z) = true.
Proof.
  destruct z as [|p|p]; simpl Z_dec.
  - reflexivity.
  - apply is_int_of_number, N_dec_number.
  - apply is_int_neg, N_dec_number.
Qed.

Lemma Z_dec_word : forall z, word (Z_dec z).
Proof.
  destruct z as [|p|p]; simpl Z_dec.
  - split; [reflexivity|discriminate].
  - apply N_dec_word.
  - apply neg_word, N_dec_word.
Qed.

(* ------------------------------------------------------------------------------------------ *)
(* token lists of the fragments                                                                *)

Lemma kw_tokens_2 : forall v, word v ->
  forall k, word k -> tokens_sp (k ++ " " ++ v) = [k; v].
Proof.
  intros v [Hv Hvn] k [Hk Hkn]. rewrite tokens_app_sp, !tokens_word by assumption. reflexivity.
Qed.

Lemma depth_tokens : forall d sd,
  tokens_sp (depth_str d sd) =
  match sd with
  | O => ["depth"; N_dec (N.of_nat d)]
  | _ => ["depth"; N_dec (N.of_nat d); "seldepth"; N_dec (N.of_nat sd)]
  end.
Proof.
  intros d sd. unfold depth_str. destruct sd as [|sd].
  - change ("depth " ++ N_dec (N.of_nat d)) with ("depth" ++ " " ++ N_dec (N.of_nat d)).
    apply kw_tokens_2; [apply N_dec_word|split; [reflexivity|discriminate]].
  - change ("depth " ++ N_dec (N.of_nat d) ++ " seldepth " ++ N_dec (N.of_nat (S sd)))
      with (("depth" ++ " " ++ N_dec (N.of_nat d) ++ " " ++ "seldepth" ++ " " ++ N_dec (N.of_nat (S sd)))).
    rewrite tokens_app_sp. rewrite (tokens_app_sp (N_dec (N.of_nat d))).
    rewrite kw_tokens_2; [|apply N_dec_word|split; [reflexivity|discriminate]].
    destruct (N_dec_word (N.of_nat d)) as [H1 H2]. rewrite (tokens_word (N_dec (N.of_nat d)) H1 H2).
    reflexivity.
Qed.

Lemma nodes_tokens : forall n, tokens_sp ("nodes " ++ N_dec n) = ["nodes"; N_dec n].
Proof.
  intros n. change ("nodes " ++ N_dec n) with ("nodes" ++ " " ++ N_dec n).
  apply kw_tokens_2; [apply N_dec_word|split; [reflexivity|discriminate]].
Qed.

Definition time_present (t : option N) : option N :=
  match t with Some x => if N.ltb 0 x then Some x else None | None => None end.

Lemma time_tokens : forall t,
  tokens_sp (time_str t) = match time_present t with Some x => ["time"; N_dec x] | None => [] end.
Proof.
  intros [x|]; unfold time_str, time_present; [|reflexivity]. destruct (N.ltb 0 x); [|reflexivity].
  change ("time " ++ N_dec x) with ("time" ++ " " ++ N_dec x).
  apply kw_tokens_2; [apply N_dec_word|split; [reflexivity|discriminate]].
Qed.

Lemma nps_tokens : forall n t,
  tokens_sp (nps_str n t) =
  match time_present t with Some x => ["nps"; N_dec (n * 1000 / x)] | None => [] end.
Proof.
  intros n [x|]; unfold nps_str, time_present; [|reflexivity]. destruct (N.ltb 0 x); [|reflexivity].
  change ("nps " ++ N_dec (n * 1000 / x)) with ("nps" ++ " " ++ N_dec (n * 1000 / x)).
  apply kw_tokens_2; [apply N_dec_word|split; [reflexivity|discriminate]].
Qed.

Lemma score_tokens : forall sc len,
  tokens_sp (score_str sc len) = [] \/
  exists k v, (k = "cp" \/ k = "mate") /\ is_int v = true /\
              tokens_sp (score_str sc len) = ["score"; k; v].
Proof.
  intros [s|] len; unfold score_str; [|left; reflexivity]. right.
  destruct (s <=? SCORE_MIN + 255 + 1)%Z; [|destruct (s >=? SCORE_MAX - 255)%Z].
  - exists "mate", ("-" ++ N_dec (N.of_nat ((len + 1) / 2))).
    split; [right; reflexivity|]. split; [apply is_int_neg, N_dec_number|].
    change ("score mate -" ++ N_dec (N.of_nat ((len + 1) / 2)))
      with ("score" ++ " " ++ "mate" ++ " " ++ "-" ++ N_dec (N.of_nat ((len + 1) / 2))).
    rewrite tokens_app_sp.
    rewrite kw_tokens_2; [reflexivity|apply neg_word, N_dec_word|split; [reflexivity|discriminate]].
  - exists "mate", (N_dec (N.of_nat ((len + 1) / 2))).
    split; [right; reflexivity|]. split; [apply is_int_of_number, N_dec_number|].
    change ("score mate " ++ N_dec (N.of_nat ((len + 1) / 2)))
      with ("score" ++ " " ++ "mate" ++ " " ++ N_dec (N.of_nat ((len + 1) / 2))).
    rewrite tokens_app_sp.
    rewrite kw_tokens_2; [reflexivity|apply N_dec_word|split; [reflexivity|discriminate]].
  - exists "cp", (Z_dec s).
    split; [left; reflexivity|]. split; [apply Z_dec_int|].
    change ("score cp " ++ Z_dec s) with ("score" ++ " " ++ "cp" ++ " " ++ Z_dec s).
    rewrite tokens_app_sp.
    rewrite kw_tokens_2; [reflexivity|apply Z_dec_word|split; [reflexivity|discriminate]].
Qed.

(* normal form of the token list of an info line *)
Lemma info_tokens : forall d sd n t sc pv, Forall word pv ->
  tokens_sp (info_string d sd n t sc pv) =
  (["info"] ++ tokens_sp (depth_str d sd) ++ ["nodes"; N_dec n] ++ tokens_sp (time_str t)
   ++ tokens_sp (nps_str n t) ++ tokens_sp (score_str sc (List.length pv)) ++ ["pv"] ++ pv)%list.
Proof.
  intros d sd n t sc pv Hpv. unfold info_string.
  change ("info " ++ depth_str d sd ++ " " ++ ("nodes " ++ N_dec n) ++ " " ++ time_str t ++ " "
          ++ nps_str n t ++ " " ++ score_str sc (List.length pv) ++ " pv " ++ join_sp pv)
    with ("info" ++ " " ++ depth_str d sd ++ " " ++ ("nodes " ++ N_dec n) ++ " " ++ time_str t ++ " "
          ++ nps_str n t ++ " " ++ score_str sc (List.length pv) ++ " " ++ "pv" ++ " " ++ join_sp pv).
  rewrite (tokens_app_sp "info").
  rewrite (tokens_app_sp (depth_str d sd)).
  rewrite (tokens_app_sp ("nodes " ++ N_dec n)).
  rewrite (tokens_app_sp (time_str t)).
  rewrite (tokens_app_sp (nps_str n t)).
  rewrite (tokens_app_sp (score_str sc (List.length pv))).
  rewrite (tokens_app_sp "pv").
  rewrite nodes_tokens, tokens_join by exact Hpv.
  reflexivity.
Qed.

(* ------------------------------------------------------------------------------------------ *)
(* the grammar on the normal form                                                              *)

Lemma opt_num_skip : forall kw k l, String.eqb k kw = false -> opt_num kw (k :: l) = k :: l.
Proof. intros kw k l H. destruct l; simpl; [reflexivity|]. rewrite H. reflexivity. Qed.

Lemma opt_num_hit : forall kw v l, is_number v = true -> opt_num kw (kw :: v :: l) = l.
Proof. intros kw v l H. simpl. rewrite String.eqb_refl, H. reflexivity. Qed.

Lemma opt_score_pv : forall pv, opt_score ("pv" :: pv) = Some ("pv" :: pv).
Proof. intros. reflexivity. Qed.

Lemma opt_score_hit : forall k v l, k = "cp" \/ k = "mate" -> is_int v = true ->
  opt_score ("score" :: k :: v :: l) = Some l.
Proof. intros k v l [E|E] H; subst k; simpl; rewrite H; reflexivity. Qed.

(* after "nodes <n>": [time] [nps] [score] pv moves *)
Lemma tail_valid : forall n t sc pv, forallb is_move pv = true ->
  match opt_score (opt_num "nps" (opt_num "time"
          (tokens_sp (time_str t) ++ tokens_sp (nps_str n t)
           ++ tokens_sp (score_str sc (List.length pv)) ++ ["pv"] ++ pv)%list)) with
  | Some ("pv" :: pv') => forallb is_move pv'
  | _ => false
  end = true.
Proof.
  intros n t sc pv Hpv.
  assert (Hscore : forall l, l = (tokens_sp (score_str sc (List.length pv)) ++ ["pv"] ++ pv)%list ->
            opt_num "time" l = l /\ opt_num "nps" l = l /\ opt_score l = Some ("pv" :: pv)).
  { intros l El. destruct (score_tokens sc (List.length pv)) as [E|(k & v & Hk & Hv & E)];
      rewrite E in El; subst l; simpl app.
    - rewrite !opt_num_skip by reflexivity. rewrite opt_score_pv. auto.
    - rewrite !opt_num_skip by reflexivity. rewrite opt_score_hit by assumption. auto. }
  rewrite time_tokens, nps_tokens. destruct (time_present t) as [x|].
  - simpl app. rewrite opt_num_hit by apply N_dec_number.
    rewrite opt_num_hit by apply N_dec_number.
    destruct (Hscore _ eq_refl) as (_ & _ & E). simpl app in E. rewrite E. exact Hpv.
  - simpl app. destruct (Hscore _ eq_refl) as (E1 & E2 & E3). simpl app in E1, E2, E3.
    rewrite E1, E2, E3. exact Hpv.
Qed.

Theorem info_line_valid : forall depth seldepth nodes t sc pv,
  forallb is_move pv = true ->
  valid_info (tokens_sp (info_string depth seldepth nodes t sc pv)) = true.
Proof.
  intros d sd n t sc pv Hpv.
  rewrite info_tokens by (apply forallb_move_words; exact Hpv).
  rewrite depth_tokens.
  pose proof (tail_valid n t sc pv Hpv) as HT.
  set (tl := (tokens_sp (time_str t) ++ tokens_sp (nps_str n t)
              ++ tokens_sp (score_str sc (List.length pv)) ++ ["pv"] ++ pv)%list) in *.
  destruct sd as [|sd].
  - change (valid_info ("info" :: "depth" :: N_dec (N.of_nat d) :: "nodes" :: N_dec n :: tl) = true).
    unfold valid_info. rewrite N_dec_number. rewrite opt_num_skip by reflexivity.
    rewrite N_dec_number. exact HT.
  - change (valid_info ("info" :: "depth" :: N_dec (N.of_nat d) :: "seldepth"
                        :: N_dec (N.of_nat (S sd)) :: "nodes" :: N_dec n :: tl) = true).
    unfold valid_info. rewrite N_dec_number. rewrite opt_num_hit by apply N_dec_number.
    rewrite N_dec_number. exact HT.
Qed.

(* ------------------------------------------------------------------------------------------ *)
(* move tokens                                                                                 *)

Lemma file_char_is_file : forall f, Nat.ltb f 8 = true -> is_file (file_char f) = true.
Proof.
  intros f H. do 8 (destruct f as [|f]; [reflexivity|]). discriminate.
Qed.

Lemma rank_char_is_rank : forall r, Nat.ltb r 8 = true -> is_rank (rank_char r) = true.
Proof.
  intros r H. do 8 (destruct r as [|r]; [reflexivity|]). discriminate.
Qed.

Theorem move_token_valid : forall m : Ply,
  sq_valid (p_start m) = true -> sq_valid (p_dest m) = true -> is_move (to_notation m) = true.
Proof.
  intros m Hs Hd. unfold sq_valid in Hs, Hd.
  apply andb_prop in Hs. destruct Hs as [Hsr Hsf].
  apply andb_prop in Hd. destruct Hd as [Hdr Hdf].
  pose proof (file_char_is_file _ Hsf) as F1. pose proof (rank_char_is_rank _ Hsr) as R1.
  pose proof (file_char_is_file _ Hdf) as F2. pose proof (rank_char_is_rank _ Hdr) as R2.
  unfold to_notation, sq_str.
  destruct (p_promoted m) as [[[] c]|]; cbn [append is_move]; rewrite F1, R1, F2, R2; reflexivity.
Qed.

Theorem bestmove_line_valid : forall m : Ply,
  sq_valid (p_start m) = true -> sq_valid (p_dest m) = true ->
  valid_bestmove (tokens_sp (bestmove_string m)) = true.
Proof.
  intros m Hs Hd. pose proof (move_token_valid m Hs Hd) as H.
  unfold bestmove_string.
  change ("bestmove " ++ to_notation m) with ("bestmove" ++ " " ++ to_notation m).
  destruct (is_move_word _ H) as [H1 H2].
  rewrite tokens_app_sp, (tokens_word (to_notation m) H1 H2).
  exact H.
Qed.
