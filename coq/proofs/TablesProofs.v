(* TablesProofs.v — the lifting theorems for C06: a finite sweep over (square, subset of the
   relevance mask) implies exactness of the magic lookup for EVERY occupancy in N. *)
From Coq Require Import NArith ZArith List Lia Bool FMapPositive.
Import ListNotations.
From RCE Require Import lib.Bits lib.Geometry generated.Consts model.Tables.
Open Scope N_scope.

Definition geo (dirs : list (Z * Z)) (s : nat) (occ : N) : N :=
  set_of (slider_attacks dirs s (tb occ)).

Section Magic.
  Variable dirs : list (Z * Z).
  Variable mask_of : nat -> N.
  Variable slow : nat -> N -> N.
  Variable magics bitsl : list N.
  Variable size : N.

  Local Notation build := (build mask_of slow magics bitsl size).
  Local Notation lookup_tbl := (lookup_tbl magics bitsl size).
  Local Notation get_attacks := (get_attacks mask_of slow magics bitsl size).

  Definition entry_ok (t : PositiveMap.t N) (s : nat) (b : N) : bool :=
    match lookup_tbl t s b with
    | Some v => N.eqb v (geo dirs s b)
    | None => false
    end.

  Definition sweep_sq (s : nat) : bool :=
    N.eqb (mask_of s) (set_of (slider_mask dirs s)) &&
    match build s with
    | None => false
    | Some t => forallb (entry_ok t s) (subsets (slider_mask dirs s))
    end.

  Definition sweep_range (lo n : nat) : bool := forallb sweep_sq (seq lo n).

  (* the same sweep returning the first failing (square, occupancy) instead of false *)
  Definition first_bad_sq (s : nat) : option (nat * N) :=
    if negb (N.eqb (mask_of s) (set_of (slider_mask dirs s))) then Some (s, 0)
    else match build s with
         | None => Some (s, 0)
         | Some t => match find (fun b => negb (entry_ok t s b)) (subsets (slider_mask dirs s)) with
                     | Some b => Some (s, b)
                     | None => None
                     end
         end.
  Definition first_bad : option (nat * N) :=
    fold_left (fun acc s => match acc with Some _ => acc | None => first_bad_sq s end)
              (seq 0 64) None.

  Lemma sweep_sq_exact s :
    sweep_sq s = true ->
    forall occ : N, get_attacks s occ = Some (geo dirs s occ).
  Proof.
    intros Hsw occ. unfold sweep_sq in Hsw.
    apply andb_true_iff in Hsw. destruct Hsw as [Hmask Hsw]. apply N.eqb_eq in Hmask.
    unfold Tables.get_attacks.
    destruct build as [t|]; [|discriminate].
    rewrite forallb_forall in Hsw.
    set (b := N.land (wrap occ) (mask_of s)).
    assert (Hb : In b (subsets (slider_mask dirs s))).
    { apply subsets_complete. unfold b. rewrite Hmask. apply land_set_of_bits_in. }
    specialize (Hsw b Hb). unfold entry_ok in Hsw.
    destruct (lookup_tbl t s b) as [v|]; [|discriminate].
    apply N.eqb_eq in Hsw. subst v. f_equal. unfold geo. f_equal.
    unfold slider_attacks.
    assert (Hd : forall d, In d dirs ->
              slide (tb b) (ray_list s d) = slide (tb occ) (ray_list s d)).
    { intros d Hd. apply slide_agree. intros x Hx.
      unfold tb, b. rewrite N.land_spec, wrap_spec.
      assert (Hm : N.testbit (mask_of s) (N.of_nat x) = true).
      { rewrite Hmask. apply (set_of_tb (slider_mask dirs s) x). unfold slider_mask.
        apply in_flat_map. exists d. split; assumption. }
      rewrite Hm, andb_true_r.
      assert (Hx64 : (x < 64)%nat).
      { apply (ray_list_lt64 s d). clear -Hx.
        induction (ray_list s d) as [|a [|b' t'] IH]; cbn in *; try contradiction.
        destruct Hx as [->|Hx]; [left; reflexivity|right; apply IH; exact Hx]. }
      replace (N.of_nat x <? 64) with true; [apply andb_true_r|].
      symmetry. apply N.ltb_lt. lia. }
    clear -Hd. induction dirs as [|d ds IH]; [reflexivity|].
    cbn [flat_map]. rewrite Hd by (left; reflexivity). f_equal.
    apply IH. intros d' Hd'. apply Hd. right. exact Hd'.
  Qed.

  Lemma sweep_range_exact lo n :
    sweep_range lo n = true ->
    forall s, (lo <= s < lo + n)%nat -> forall occ : N, get_attacks s occ = Some (geo dirs s occ).
  Proof.
    intros H s Hs occ. unfold sweep_range in H. rewrite forallb_forall in H.
    apply sweep_sq_exact. apply H. apply in_seq. exact Hs.
  Qed.
End Magic.

(* leaper tables: a 64-entry sweep lifts to all squares *)
Definition leaper_sweep (model : nat -> N) (ds : list (Z * Z)) : bool :=
  forallb (fun s => N.eqb (model s) (set_of (leaper_targets ds s))) (seq 0 64).

Lemma leaper_sweep_exact model ds :
  leaper_sweep model ds = true ->
  forall s, (s < 64)%nat -> model s = set_of (leaper_targets ds s).
Proof.
  intros H s Hs. unfold leaper_sweep in H. rewrite forallb_forall in H.
  apply N.eqb_eq. apply H. apply in_seq. lia.
Qed.

(* rays: the bit formulas of init_rays are the geometric rays *)
Definition rays_sweep : bool :=
  forallb (fun s => forallb (fun d => N.eqb (ray s d) (set_of (ray_list s (nth d dir8 (0,0)%Z))))
                            (seq 0 8)) (seq 0 64).
Lemma rays_sweep_exact :
  rays_sweep = true ->
  forall s d, (s < 64)%nat -> (d < 8)%nat -> ray s d = set_of (ray_list s (nth d dir8 (0,0)%Z)).
Proof.
  intros H s d Hs Hd. unfold rays_sweep in H. rewrite forallb_forall in H.
  specialize (H s ltac:(apply in_seq; lia)). rewrite forallb_forall in H.
  apply N.eqb_eq. apply H. apply in_seq. lia.
Qed.

(* the table in Tables.v really is the table of the formulas *)
Lemma rays_tbl_eq : rays_tbl = map (fun s => map (ray_model s) (seq 0 8)) (seq 0 64).
Proof. vm_compute. reflexivity. Qed.

(* agreement of the dumped engine tables with the model of their init code (a correspondence
   check evaluated inside Coq; exhaustive over the finite domain) *)
Definition gen_tables_agree : bool :=
  forallb (fun s => N.eqb (nth s gen_rook_masks 0) (rook_mask_model s)
                 && N.eqb (nth s gen_bishop_masks 0) (bishop_mask_model s)
                 && N.eqb (nth s gen_knight 0) (knight_model s)
                 && N.eqb (nth s gen_king 0) (king_model s)
                 && N.eqb (nth s gen_wpawn 0) (wpawn_model s)
                 && N.eqb (nth s gen_bpawn 0) (bpawn_model s)
                 && forallb (fun d => N.eqb (nth d (nth s gen_rays []) 0) (ray s d)) (seq 0 8))
          (seq 0 64)
  && Nat.eqb (length gen_rook_masks) 64 && Nat.eqb (length gen_bishop_masks) 64
  && Nat.eqb (length gen_knight) 64 && Nat.eqb (length gen_king) 64
  && Nat.eqb (length gen_wpawn) 64 && Nat.eqb (length gen_bpawn) 64
  && Nat.eqb (length gen_rays) 64.
