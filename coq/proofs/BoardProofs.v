(* BoardProofs.v — make_move / unmake_move round trip, preservation of well-formedness, the
   incremental key against the from-scratch key, nested probes and operation sequences. *)
From Coq Require Import NArith ZArith List Lia Bool Btauto String.
Import ListNotations.
From RCE Require Import lib.Bits generated.Consts generated.ZTable model.Board model.Movegen model.Wf
     model.Ops model.Fen.
From RCE Require Import proofs.BoardProofsPBB proofs.BoardProofsKey.
Open Scope N_scope.

(* props/C02.v writes a FEN string literal but does not import Coq.Strings.String itself; it
   imports this file last, so the string-literal syntax (and nothing else of String) is
   re-exported from here *)
Export String.StringSyntax.

Local Opaque z_piece z_castle z_ep z_turn zt.

Ltac sq_simp :=
  repeat match goal with
         | |- context [sq_eqb ?a ?a] => rewrite (sq_eqb_refl a)
         | H : ?a <> ?b |- context [sq_eqb ?a ?b] => rewrite (sq_eqb_neq a b H)
         | H : ?b <> ?a |- context [sq_eqb ?a ?b] => rewrite (sq_eqb_neq' a b H)
         end.
Ltac sq_cases :=
  sq_simp;
  repeat (match goal with
          | |- context [sq_eqb ?a ?b] => destruct (sq_eqb_spec a b); [subst|]
          end; sq_simp).

Lemma Rep_w p g w w' : Rep p g w -> w = w' -> Rep p g w'.
Proof. intros H <-. exact H. Qed.

(* ------------------------------------------------------------------ *)
(* move_piece / undo_move_piece on the bitboards, the placement function and the key *)
Definition capsq (s d : Square) (ep : bool) : Square := if ep then ep_capture_square s d else d.
Definition dk (moving : Kind) (promoted : option Kind) : Kind :=
  match promoted with Some k => k | None => moving end.

Definition mp_bbs (p : PBB) (s d : Square) (k k' : Kind) (cap : option Kind) (cq : Square) : PBB :=
  pbb_add (match cap with
           | Some c => pbb_remove (pbb_remove p s k) cq c
           | None => pbb_remove p s k
           end) d k'.
Definition mp_fun (g : Square -> PieceAt) (s d : Square) (k k' : Kind) (cap : option Kind) (cq : Square) :=
  upd (match cap with
       | Some c => upd (upd g s PNone) cq PNone
       | None => upd g s PNone
       end) d (PSome k').
Definition mp_kw (s d : Square) (k k' : Kind) (cap : option Kind) (cq : Square) : N :=
  N.lxor (N.lxor (z_piece k s) (match cap with Some c => z_piece c cq | None => 0 end)) (z_piece k' d).

Definition ump_bbs (p : PBB) (s d : Square) (k k' : Kind) (cap : option Kind) (cq : Square) : PBB :=
  pbb_add (match cap with
           | Some c => pbb_add (pbb_remove p d k') cq c
           | None => pbb_remove p d k'
           end) s k.
Definition ump_fun (g : Square -> PieceAt) (s d : Square) (k k' : Kind) (cap : option Kind) (cq : Square) :=
  upd (match cap with
       | Some c => upd (upd g d PNone) cq (PSome c)
       | None => upd g d PNone
       end) s (PSome k).

Lemma move_piece_eq b s d k prom cap ep :
  move_piece_panics cap ep = false ->
  move_piece b s d k prom cap ep =
  with_bbs_key b (mp_bbs (bbs b) s d k (dk k prom) cap (capsq s d ep))
               (N.lxor (zkey b) (mp_kw s d k (dk k prom) cap (capsq s d ep))).
Proof.
  intros NP. unfold move_piece, add_piece, remove_piece, with_bbs_key, mp_bbs, mp_kw, capsq, dk.
  destruct cap as [c|], ep; try discriminate NP;
    cbn [bbs zkey current_turn fullmove ep_file history pos_hist]; f_equal; xor_solve.
Qed.

Lemma undo_move_piece_eq b s d k prom cap ep :
  undo_move_piece b s d k prom cap ep =
  with_bbs_key b (ump_bbs (bbs b) s d k (dk k prom) cap (capsq s d ep))
               (N.lxor (zkey b) (mp_kw s d k (dk k prom) cap (capsq s d ep))).
Proof.
  unfold undo_move_piece, add_piece, remove_piece, with_bbs_key, ump_bbs, mp_kw, capsq, dk.
  destruct cap as [c|], ep;
    cbn [bbs zkey current_turn fullmove ep_file history pos_hist]; f_equal; xor_solve.
Qed.

Definition cap_ok (g : Square -> PieceAt) (s d : Square) (cap : option Kind) (cq : Square) : Prop :=
  match cap with
  | None => g d = PNone
  | Some c => sq_valid cq = true /\ g cq = PSome c /\ cq <> s /\ (cq = d \/ (cq <> d /\ g d = PNone))
  end.

Lemma mp_rep p g w s d k k' cap cq :
  Rep p g w -> sq_valid s = true -> sq_valid d = true -> s <> d -> g s = PSome k ->
  cap_ok g s d cap cq ->
  Rep (mp_bbs p s d k k' cap cq) (mp_fun g s d k k' cap cq) (N.lxor w (mp_kw s d k k' cap cq)).
Proof.
  intros R Vs Vd Nsd Hs Hc. unfold mp_bbs, mp_fun, mp_kw.
  pose proof (Rep_remove p g w s k R Vs Hs) as R1.
  destruct cap as [c|]; cbn [cap_ok] in Hc.
  - destruct Hc as (Vq & Hq & Nqs & Hqd).
    assert (R2 : Rep (pbb_remove (pbb_remove p s k) cq c) (upd (upd g s PNone) cq PNone)
                     (N.lxor (N.lxor w (z_piece k s)) (z_piece c cq))).
    { apply Rep_remove; [exact R1|exact Vq|]. unfold upd. sq_simp. exact Hq. }
    eapply Rep_w.
    + apply Rep_add; [exact R2|exact Vd|]. unfold upd.
      destruct Hqd as [->|[Nqd Hd]]; sq_simp; [reflexivity|exact Hd].
    + xor_solve.
  - eapply Rep_w.
    + apply Rep_add; [exact R1|exact Vd|]. unfold upd. sq_simp. exact Hc.
    + xor_solve.
Qed.

Definition ucap_ok (g : Square -> PieceAt) (s d : Square) (cap : option Kind) (cq : Square) : Prop :=
  match cap with
  | None => True
  | Some c => sq_valid cq = true /\ cq <> s /\ (cq = d \/ (cq <> d /\ g cq = PNone))
  end.

Lemma ump_rep p g w s d k k' cap cq :
  Rep p g w -> sq_valid s = true -> sq_valid d = true -> s <> d -> g d = PSome k' -> g s = PNone ->
  ucap_ok g s d cap cq ->
  Rep (ump_bbs p s d k k' cap cq) (ump_fun g s d k k' cap cq) (N.lxor w (mp_kw s d k k' cap cq)).
Proof.
  intros R Vs Vd Nsd Hd Hs Hc. unfold ump_bbs, ump_fun, mp_kw.
  pose proof (Rep_remove p g w d k' R Vd Hd) as R1.
  destruct cap as [c|]; cbn [ucap_ok] in Hc.
  - destruct Hc as (Vq & Nqs & Hqd).
    assert (R2 : Rep (pbb_add (pbb_remove p d k') cq c) (upd (upd g d PNone) cq (PSome c))
                     (N.lxor (N.lxor w (z_piece k' d)) (z_piece c cq))).
    { apply Rep_add; [exact R1|exact Vq|]. unfold upd.
      destruct Hqd as [->|[Nqd Hq]]; sq_simp; [reflexivity|exact Hq]. }
    eapply Rep_w.
    + apply Rep_add; [exact R2|exact Vs|]. unfold upd. sq_simp. exact Hs.
    + xor_solve.
  - eapply Rep_w.
    + apply Rep_add; [exact R1|exact Vs|]. unfold upd. sq_simp. exact Hs.
    + xor_solve.
Qed.

(* a single move_piece undone *)
Lemma rt_simple p g w s d k k' cap cq :
  Rep p g w -> sq_valid s = true -> sq_valid d = true -> s <> d -> g s = PSome k ->
  cap_ok g s d cap cq ->
  ump_bbs (mp_bbs p s d k k' cap cq) s d k k' cap cq = p.
Proof.
  intros R Vs Vd Nsd Hs Hc.
  pose proof (mp_rep p g w s d k k' cap cq R Vs Vd Nsd Hs Hc) as R1.
  assert (R2 : Rep (ump_bbs (mp_bbs p s d k k' cap cq) s d k k' cap cq)
                   (ump_fun (mp_fun g s d k k' cap cq) s d k k' cap cq)
                   (N.lxor (N.lxor w (mp_kw s d k k' cap cq)) (mp_kw s d k k' cap cq))).
  { apply ump_rep; try assumption.
    - unfold mp_fun, upd. sq_simp. reflexivity.
    - unfold mp_fun, upd. destruct cap as [c|]; cbn [cap_ok] in Hc.
      + destruct Hc as (Vq & Hq & Nqs & Hqd). sq_simp. reflexivity.
      + sq_simp. reflexivity.
    - destruct cap as [c|]; cbn [cap_ok ucap_ok] in *; [|exact I].
      destruct Hc as (Vq & Hq & Nqs & Hqd). split; [exact Vq|]. split; [exact Nqs|].
      destruct Hqd as [->|[Nqd Hd]]; [left; reflexivity|right]. split; [exact Nqd|].
      unfold mp_fun, upd. sq_simp. reflexivity. }
  eapply Rep_ext; [exact R2|exact R|].
  intros x Vx. unfold ump_fun, mp_fun, upd.
  destruct cap as [c|]; cbn [cap_ok] in Hc.
  - destruct Hc as (Vq & Hq & Nqs & Hqd).
    destruct Hqd as [->|[Nqd Hd]]; sq_cases; try congruence.
  - sq_cases; try congruence.
Qed.

(* king move + rook move undone in the order unmake_move uses (king first) *)
Lemma rt_castle p g w s d rs rd K R :
  Rep p g w -> sq_valid s = true -> sq_valid d = true -> sq_valid rs = true -> sq_valid rd = true ->
  s <> d -> rs <> s -> rd <> d -> rs <> d -> rd <> s -> rs <> rd ->
  g s = PSome K -> g d = PNone -> g rs = PSome R -> g rd = PNone ->
  ump_bbs (ump_bbs (mp_bbs (mp_bbs p s d K K None d) rs rd R R None rd) s d K K None d)
          rs rd R R None rd = p.
Proof.
  intros Rp Vs Vd Vrs Vrd N1 N2 N3 N4 N5 N6 Hs Hd Hrs Hrd.
  pose proof (mp_rep p g w s d K K None d Rp Vs Vd N1 Hs Hd) as R1.
  match type of R1 with Rep ?p1 ?g1 ?w1 =>
    assert (R2 : Rep (mp_bbs p1 rs rd R R None rd) (mp_fun g1 rs rd R R None rd)
                     (N.lxor w1 (mp_kw rs rd R R None rd)))
  end.
  { apply mp_rep; try assumption.
    - unfold mp_fun, upd. sq_simp. exact Hrs.
    - cbn [cap_ok]. unfold mp_fun, upd. sq_simp. exact Hrd. }
  match type of R2 with Rep ?p2 ?g2 ?w2 =>
    assert (R3 : Rep (ump_bbs p2 s d K K None d) (ump_fun g2 s d K K None d)
                     (N.lxor w2 (mp_kw s d K K None d)))
  end.
  { apply ump_rep; try assumption.
    - unfold mp_fun, upd. sq_simp. reflexivity.
    - unfold mp_fun, upd. sq_simp. reflexivity.
    - exact I. }
  match type of R3 with Rep ?p3 ?g3 ?w3 =>
    assert (R4 : Rep (ump_bbs p3 rs rd R R None rd) (ump_fun g3 rs rd R R None rd)
                     (N.lxor w3 (mp_kw rs rd R R None rd)))
  end.
  { apply ump_rep; try assumption.
    - unfold ump_fun, mp_fun, upd. sq_simp. reflexivity.
    - unfold ump_fun, mp_fun, upd. sq_simp. reflexivity.
    - exact I. }
  eapply Rep_ext; [exact R4|exact Rp|].
  intros x Vx. unfold ump_fun, mp_fun, upd. sq_cases; try congruence.
Qed.

(* ------------------------------------------------------------------ *)
(* make_move and unmake_move as explicit records *)
Definition mv_bbs (p : PBB) (m : Ply) : PBB :=
  mp_bbs p (p_start m) (p_dest m) (p_piece m) (dk (p_piece m) (p_promoted m)) (p_captured m)
         (capsq (p_start m) (p_dest m) (p_ep m)).
Definition unmv_bbs (p : PBB) (m : Ply) : PBB :=
  ump_bbs p (p_start m) (p_dest m) (p_piece m) (dk (p_piece m) (p_promoted m)) (p_captured m)
          (capsq (p_start m) (p_dest m) (p_ep m)).
Definition mv_kw (m : Ply) : N :=
  mp_kw (p_start m) (p_dest m) (p_piece m) (dk (p_piece m) (p_promoted m)) (p_captured m)
        (capsq (p_start m) (p_dest m) (p_ep m)).

Definition castle_bbs (p : PBB) (c : Color) (m : Ply) : PBB :=
  if p_castles m then
    match castle_rook_squares (p_dest m) with
    | Some (rs, rd) => mp_bbs p rs rd (Rook, c) (Rook, c) None rd
    | None => p
    end
  else p.
Definition uncastle_bbs (p : PBB) (c : Color) (m : Ply) : PBB :=
  if p_castles m then
    match castle_rook_squares (p_dest m) with
    | Some (rs, rd) => ump_bbs p rs rd (Rook, c) (Rook, c) None rd
    | None => p
    end
  else p.
Definition castle_kw (c : Color) (m : Ply) : N :=
  if p_castles m then
    match castle_rook_squares (p_dest m) with
    | Some (rs, rd) => mp_kw rs rd (Rook, c) (Rook, c) None rd
    | None => 0
    end
  else 0.

Definition new_ep (m : Ply) : option nat := if p_dpp m then Some (file (p_dest m)) else None.
Definition new_hm (b : Board) (m : Ply) : N :=
  match p_piece m, p_captured m with
  | (Pawn, _), _ => 0
  | _, Some _ => 0
  | _, None => wrap16 (p_halfmove (last_ply b) + 1)
  end.
Definition crr (b : Board) (m : Ply) : N * Rights := castling_revocations m (0, p_rights (last_ply b)).
Definition new_ply (b : Board) (m : Ply) : Ply := set_clock_rights m (new_hm b m) (snd (crr b m)).
Definition make_kw (b : Board) (m : Ply) : N :=
  N.lxor (N.lxor (N.lxor (N.lxor (N.lxor (epw (ep_file b)) (epw (new_ep m))) (mv_kw m))
                         (castle_kw (current_turn b) m)) (fst (crr b m))) z_turn.

Lemma make_move_eq b m :
  move_piece_panics (p_captured m) (p_ep m) = false ->
  make_move b m =
  mkBoard (opposite (current_turn b))
          (if color_eqb (opposite (current_turn b)) White then wrap16 (fullmove b + 1) else fullmove b)
          (new_ep m) (new_ply b m :: history b) (zkey b :: pos_hist b)
          (castle_bbs (mv_bbs (bbs b) m) (current_turn b) m)
          (N.lxor (zkey b) (make_kw b m)).
Proof.
  intros NP. unfold make_move. cbv zeta.
  unfold make_kw, new_ply, crr, new_ep, castle_bbs, castle_kw, mv_bbs, mv_kw, new_hm.
  destruct (p_dpp m); cbv beta iota; rewrite (move_piece_eq _ _ _ _ _ _ _ NP);
    (destruct (p_castles m);
     [destruct (castle_rook_squares (p_dest m)) as [[rs rd]|];
      [rewrite (move_piece_eq _ rs rd _ None None false eq_refl)|]|]);
    unfold with_key, with_bbs_key, switch_turn;
    cbn [bbs zkey current_turn fullmove ep_file history pos_hist];
    rewrite cr_lin; cbv beta iota;
    cbn [bbs zkey current_turn fullmove ep_file history pos_hist fst snd dk capsq];
    (f_equal; destruct (ep_file b); cbn [epw]; xor_solve).
Qed.

Definition rest_ep (rest : list Ply) : option nat :=
  match rest with
  | l :: _ => if p_dpp l then Some (file (p_dest l)) else None
  | [] => None
  end.
Definition hd_ply (rest : list Ply) : Ply := match rest with p :: _ => p | [] => ply_default end.
Definition unmake_kw (t : Color) (e : option nat) (old : Ply) (rest : list Ply) : N :=
  N.lxor (N.lxor (N.lxor (N.lxor (N.lxor (mv_kw old) (castle_kw (opposite t) old))
                                 (N.lxor (rkw (p_rights old)) (rkw (p_rights (hd_ply rest)))))
                         (epw e)) (epw (rest_ep rest))) z_turn.

Lemma unmake_move_eq t fm e old rest ph p z :
  unmake_move (mkBoard t fm e (old :: rest) ph p z) =
  Some (mkBoard (opposite t) (if color_eqb t White then wrap16 (fm + u16_max) else fm) (rest_ep rest) rest
                (remove_one (N.lxor z (unmake_kw t e old rest)) ph)
                (uncastle_bbs (unmv_bbs p old) (opposite t) old)
                (N.lxor z (unmake_kw t e old rest))).
Proof.
  unfold unmake_move. cbn [history]. cbv zeta. rewrite undo_move_piece_eq.
  unfold uncastle_bbs, unmv_bbs.
  assert (K : forall z1 z2 a b c d f g, z1 = z2 ->
            Some (mkBoard a b c d (remove_one z1 f) g z1) = Some (mkBoard a b c d (remove_one z2 f) g z2)).
  { intros; subst; reflexivity. }
  destruct (p_castles old) eqn:Ec;
    [destruct (castle_rook_squares (p_dest old)) as [[rs rd]|] eqn:Er; [rewrite undo_move_piece_eq|]|];
    unfold castle_status, last_ply, with_bbs_key, switch_turn;
    cbn [bbs zkey current_turn fullmove ep_file history pos_hist get_right];
    rewrite rk_undo_eq;
    (destruct rest as [|l rest']; [|destruct (p_dpp l) eqn:El]);
    cbv beta iota; cbn [bbs zkey current_turn fullmove ep_file history pos_hist dk capsq];
    unfold unmake_kw, castle_kw, mv_kw, rest_ep, hd_ply; rewrite ?Ec, ?Er, ?El;
    apply K; destruct e; cbn [epw dk capsq]; xor_solve.
Qed.

(* ------------------------------------------------------------------ *)
(* what move_okb and wfb give *)
Lemma get_piece_some b s k :
  okind_eqb (get_piece b s) (Some k) = true -> get_piece_kind (bbs b) s = PSome k.
Proof.
  intros H. apply okind_eqb_eq in H. unfold get_piece in H.
  destruct (get_piece_kind (bbs b) s); cbn in H; congruence.
Qed.
Lemma get_piece_none b s : PWf (bbs b) -> sq_valid s = true ->
  get_piece b s = None -> get_piece_kind (bbs b) s = PNone.
Proof.
  intros W V H. pose proof (gpk_not_malformed _ s W V). unfold get_piece in H.
  destruct (get_piece_kind (bbs b) s); cbn in H; congruence.
Qed.
Lemma is_none_eq {A} (o : option A) : is_none o = true -> o = None.
Proof. destruct o; cbn; congruence. Qed.

Lemma castle_rook_squares_facts d rs rd :
  castle_rook_squares d = Some (rs, rd) -> sq_valid rs = true /\ sq_valid rd = true /\ rs <> rd.
Proof.
  unfold castle_rook_squares. intros H.
  repeat match type of H with context [match ?x with _ => _ end] => destruct x end;
    try discriminate; inversion H; subst; (split; [reflexivity|split; [reflexivity|discriminate]]).
Qed.

Lemma wfb_facts b : wfb b = true ->
  PWf (bbs b) /\ ep_consistent b = true /\ fullmove b < 65536 /\ history b <> [] /\
  p_halfmove (last_ply b) < 65536.
Proof.
  unfold wfb. intros H. do 4 (apply andb_true_iff in H; destruct H as [H ?]).
  split; [apply pbb_wf_iff; exact H|]. split; [assumption|].
  split; [apply N.ltb_lt; assumption|]. split; [|apply N.ltb_lt; assumption].
  destruct (history b); [discriminate|discriminate].
Qed.

Definition castle_facts (b : Board) (m : Ply) : Prop :=
  let g := get_piece_kind (bbs b) in
  let s := p_start m in let d := p_dest m in let k := p_piece m in
  p_captured m = None /\ p_promoted m = None /\ p_ep m = false /\
  exists rs rd, castle_rook_squares d = Some (rs, rd) /\
    sq_valid rs = true /\ sq_valid rd = true /\ g rs = PSome (Rook, snd k) /\ g rd = PNone /\
    rs <> s /\ rd <> d /\ rs <> d /\ rd <> s /\ rs <> rd.

Lemma move_ok_facts b m : PWf (bbs b) -> move_okb b m = true ->
  let g := get_piece_kind (bbs b) in
  let s := p_start m in let d := p_dest m in let k := p_piece m in
  sq_valid s = true /\ sq_valid d = true /\ s <> d /\ g s = PSome k /\ snd k = current_turn b /\
  move_piece_panics (p_captured m) (p_ep m) = false /\
  cap_ok g s d (p_captured m) (capsq s d (p_ep m)) /\
  (p_castles m = true -> castle_facts b m) /\
  (p_dpp m = true -> (file d < 8)%nat).
Proof.
  intros W H. unfold move_okb in H. cbv zeta in H.
  apply andb_true_iff in H; destruct H as [H H10].
  apply andb_true_iff in H; destruct H as [H H9].
  apply andb_true_iff in H; destruct H as [H H8].
  apply andb_true_iff in H; destruct H as [H H7].
  apply andb_true_iff in H; destruct H as [H H6].
  apply andb_true_iff in H; destruct H as [H H5].
  apply andb_true_iff in H; destruct H as [H H4].
  apply andb_true_iff in H; destruct H as [H H3].
  apply andb_true_iff in H; destruct H as [H1 H2].
  cbv zeta.
  apply negb_true_iff in H3. apply sq_eqb_false in H3.
  apply get_piece_some in H4.
  assert (H5' : snd (p_piece m) = current_turn b) by (destruct (color_eqb_spec (snd (p_piece m)) (current_turn b)); congruence).
  split; [exact H1|]. split; [exact H2|]. split; [exact H3|]. split; [exact H4|]. split; [exact H5'|].
  assert (C : move_piece_panics (p_captured m) (p_ep m) = false /\
              cap_ok (get_piece_kind (bbs b)) (p_start m) (p_dest m) (p_captured m)
                     (capsq (p_start m) (p_dest m) (p_ep m))).
  { destruct (p_ep m) eqn:Eep; cbn [capsq].
    - apply andb_true_iff in H7; destruct H7 as [H7 E6].
      apply andb_true_iff in H7; destruct H7 as [H7 E5].
      apply andb_true_iff in H7; destruct H7 as [H7 E4].
      apply andb_true_iff in H7; destruct H7 as [H7 E3].
      apply andb_true_iff in H7; destruct H7 as [E1 E2].
      destruct (p_captured m) as [c|] eqn:Ec; [|discriminate E2].
      split; [reflexivity|]. cbn [cap_ok].
      apply get_piece_some in E3. apply is_none_eq in E4.
      apply negb_true_iff in E5, E6. apply sq_eqb_false in E5, E6.
      split.
      { unfold ep_capture_square, sq_valid in *. cbn [rank file].
        apply andb_true_iff in H1, H2. apply andb_true_iff. tauto. }
      split; [exact E3|]. split; [exact E6|]. right. split; [exact E5|].
      apply get_piece_none; assumption.
    - destruct (p_captured m) as [c|] eqn:Ec; (split; [reflexivity|]); cbn [cap_ok].
      + apply get_piece_some in H7. split; [exact H2|]. split; [exact H7|].
        split; [congruence|]. left. reflexivity.
      + apply okind_eqb_eq in H7. apply get_piece_none; assumption. }
  destruct C as [C1 C2]. split; [exact C1|]. split; [exact C2|]. split.
  - intros Ecs. rewrite Ecs in H9.
    apply andb_true_iff in H9; destruct H9 as [H9 F5].
    apply andb_true_iff in H9; destruct H9 as [H9 F4].
    apply andb_true_iff in H9; destruct H9 as [H9 F3].
    apply andb_true_iff in H9; destruct H9 as [F1 F2].
    apply is_none_eq in F2, F3. apply negb_true_iff in F4.
    unfold castle_facts. cbv zeta. split; [exact F2|]. split; [exact F3|]. split; [exact F4|].
    destruct (castle_rook_squares (p_dest m)) as [[rs rd]|] eqn:Er; [|discriminate F5].
    exists rs, rd. split; [reflexivity|].
    destruct (castle_rook_squares_facts _ _ _ Er) as (Vrs & Vrd & Nr).
    apply andb_true_iff in F5; destruct F5 as [F5 G6].
    apply andb_true_iff in F5; destruct F5 as [F5 G5].
    apply andb_true_iff in F5; destruct F5 as [F5 G4].
    apply andb_true_iff in F5; destruct F5 as [F5 G3].
    apply andb_true_iff in F5; destruct F5 as [G1 G2].
    apply get_piece_some in G1. apply is_none_eq in G2.
    apply negb_true_iff in G3, G4, G5, G6. apply sq_eqb_false in G3, G4, G5, G6.
    split; [exact Vrs|]. split; [exact Vrd|]. split; [exact G1|].
    split; [apply get_piece_none; assumption|]. repeat (split; [assumption|]). assumption.
  - intros Ed. rewrite Ed in H10. apply andb_true_iff in H10. destruct H10 as [_ H10].
    apply Nat.ltb_lt. exact H10.
Qed.

(* ------------------------------------------------------------------ *)
(* the bitboards after make_move: representation, and the way back *)
Lemma make_rep b m : PWf (bbs b) -> move_okb b m = true ->
  exists g, Rep (castle_bbs (mv_bbs (bbs b) m) (current_turn b) m) g
                (N.lxor (pk (bbs b)) (N.lxor (mv_kw m) (castle_kw (current_turn b) m))).
Proof.
  intros W H.
  destruct (move_ok_facts b m W H) as (Vs & Vd & Nsd & Hs & Hk & NP & Hc & Hcs & _). cbv zeta in *.
  pose proof (Rep_self _ W) as R0.
  pose proof (mp_rep _ _ _ _ _ _ (dk (p_piece m) (p_promoted m)) _ _ R0 Vs Vd Nsd Hs Hc) as R1.
  fold (mv_bbs (bbs b) m) in R1. fold (mv_kw m) in R1.
  unfold castle_bbs, castle_kw. destruct (p_castles m) eqn:Ecs.
  - destruct (Hcs eq_refl) as (Ecap & Eprom & Eep & rs & rd & Er & Vrs & Vrd & Hrs & Hrd & N1 & N2 & N3 & N4 & N5).
    rewrite Er. eexists. eapply Rep_w.
    + apply mp_rep; [exact R1|exact Vrs|exact Vrd|exact N5| |].
      * rewrite Ecap. unfold mp_fun, upd. sq_simp. rewrite <- Hk. exact Hrs.
      * cbn [cap_ok]. rewrite Ecap. unfold mp_fun, upd. sq_simp. exact Hrd.
    + xor_solve.
  - eexists. eapply Rep_w; [exact R1|]. xor_solve.
Qed.

Lemma make_unmake_bbs b m : PWf (bbs b) -> move_okb b m = true ->
  uncastle_bbs (unmv_bbs (castle_bbs (mv_bbs (bbs b) m) (current_turn b) m) (new_ply b m))
               (current_turn b) (new_ply b m) = bbs b.
Proof.
  intros W H.
  destruct (move_ok_facts b m W H) as (Vs & Vd & Nsd & Hs & Hk & NP & Hc & Hcs & _). cbv zeta in *.
  pose proof (Rep_self _ W) as R0.
  unfold uncastle_bbs, unmv_bbs, castle_bbs, mv_bbs, new_ply.
  cbn [p_start p_dest p_piece p_captured p_promoted p_castles p_ep set_clock_rights].
  destruct (p_castles m) eqn:Ecs.
  - destruct (Hcs eq_refl) as (Ecap & Eprom & Eep & rs & rd & Er & Vrs & Vrd & Hrs & Hrd & N1 & N2 & N3 & N4 & N5).
    rewrite Er, Ecap, Eprom, Eep. cbn [dk capsq]. rewrite Ecap in Hc. cbn [cap_ok] in Hc.
    rewrite <- Hk.
    eapply rt_castle; try eassumption.
  - eapply rt_simple; eassumption.
Qed.

(* ------------------------------------------------------------------ *)
(* counters, en-passant file, key on the way back *)
Lemma wrap16_lt x : wrap16 x < 65536.
Proof.
  unfold wrap16, u16_max. change 65535 with (N.ones 16). rewrite N.land_ones.
  change 65536 with (2 ^ 16). apply N.mod_lt. discriminate.
Qed.

Lemma wrap16_back f : f < 65536 -> wrap16 (wrap16 (f + 1) + u16_max) = f.
Proof.
  intros H. unfold wrap16, u16_max. change 65535 with (N.ones 16) at 1 3. rewrite !N.land_ones.
  rewrite N.add_mod_idemp_l by discriminate.
  replace (f + 1 + 65535) with (f + 1 * 2 ^ 16) by (change (2 ^ 16) with 65536; lia).
  rewrite N.mod_add by discriminate. apply N.mod_small. exact H.
Qed.

Lemma rest_ep_hist b : ep_consistent b = true -> history b <> [] -> rest_ep (history b) = ep_file b.
Proof.
  unfold ep_consistent, last_ply, rest_ep. intros H Hne.
  destruct (history b) as [|l rest]; [congruence|].
  destruct (ep_file b) as [f|].
  - apply andb_true_iff in H; destruct H as [H _].
    apply andb_true_iff in H; destruct H as [H1 H2].
    rewrite H1. apply Nat.eqb_eq in H2. congruence.
  - apply negb_true_iff in H. rewrite H. reflexivity.
Qed.

Lemma key_back b m : rest_ep (history b) = ep_file b ->
  N.lxor (N.lxor (zkey b) (make_kw b m))
         (unmake_kw (opposite (current_turn b)) (new_ep m) (new_ply b m) (history b)) = zkey b.
Proof.
  intros He. unfold make_kw, unmake_kw. rewrite opposite_involutive, He.
  change (mv_kw (new_ply b m)) with (mv_kw m).
  change (castle_kw (current_turn b) (new_ply b m)) with (castle_kw (current_turn b) m).
  change (p_rights (new_ply b m)) with (snd (crr b m)).
  change (hd_ply (history b)) with (last_ply b).
  rewrite <- (cr_rkw m (p_rights (last_ply b))). fold (crr b m).
  xor_solve.
Qed.

(* ------------------------------------------------------------------ *)
Lemma make_unmake : forall b m, wfb b = true -> move_okb b m = true ->
  unmake_move (make_move b m) = Some b.
Proof.
  intros b m Wb Hm.
  destruct (wfb_facts b Wb) as (W & Hep & Hfm & Hh & _).
  destruct (move_ok_facts b m W Hm) as (_ & _ & _ & _ & _ & NP & _).
  rewrite (make_move_eq b m NP), unmake_move_eq.
  pose proof (rest_ep_hist b Hep Hh) as He.
  rewrite (key_back b m He), opposite_involutive, (make_unmake_bbs b m W Hm), He.
  cbn [remove_one]. rewrite N.eqb_refl.
  assert (F : (if color_eqb (opposite (current_turn b)) White
               then wrap16 ((if color_eqb (opposite (current_turn b)) White
                             then wrap16 (fullmove b + 1) else fullmove b) + u16_max)
               else if color_eqb (opposite (current_turn b)) White
                    then wrap16 (fullmove b + 1) else fullmove b) = fullmove b).
  { destruct (color_eqb (opposite (current_turn b)) White); [apply wrap16_back; exact Hfm|reflexivity]. }
  rewrite F. destruct b; reflexivity.
Qed.

Lemma wfb_make : forall b m, wfb b = true -> move_okb b m = true -> wfb (make_move b m) = true.
Proof.
  intros b m Wb Hm.
  destruct (wfb_facts b Wb) as (W & Hep & Hfm & Hh & Hhm).
  destruct (move_ok_facts b m W Hm) as (_ & _ & _ & _ & _ & NP & _ & _ & Hdpp). cbv zeta in Hdpp.
  rewrite (make_move_eq b m NP). unfold wfb.
  cbn [bbs fullmove history]. unfold ep_consistent, last_ply.
  cbn [ep_file history]. unfold new_ply at 1 2 3. unfold new_ep.
  cbn [p_dpp p_dest p_halfmove set_clock_rights].
  destruct (make_rep b m W Hm) as [g [W' _]].
  apply pbb_wf_iff in W'. rewrite W'. cbn [andb].
  apply andb_true_iff; split; [apply andb_true_iff; split; [apply andb_true_iff; split|]|].
  - destruct (p_dpp m) eqn:Ed.
    + rewrite Nat.eqb_refl. cbn [andb]. apply Nat.ltb_lt. apply Hdpp. reflexivity.
    + reflexivity.
  - apply N.ltb_lt. destruct (color_eqb (opposite (current_turn b)) White); [apply wrap16_lt|exact Hfm].
  - reflexivity.
  - apply N.ltb_lt. unfold new_ply. cbn [p_halfmove set_clock_rights]. unfold new_hm.
    repeat match goal with |- context [match ?x with _ => _ end] => destruct x end;
      try apply wrap16_lt; reflexivity.
Qed.

(* ------------------------------------------------------------------ *)
(* nested probes *)
Lemma nested_probe : forall p b b', run_probe b p = Some b' -> b' = b.
Proof.
  fix IH 1. intros [m cs] b b'. cbn [run_probe].
  destruct (wfb b && move_okb b m) eqn:E; [|discriminate].
  apply andb_true_iff in E. destruct E as [Wb Hm].
  set (go := fix go (cs : list Probe) (x : Board) {struct cs} : option Board :=
               match cs with
               | [] => Some x
               | c :: t => match run_probe x c with Some x' => go t x' | None => None end
               end).
  assert (G : forall x x', go cs x = Some x' -> x' = x).
  { clear -IH. induction cs as [|c t IHt]; intros x x' H; cbn in H.
    - congruence.
    - destruct (run_probe x c) as [x1|] eqn:E1; [|discriminate].
      apply IH in E1. subst x1. apply IHt. exact H. }
  destruct (go cs (make_move b m)) as [b1|] eqn:E1; [|discriminate].
  apply G in E1. subst b1. rewrite (make_unmake b m Wb Hm). congruence.
Qed.

(* ------------------------------------------------------------------ *)
(* the legal-move query leaves the board alone *)
Lemma retain_legal_pure b ms : wfb b = true -> forallb (move_okb b) ms = true ->
  retain_legal b ms = (filter (is_legal_move b) ms, Some b).
Proof.
  intros Wb. induction ms as [|m t IH]; intros H; cbn [retain_legal filter forallb] in *.
  - reflexivity.
  - apply andb_true_iff in H. destruct H as [Hm Ht].
    unfold is_legal_move_st. rewrite (make_unmake b m Wb Hm). rewrite (IH Ht).
    unfold is_legal_move. destruct (negb (is_in_check (make_move b m) (snd (p_piece m)))); reflexivity.
Qed.

Lemma query_pure : forall b, wfb b = true -> forallb (move_okb b) (get_all_moves b) = true ->
  get_legal_moves_st b = (get_legal_moves b, Some b).
Proof. intros b Wb H. unfold get_legal_moves_st, get_legal_moves. apply retain_legal_pure; assumption. Qed.

(* ------------------------------------------------------------------ *)
(* the key *)
Lemma key_make_alg (z P r0 e0 t0 e1 mv ca F r1 zt : N) :
  z = N.lxor (N.lxor (N.lxor P r0) e0) t0 -> N.lxor F r1 = r0 ->
  N.lxor z (N.lxor (N.lxor (N.lxor (N.lxor (N.lxor e0 e1) mv) ca) F) zt) =
  N.lxor (N.lxor (N.lxor (N.lxor P (N.lxor mv ca)) r1) e1) (N.lxor t0 zt).
Proof. intros -> <-. xor_solve. Qed.

Lemma key_make : forall b m, wfb b = true -> move_okb b m = true -> KeyOK b -> KeyOK (make_move b m).
Proof.
  intros b m Wb Hm K. unfold KeyOK in *.
  destruct (wfb_facts b Wb) as (W & _).
  destruct (move_ok_facts b m W Hm) as (_ & _ & _ & _ & _ & NP & _).
  rewrite kfs_eq in *. rewrite (make_move_eq b m NP).
  cbn [bbs zkey ep_file current_turn]. unfold last_ply at 1. cbn [history].
  change (p_rights (new_ply b m)) with (snd (crr b m)).
  destruct (make_rep b m W Hm) as [g [_ [_ Pk]]].
  rewrite Pk, tw_opposite. unfold make_kw.
  apply key_make_alg with (r0 := rkw (p_rights (last_ply b))).
  - exact K.
  - apply cr_rkw.
Qed.

Inductive Chain : nat -> Board -> Prop :=
| Chain0 b : wfb b = true -> KeyOK b -> Chain 0 b
| ChainS d b m : Chain d b -> move_okb b m = true -> Chain (S d) (make_move b m).

Lemma chain_ok d b : Chain d b -> wfb b = true /\ KeyOK b.
Proof.
  induction 1 as [b Wb K|d b m C [Wb K] Hm].
  - split; assumption.
  - split; [apply wfb_make; assumption|apply key_make; assumption].
Qed.

Lemma run_ops_chain ops : forall d b b', Chain d b -> run_ops b d ops = Some b' -> exists d', Chain d' b'.
Proof.
  induction ops as [|o t IH]; intros d b b' C H; cbn [run_ops] in H.
  - exists d. congruence.
  - destruct o as [m|].
    + destruct (move_okb b m) eqn:Hm; [|discriminate].
      apply (IH (S d) (make_move b m)); [constructor; assumption|exact H].
    + destruct d as [|d]; [discriminate|].
      inversion C as [|d0 b0 m0 C0 Hm0]; subst.
      destruct (chain_ok _ _ C0) as [Wb0 _].
      rewrite (make_unmake b0 m0 Wb0 Hm0) in H.
      apply (IH d b0); assumption.
Qed.

Lemma key_history : forall ops b0 b, wfb b0 = true -> KeyOK b0 -> run_ops b0 0 ops = Some b ->
  KeyOK b /\ wfb b = true.
Proof.
  intros ops b0 b Wb K H.
  destruct (run_ops_chain ops 0 b0 b (Chain0 b0 Wb K) H) as [d C].
  destruct (chain_ok d b C). split; assumption.
Qed.

Lemma fold_left_ext_in {A B} (f g : A -> B -> A) l :
  (forall a x, In x l -> f a x = g a x) -> forall a, fold_left f l a = fold_left g l a.
Proof.
  induction l as [|x t IH]; intros H a; cbn; [reflexivity|].
  rewrite H by (left; reflexivity). apply IH. intros a' y Hy. apply H. right. exact Hy.
Qed.

Lemma key_function : forall b1 b2, abs4 b1 = abs4 b2 -> key_from_scratch b1 = key_from_scratch b2.
Proof.
  intros b1 b2 H. unfold abs4 in H.
  pose proof (f_equal (fun x => fst (fst (fst x))) H) as Hp.
  pose proof (f_equal (fun x => snd (fst (fst x))) H) as Ht.
  pose proof (f_equal (fun x => fst (fst (fst (snd (fst x))))) H) as Hwk.
  pose proof (f_equal (fun x => snd (fst (fst (snd (fst x))))) H) as Hwq.
  pose proof (f_equal (fun x => snd (fst (snd (fst x)))) H) as Hbk.
  pose proof (f_equal (fun x => snd (snd (fst x))) H) as Hbq.
  pose proof (f_equal (fun x => snd x) H) as He.
  cbn [fst snd] in Hp, Ht, Hwk, Hwq, Hbk, Hbq, He. clear H.
  unfold key_from_scratch. rewrite Ht, Hwk, Hwq, Hbk, Hbq, He.
  assert (P : forall i, In i (seq 0 64) -> get_piece b1 (sq_of_idx i) = get_piece b2 (sq_of_idx i)).
  { apply map_ext_in_iff. exact Hp. }
  rewrite (fold_left_ext_in
             (fun acc i => match get_piece b1 (sq_of_idx i) with
                           | Some k => N.lxor acc (z_piece k (sq_of_idx i)) | None => acc end)
             (fun acc i => match get_piece b2 (sq_of_idx i) with
                           | Some k => N.lxor acc (z_piece k (sq_of_idx i)) | None => acc end)).
  - reflexivity.
  - intros a i Hi. rewrite (P i Hi). reflexivity.
Qed.

Lemma key_transposition : forall b1 b2, KeyOK b1 -> KeyOK b2 -> abs4 b1 = abs4 b2 -> zkey b1 = zkey b2.
Proof. unfold KeyOK. intros b1 b2 K1 K2 H. rewrite K1, K2. apply key_function. exact H. Qed.

Lemma with_key_KeyOK b : KeyOK (with_key b (key_from_scratch b)).
Proof. unfold KeyOK. rewrite (kfs_eq (with_key b (key_from_scratch b))), (kfs_eq b). reflexivity. Qed.

Lemma key_fen : forall s b, from_fen s = Some b -> KeyOK b.
Proof.
  intros s b H. unfold from_fen, from_fen_fields in H.
  destruct (split_ws s) as [|f0 [|f1 [|f2 [|f3 rest]]]]; try discriminate H.
  destruct (placement f0 0 acc_empty); [|discriminate H].
  destruct (fen_turn f1); [|discriminate H].
  destruct (fen_rights f2 _); [|discriminate H].
  destruct (fen_ep f3); [|discriminate H].
  destruct (parse_u16 (nth 0 rest "0"%string)); [|discriminate H].
  destruct (parse_u16 (nth 1 rest "1"%string)); [|discriminate H].
  cbv zeta in H. injection H as <-. apply with_key_KeyOK.
Qed.

Lemma key_start : KeyOK start_board.
Proof. unfold start_board. cbv zeta. apply with_key_KeyOK. Qed.
