(* BoardProofsKey.v — xor algebra, the piece part of the from-scratch key as an xor over squares,
   the representation predicate Rep (placement function + piece key), castling revocations. *)
From Coq Require Import NArith ZArith List Lia Bool Btauto.
Import ListNotations.
From RCE Require Import lib.Bits generated.Consts generated.ZTable model.Board model.Wf.
From RCE Require Import proofs.BoardProofsPBB.
Open Scope N_scope.

Local Opaque z_piece z_castle z_ep z_turn zt.

(* equalities between xor combinations of arbitrary words: bitwise, with the words' bits
   abstracted to boolean variables before the reflexive decision procedure runs (the reflexive
   proof is sealed with [abstract] so that the kernel never evaluates the words themselves) *)
Ltac xor_solve :=
  apply N.bits_inj; intro; rewrite ?N.lxor_spec, ?N.bits_0;
  repeat match goal with
         | |- context [N.testbit ?x ?n] =>
           let v := fresh "v" in generalize (N.testbit x n); intro v
         end;
  abstract btauto.

(* ------------------------------------------------------------------ *)
(* xor folds *)
Definition xfold (f : nat -> N) (l : list nat) (a : N) : N :=
  fold_left (fun acc i => N.lxor acc (f i)) l a.

Lemma fold_left_ext {A B} (f g : A -> B -> A) l : (forall a x, f a x = g a x) ->
  forall a, fold_left f l a = fold_left g l a.
Proof. intros H. induction l as [|x t IH]; intros a; cbn; [reflexivity|]. rewrite H. apply IH. Qed.

Lemma xfold_ext_in f f' l : (forall i, In i l -> f i = f' i) -> forall a, xfold f l a = xfold f' l a.
Proof.
  unfold xfold. induction l as [|x t IH]; intros H a; cbn; [reflexivity|].
  rewrite (H x) by (left; reflexivity). apply IH. intros i Hi. apply H. right. exact Hi.
Qed.

Lemma xfold_acc f l : forall a w, xfold f l (N.lxor a w) = N.lxor (xfold f l a) w.
Proof.
  unfold xfold. induction l as [|x t IH]; intros a w; cbn; [reflexivity|].
  rewrite <- IH. f_equal. xor_solve.
Qed.

Lemma xfold_upd f f' l j w : NoDup l -> In j l ->
  (forall i, In i l -> i <> j -> f' i = f i) -> f' j = N.lxor (f j) w ->
  forall a, xfold f' l a = N.lxor (xfold f l a) w.
Proof.
  induction l as [|x t IH]; intros ND Hj Hf Hw a; [destruct Hj|].
  inversion ND as [|? ? Hx ND']; subst.
  change (xfold f' (x :: t) a) with (xfold f' t (N.lxor a (f' x))).
  change (xfold f (x :: t) a) with (xfold f t (N.lxor a (f x))).
  destruct (Nat.eq_dec x j) as [->|Hxj].
  - rewrite Hw. rewrite <- xfold_acc.
    replace (N.lxor a (N.lxor (f j) w)) with (N.lxor (N.lxor a (f j)) w) by xor_solve.
    apply xfold_ext_in. intros i Hi. apply Hf; [right; exact Hi|]. intros ->. contradiction.
  - rewrite (Hf x) by (auto; left; reflexivity). apply IH; auto.
    + destruct Hj; [contradiction|assumption].
    + intros i Hi. apply Hf. right. exact Hi.
Qed.

(* ------------------------------------------------------------------ *)
(* piece part of the key *)
Definition wdv (v : PieceAt) (s : Square) : N := match v with PSome k => z_piece k s | _ => 0 end.
Definition wd (g : Square -> PieceAt) (i : nat) : N := wdv (g (sq_of_idx i)) (sq_of_idx i).
Definition pk (p : PBB) : N := xfold (wd (get_piece_kind p)) (seq 0 64) 0.

Lemma pk_fold b :
  fold_left (fun acc i => match get_piece b (sq_of_idx i) with
                          | Some k => N.lxor acc (z_piece k (sq_of_idx i))
                          | None => acc end) (seq 0 64) 0 = pk (bbs b).
Proof.
  unfold pk, xfold. apply fold_left_ext. intros a i. unfold get_piece, wd, wdv.
  destruct (get_piece_kind (bbs b) (sq_of_idx i)); cbn [piece_opt]; try reflexivity;
    symmetry; apply N.lxor_0_r.
Qed.

Lemma pk_change p q s v : sq_valid s = true ->
  (forall x, sq_valid x = true -> get_piece_kind q x = upd (get_piece_kind p) s v x) ->
  pk q = N.lxor (pk p) (N.lxor (wdv (get_piece_kind p s) s) (wdv v s)).
Proof.
  intros V H. unfold pk. apply xfold_upd with (j := idx s).
  - apply seq_NoDup.
  - apply in_seq. pose proof (idx_lt s V). lia.
  - intros i Hi Hne. apply in_seq in Hi. unfold wd.
    rewrite H by (apply sq_of_idx_valid; lia). unfold upd.
    destruct (sq_eqb_spec s (sq_of_idx i)) as [E|E]; [|reflexivity].
    exfalso. apply Hne. rewrite E. symmetry. apply idx_sq_of_idx.
  - unfold wd. rewrite (sq_of_idx_idx s V). rewrite (H s V). unfold upd. rewrite sq_eqb_refl.
    xor_solve.
Qed.

(* ------------------------------------------------------------------ *)
(* representation: well-formed boards, the placement function, the piece key *)
Definition Rep (p : PBB) (g : Square -> PieceAt) (w : N) : Prop :=
  PWf p /\ (forall x, sq_valid x = true -> get_piece_kind p x = g x) /\ pk p = w.

Lemma Rep_self p : PWf p -> Rep p (get_piece_kind p) (pk p).
Proof. intros W. split; [exact W|]. split; [intros; reflexivity|reflexivity]. Qed.

Lemma Rep_add p g w s k : Rep p g w -> sq_valid s = true -> g s = PNone ->
  Rep (pbb_add p s k) (upd g s (PSome k)) (N.lxor w (z_piece k s)).
Proof.
  intros [W [G K]] V E. rewrite <- (G s V) in E.
  assert (F : forall x, sq_valid x = true ->
                        get_piece_kind (pbb_add p s k) x = upd (get_piece_kind p) s (PSome k) x).
  { intros x Vx. apply gpk_add; assumption. }
  split; [apply PWf_add; assumption|]. split.
  - intros x Vx. rewrite (F x Vx). unfold upd. destruct (sq_eqb s x); [reflexivity|apply G; exact Vx].
  - rewrite (pk_change p _ s (PSome k) V F), E, K. cbn [wdv]. f_equal; try apply N.lxor_0_l.
Qed.

Lemma Rep_remove p g w s k : Rep p g w -> sq_valid s = true -> g s = PSome k ->
  Rep (pbb_remove p s k) (upd g s PNone) (N.lxor w (z_piece k s)).
Proof.
  intros [W [G K]] V E. rewrite <- (G s V) in E.
  assert (F : forall x, sq_valid x = true ->
                        get_piece_kind (pbb_remove p s k) x = upd (get_piece_kind p) s PNone x).
  { intros x Vx. apply gpk_remove; assumption. }
  split; [apply PWf_remove; assumption|]. split.
  - intros x Vx. rewrite (F x Vx). unfold upd. destruct (sq_eqb s x); [reflexivity|apply G; exact Vx].
  - rewrite (pk_change p _ s PNone V F), E, K. cbn [wdv]. f_equal; try apply N.lxor_0_r.
Qed.

Lemma Rep_ext p q g g' w w' : Rep p g w -> Rep q g' w' ->
  (forall x, sq_valid x = true -> g x = g' x) -> p = q.
Proof.
  intros [Wp [Gp _]] [Wq [Gq _]] H. apply pbb_ext; try assumption.
  intros s V. rewrite (Gp s V), (Gq s V). apply H. exact V.
Qed.

(* ------------------------------------------------------------------ *)
(* the from-scratch key as an xor of four parts *)
Definition rkw (r : Rights) : N :=
  N.lxor (N.lxor (N.lxor (if r_wk r then z_castle WK else 0) (if r_wq r then z_castle WQ else 0))
                 (if r_bk r then z_castle BK else 0)) (if r_bq r then z_castle BQ else 0).
Definition epw (o : option nat) : N := match o with Some f => z_ep f | None => 0 end.
Definition tw (c : Color) : N := if color_eqb c White then z_turn else 0.

(* stated with the xor written out: the kernel must never be asked to unfold a definition
   sitting on top of [pk] during conversion *)
Lemma kfs_eq b :
  key_from_scratch b =
  N.lxor (N.lxor (N.lxor (pk (bbs b)) (rkw (p_rights (last_ply b)))) (epw (ep_file b)))
         (tw (current_turn b)).
Proof.
  unfold key_from_scratch. rewrite pk_fold. unfold toggle_if, castle_status, get_right, rkw, epw, tw.
  generalize (pk (bbs b)). intros z.
  destruct (r_wk (p_rights (last_ply b))), (r_wq (p_rights (last_ply b))),
    (r_bk (p_rights (last_ply b))), (r_bq (p_rights (last_ply b))), (ep_file b),
    (color_eqb (current_turn b) White); xor_solve.
Qed.

Lemma tw_opposite c : tw (opposite c) = N.lxor (tw c) z_turn.
Proof. destruct c; unfold tw; cbn [opposite color_eqb]; xor_solve. Qed.

(* the four toggles of unmake_move *)
Lemma rk_undo_eq z r r0 :
  toggle_if (negb (Bool.eqb (r_bq r) (r_bq r0)))
    (toggle_if (negb (Bool.eqb (r_bk r) (r_bk r0)))
       (toggle_if (negb (Bool.eqb (r_wq r) (r_wq r0)))
          (toggle_if (negb (Bool.eqb (r_wk r) (r_wk r0))) z (z_castle WK)) (z_castle WQ)) (z_castle BK))
    (z_castle BQ) = N.lxor z (N.lxor (rkw r) (rkw r0)).
Proof.
  unfold rkw, toggle_if. destruct r as [a b c d], r0 as [a0 b0 c0 d0]. cbn [r_wk r_wq r_bk r_bq].
  destruct a, a0, b, b0, c, c0, d, d0; cbn [Bool.eqb negb]; xor_solve.
Qed.

(* ------------------------------------------------------------------ *)
(* castling revocations *)
Definition cr1 (m : Ply) (st : N * Rights) : N * Rights :=
  match p_piece m, rank (p_start m), file (p_start m) with
  | (King, White), _, _ => revoke (revoke st WK) WQ
  | (King, Black), _, _ => revoke (revoke st BK) BQ
  | (Rook, White), 0, 0 => revoke st WQ
  | (Rook, White), 0, 7 => revoke st WK
  | (Rook, Black), 7, 0 => revoke st BQ
  | (Rook, Black), 7, 7 => revoke st BK
  | _, _, _ => st
  end%nat.
Definition cr2 (m : Ply) (st1 : N * Rights) : N * Rights :=
  match p_captured m, rank (p_dest m), file (p_dest m) with
  | Some (Rook, White), 0, 0 => revoke st1 WQ
  | Some (Rook, White), 0, 7 => revoke st1 WK
  | Some (Rook, Black), 7, 0 => revoke st1 BQ
  | Some (Rook, Black), 7, 7 => revoke st1 BK
  | _, _, _ => st1
  end%nat.
Lemma cr_eq m st : castling_revocations m st = cr2 m (cr1 m st).
Proof. reflexivity. Qed.

Definition RevClosed (R : N * Rights -> N * Rights -> Prop) : Prop :=
  forall a b k, R a b -> R (revoke a k) (revoke b k).

Lemma cr1_rel R (Hrev : RevClosed R) m a b : R a b -> R (cr1 m a) (cr1 m b).
Proof.
  unfold RevClosed in Hrev. intros H. unfold cr1.
  repeat match goal with |- context [match ?x with _ => _ end] => destruct x end; auto.
Qed.
Lemma cr2_rel R (Hrev : RevClosed R) m a b : R a b -> R (cr2 m a) (cr2 m b).
Proof.
  unfold RevClosed in Hrev. intros H. unfold cr2.
  repeat match goal with |- context [match ?x with _ => _ end] => destruct x end; auto.
Qed.
Lemma cr_rel R (Hrev : RevClosed R) m a b :
  R a b -> R (castling_revocations m a) (castling_revocations m b).
Proof. intros H. rewrite !cr_eq. apply cr2_rel; [exact Hrev|]. apply cr1_rel; [exact Hrev|]. exact H. Qed.

Lemma cr_lin m z r :
  castling_revocations m (z, r) =
  (N.lxor z (fst (castling_revocations m (0, r))), snd (castling_revocations m (0, r))).
Proof.
  assert (H : (fun a b => snd a = snd b /\ fst a = N.lxor z (fst b))
                (castling_revocations m (z, r)) (castling_revocations m (0, r))).
  { apply (cr_rel (fun a b => snd a = snd b /\ fst a = N.lxor z (fst b))).
    - intros [za ra] [zb rb] k [E1 E2]. cbn [fst snd] in *. subst ra za. unfold revoke. cbn [fst snd].
      destruct (get_right rb k); cbn [fst snd]; split; auto. xor_solve.
    - cbn [fst snd]. split; [reflexivity|]. symmetry. apply N.lxor_0_r. }
  cbv beta in H. destruct H as [E1 E2].
  destruct (castling_revocations m (z, r)) as [z' r']. cbn [fst snd] in *. congruence.
Qed.

Lemma cr_rkw m r :
  N.lxor (fst (castling_revocations m (0, r))) (rkw (snd (castling_revocations m (0, r)))) = rkw r.
Proof.
  refine (cr_rel (fun a _ => N.lxor (fst a) (rkw (snd a)) = rkw r) _ m (0, r) (0, r) _).
  - intros [za ra] _ k E. cbn [fst snd] in *. unfold revoke. cbn [fst snd].
    destruct (get_right ra k) eqn:G; cbn [fst snd]; [|exact E].
    rewrite <- E. destruct ra as [a b c d]. unfold rkw.
    destruct k; cbn [get_right clear_right r_wk r_wq r_bk r_bq] in *; subst; xor_solve.
  - cbn [fst snd]. apply N.lxor_0_l.
Qed.
