(* FenProofs.v — C07: the engine's FEN reader agrees with the independent reader of SpecFen.v;
   boards with the same `core` behave alike; `abs` determines `core` on well-formed bitboards.
   Parts 1 and 2 are in FenProofsCore.v, the placement loop in FenProofsPlace.v. *)
From Coq Require Import NArith ZArith List Lia Bool Ascii String.
Import ListNotations.
From RCE Require Import lib.Bits model.Board model.Movegen model.Wf model.Ops model.Fen model.Abs
  spec.Rules spec.SpecFen.
From RCE Require Export proofs.FenProofsCore proofs.FenProofsPlace.
Open Scope N_scope.

(* ------------------------------------------------------------------ *)
(* the bitboards built from the accumulators *)

Lemma bb_get_build a K : bb_get (build_bbs a) K = a K.
Proof. destruct K as [[] []]; reflexivity. Qed.

Lemma lor6_perm p k q r b n :
  N.lor (N.lor (N.lor (N.lor (N.lor p k) q) r) b) n = N.lor (N.lor (N.lor (N.lor (N.lor p n) b) r) q) k.
Proof.
  apply N.bits_inj. intros i. rewrite !N.lor_spec.
  destruct (N.testbit p i), (N.testbit k i), (N.testbit q i), (N.testbit r i), (N.testbit b i),
           (N.testbit n i); reflexivity.
Qed.

Section Built.
  Variable a : acc12.
  Variable cs : list (option Kind).
  Hypothesis Hlen : List.length cs = 64%nat.
  Hypothesis Hbits : forall K n, N.testbit (a K) n = true <->
                                 exists m, (m < 64)%nat /\ n = N.of_nat m /\ nth_error cs m = Some (Some K).

  Lemma build_wf : pbb_wf (build_bbs a) = true.
  Proof.
    apply pbb_wf_intro.
    - intros K. rewrite bb_get_build. apply lt64_of_bits. intros n Hn.
      apply Hbits in Hn. destruct Hn as (m & Hm & -> & _). lia.
    - intros K K' Hne. rewrite !bb_get_build. apply N.bits_inj_0. intros n.
      rewrite N.land_spec.
      destruct (N.testbit (a K) n) eqn:E1; [|reflexivity].
      destruct (N.testbit (a K') n) eqn:E2; [|reflexivity].
      apply Hbits in E1. apply Hbits in E2.
      destruct E1 as (m & _ & -> & C1). destruct E2 as (m' & _ & Hm' & C2).
      apply Nat2N.inj in Hm'. subst m'. rewrite C1 in C2. inversion C2. contradiction.
    - unfold build_bbs, white_union.
      cbn [white_pieces white_pawns white_knights white_bishops white_rooks white_queens white_king].
      apply lor6_perm.
    - unfold build_bbs, black_union.
      cbn [black_pieces black_pawns black_knights black_bishops black_rooks black_queens black_king].
      apply lor6_perm.
    - reflexivity.
  Qed.

  Lemma build_get m : (m < 64)%nat ->
    piece_opt (get_piece_kind (build_bbs a) (sq_of_idx m)) = nth m cs None.
  Proof.
    intros Hm. pose proof build_wf as W.
    destruct (nth_error cs m) as [[K|]|] eqn:E.
    - rewrite (nth_error_nth _ _ _ E).
      apply (wf_bit_iff _ K m W Hm). rewrite bb_get_build. apply Hbits.
      exists m. auto.
    - rewrite (nth_error_nth _ _ _ E).
      rewrite (wf_none_iff _ m W Hm); [reflexivity|].
      intros K. rewrite bb_get_build.
      destruct (N.testbit (a K) (N.of_nat m)) eqn:T; [|reflexivity].
      apply Hbits in T. destruct T as (m' & _ & Hm' & C). apply Nat2N.inj in Hm'. subst m'.
      rewrite E in C. discriminate.
    - apply nth_error_None in E. lia.
  Qed.

  Lemma build_cells (b : Board) : bbs b = build_bbs a ->
    map (fun i => get_piece b (sq_of_idx i)) (seq 0 64) = cs.
  Proof.
    intros Hb. apply (nth_ext _ _ (get_piece b (sq_of_idx 0)) None).
    - rewrite map_length, seq_length, Hlen. reflexivity.
    - rewrite map_length, seq_length. intros n Hn.
      rewrite (map_nth (fun i => get_piece b (sq_of_idx i)) (seq 0 64) 0%nat n).
      rewrite seq_nth by exact Hn. cbn [plus]. unfold get_piece. rewrite Hb. apply build_get. exact Hn.
  Qed.
End Built.

(* ------------------------------------------------------------------ *)
(* the other fields *)

Lemma side_agrees sd col : side_of sd = Some col -> fen_turn sd = Some col /\ nows sd = true.
Proof.
  unfold side_of. destruct (String.eqb_spec sd "w") as [->|_].
  - intros H. inversion H. split; reflexivity.
  - destruct (String.eqb_spec sd "b") as [->|_]; [|discriminate].
    intros H. inversion H. split; reflexivity.
Qed.

Lemma rights_chars_agrees s : forall r r',
  rights_chars s r = Some r' -> fen_rights s r = Some r' /\ nows s = true.
Proof.
  induction s as [|c t IH]; intros r r' H.
  - cbn [rights_chars] in H. split; [exact H|reflexivity].
  - destruct c as [[] [] [] [] [] [] [] []]; cbn [rights_chars] in H; try discriminate;
      match type of H with (if ?x then _ else _) = _ => destruct x; [discriminate|] end;
      destruct (IH _ _ H) as [I1 I2]; (split; [exact I1|cbn [nows]; rewrite I2; reflexivity]).
Qed.

Definition no_rights : Rights := mkRights false false false false.

Lemma rights_agrees cr r : rights_of cr = Some r -> fen_rights cr no_rights = Some r /\ nows cr = true.
Proof.
  unfold rights_of. destruct (String.eqb_spec cr "-") as [->|_].
  - intros H. inversion H. split; reflexivity.
  - destruct (String.eqb cr ""); [discriminate|]. apply rights_chars_agrees.
Qed.

Lemma ep_agrees col e ef : ep_of col e = Some ef ->
  fen_ep e = Some ef /\ nows e = true /\ (forall x, ef = Some x -> (x < 8)%nat).
Proof.
  unfold ep_of. destruct (String.eqb_spec e "-") as [->|_].
  - intros H. inversion H. repeat split; intros; discriminate.
  - destruct e as [|f [|r [|? ?]]]; try discriminate.
    destruct (Nat.leb 97 (nat_of_ascii f) && Nat.leb (nat_of_ascii f) 104
              && Ascii.eqb r (match col with White => "6" | Black => "3" end)%char) eqn:Ec; [|discriminate].
    intros H. inversion H. subst ef. clear H.
    apply andb_true_iff in Ec. destruct Ec as [Ec E3].
    pose proof Ec as Ec'. apply andb_true_iff in Ec. destruct Ec as [E1 E2].
    apply Nat.leb_le in E1. apply Nat.leb_le in E2. apply Ascii.eqb_eq in E3.
    split; [|split].
    + unfold fen_ep. cbv zeta. destruct (Nat.eqb_spec (nat_of_ascii f) 45); [lia|].
      rewrite Ec'. reflexivity.
    + cbn [nows]. rewrite is_ws_false by lia. subst r. destruct col; reflexivity.
    + intros x Hx. inversion Hx. lia.
Qed.

Lemma decimal_spec s : forall acc v, decimal s acc = Some v ->
  acc <= v /\ nows s = true /\ (v <= 65535 -> digits s acc = Some v).
Proof.
  induction s as [|c t IH]; intros acc v H.
  - cbn [decimal] in H. inversion H. subst. split; [lia|]. split; [reflexivity|]. intros _. reflexivity.
  - cbn [decimal] in H. cbv zeta in H.
    destruct (Nat.leb 48 (nat_of_ascii c) && Nat.leb (nat_of_ascii c) 57) eqn:Ed; [|discriminate].
    destruct (IH _ _ H) as (I1 & I2 & I3).
    pose proof Ed as Ed'. apply andb_true_iff in Ed. destruct Ed as [E1 E2].
    apply Nat.leb_le in E1. apply Nat.leb_le in E2.
    split; [lia|]. split.
    + cbn [nows]. rewrite is_ws_false by lia. rewrite I2. reflexivity.
    + intros Hv. cbn [digits]. cbv zeta. rewrite Ed'.
      replace (N.leb (acc * 10 + N.of_nat (nat_of_ascii c - 48)) 65535) with true
        by (symmetry; apply N.leb_le; lia).
      apply I3. exact Hv.
Qed.

Lemma parse_u16_digit c t : Nat.leb 48 (nat_of_ascii c) = true ->
  parse_u16 (String c t) = digits (String c t) 0.
Proof.
  intros H. destruct c as [[] [] [] [] [] [] [] []]; try reflexivity; vm_compute in H; discriminate.
Qed.

Lemma number_agrees s v : number s = Some v -> parse_u16 s = Some v /\ nows s = true.
Proof.
  unfold number. destruct (String.eqb_spec s "") as [->|Hne]; [discriminate|].
  destruct (Nat.ltb 5 (String.length s)); [discriminate|].
  destruct (decimal s 0) as [w|] eqn:Ed; [|discriminate].
  destruct (N.leb_spec w 65535) as [Hw|Hw]; [|discriminate].
  intros H. inversion H. subst w. clear H.
  destruct (decimal_spec s 0 v Ed) as (_ & I2 & I3). split; [|exact I2].
  destruct s as [|c t]; [contradiction|].
  rewrite parse_u16_digit; [apply I3; exact Hw|].
  cbn [decimal] in Ed. cbv zeta in Ed.
  destruct (Nat.leb 48 (nat_of_ascii c)); [reflexivity|discriminate].
Qed.

(* ------------------------------------------------------------------ *)
(* the two field splitters *)

Definition nonempty_str (x : string) : bool := negb (String.eqb x "").

Lemma split_on_head sep s : forall cur, exists x rest, split_on sep s cur = (cur ++ x)%string :: rest.
Proof.
  induction s as [|c t IH]; intros cur; cbn [split_on].
  - exists ""%string, []. rewrite sapp_nil_r. reflexivity.
  - destruct (Ascii.eqb c sep).
    + exists ""%string, (split_on sep t ""). rewrite sapp_nil_r. reflexivity.
    + destruct (IH (cur ++ String c "")%string) as (x & rest & E).
      exists (String c x), rest. rewrite E, sapp_assoc. reflexivity.
Qed.

Lemma split_ws_aux_fields s : forall cur acc,
  (forall f, In f (filter nonempty_str (split_on " " s cur)) -> nows f = true) ->
  split_ws_aux s cur acc = (rev acc ++ filter nonempty_str (split_on " " s cur))%list.
Proof.
  induction s as [|c t IH]; intros cur acc H.
  - cbn [split_ws_aux split_on filter]. unfold nonempty_str.
    destruct (String.eqb cur ""); cbn [negb rev].
    + rewrite app_nil_r. reflexivity.
    + reflexivity.
  - cbn [split_on] in H |- *. destruct (Ascii.eqb_spec c " ") as [->|Hne].
    + cbn [split_ws_aux]. change (is_ws " ") with true. cbv iota.
      rewrite IH.
      * cbn [filter]. unfold nonempty_str at 2.
        destruct (String.eqb cur ""); cbn [negb rev]; [reflexivity|].
        rewrite <- app_assoc. reflexivity.
      * intros f Hf. apply H. cbn [filter]. destruct (nonempty_str cur); [right|]; exact Hf.
    + assert (Hws : is_ws c = false).
      { destruct (split_on_head " " t (cur ++ String c "")%string) as (x & rest & E).
        assert (Hf : nows ((cur ++ String c "") ++ x)%string = true).
        { apply H. rewrite E. cbn [filter].
          assert (Hn : nonempty_str ((cur ++ String c "") ++ x)%string = true).
          { unfold nonempty_str. destruct (String.eqb_spec ((cur ++ String c "") ++ x)%string "") as [E0|]; [|reflexivity].
            exfalso. destruct cur; cbn [append] in E0; discriminate. }
          rewrite Hn. left. reflexivity. }
        rewrite !nows_app in Hf. cbn [nows] in Hf.
        apply andb_true_iff in Hf. destruct Hf as [Hf _].
        apply andb_true_iff in Hf. destruct Hf as [_ Hf].
        apply andb_true_iff in Hf. destruct Hf as [Hf _].
        apply negb_true_iff in Hf. exact Hf. }
      cbn [split_ws_aux]. rewrite Hws. apply IH. exact H.
Qed.

Lemma split_ws_fields s : (forall f, In f (fields_of s) -> nows f = true) -> split_ws s = fields_of s.
Proof.
  intros H. unfold split_ws. rewrite split_ws_aux_fields; [reflexivity|exact H].
Qed.

(* ------------------------------------------------------------------ *)
(* the board from_fen builds *)

Definition fen_ply (turn : Color) (rights : Rights) (ep : option nat) (hm : N) : Ply :=
  match ep with
  | Some f =>
    match turn with
    | White => mkPly (mkSq 1 f) (mkSq 3 f) (Pawn, White) None None false false true hm rights
    | Black => mkPly (mkSq 6 f) (mkSq 4 f) (Pawn, Black) None None false false true hm rights
    end
  | None => mkPly (mkSq 0 0) (mkSq 0 0) (Pawn, turn) None None false false false hm rights
  end.
Definition fen_board0 (a : acc12) (turn : Color) (rights : Rights) (ep : option nat) (hm fm : N) : Board :=
  mkBoard turn fm ep [fen_ply turn rights ep hm] [] (build_bbs a) 0.
Definition fen_board (a : acc12) (turn : Color) (rights : Rights) (ep : option nat) (hm fm : N) : Board :=
  with_key (fen_board0 a turn rights ep hm fm) (key_from_scratch (fen_board0 a turn rights ep hm fm)).

Lemma fen_ply_rights t r e h : p_rights (fen_ply t r e h) = r.
Proof. destruct e; [destruct t|]; reflexivity. Qed.
Lemma fen_ply_hm t r e h : p_halfmove (fen_ply t r e h) = h.
Proof. destruct e; [destruct t|]; reflexivity. Qed.

Lemma from_fields_ok pl sd cr e rest c col r ef h f :
  placement_cells pl = Some c -> fen_turn sd = Some col -> fen_rights cr no_rights = Some r ->
  fen_ep e = Some ef -> (forall x, ef = Some x -> (x < 8)%nat) ->
  parse_u16 (nth 0 rest "0"%string) = Some h -> parse_u16 (nth 1 rest "1"%string) = Some f ->
  exists b, from_fen_fields (pl :: sd :: cr :: e :: rest) = Some b
            /\ abs b = mkPos c col r ef h f /\ pbb_wf (bbs b) = true /\ KeyOK b
            /\ ep_consistent b = true /\ pos_hist b = [].
Proof.
  intros Hpl Hsd Hcr He Hef Hh Hf.
  destruct (placement_agrees pl c Hpl) as (a & Hp & Hlen & Hbits).
  exists (fen_board a col r ef h f). split.
  { unfold from_fen_fields. fold no_rights. rewrite Hp, Hsd, Hcr, He, Hh, Hf. reflexivity. }
  split; [|split; [|split; [|split]]].
  - unfold abs, halfmove_clock, fen_board, with_key, with_bbs_key, fen_board0.
    cbn [bbs current_turn ep_file Board.fullmove history last_ply].
    rewrite fen_ply_rights, fen_ply_hm.
    rewrite (build_cells a c Hlen Hbits); reflexivity.
  - unfold fen_board, with_key, with_bbs_key, fen_board0. cbn [bbs].
    apply (build_wf a c Hlen Hbits).
  - unfold KeyOK. unfold fen_board at 1. unfold with_key, with_bbs_key. cbn [zkey].
    apply key_from_scratch_c. constructor; reflexivity.
  - unfold ep_consistent, fen_board, with_key, with_bbs_key, fen_board0.
    cbn [ep_file history last_ply]. unfold fen_ply.
    destruct ef as [x|].
    + specialize (Hef x eq_refl).
      destruct col; cbn [p_dpp p_dest file andb]; rewrite Nat.eqb_refl;
        apply Nat.ltb_lt in Hef; rewrite Hef; reflexivity.
    + reflexivity.
  - reflexivity.
Qed.

Theorem fen_parse_agrees : forall s p,
  SpecFen.parse s = Some p ->
  exists b, from_fen s = Some b /\ abs b = p /\ pbb_wf (bbs b) = true /\ KeyOK b /\ ep_consistent b = true
            /\ pos_hist b = [].
Proof.
  intros s p H. unfold parse in H.
  destruct (fields_of s) as [|pl [|sd [|cr [|e [|hm [|fm [|]]]]]]] eqn:EF; try discriminate.
  - (* four fields *)
    destruct (placement_cells pl) as [c|] eqn:Epl; [|discriminate].
    destruct (side_of sd) as [col|] eqn:Esd; [|discriminate].
    destruct (rights_of cr) as [r|] eqn:Ecr; [|discriminate].
    destruct (ep_of col e) as [ef|] eqn:Ee; [|discriminate].
    inversion H. subst p. clear H.
    destruct (side_agrees _ _ Esd) as [S1 S2]. destruct (rights_agrees _ _ Ecr) as [R1 R2].
    destruct (ep_agrees _ _ _ Ee) as (P1 & P2 & P3).
    assert (Hnp : nows pl = true).
    { destruct (placement_agrees pl c Epl) as (a & Hp & _). apply (placement_nows _ _ _ _ Hp). }
    unfold from_fen. rewrite split_ws_fields, EF.
    + apply from_fields_ok; try assumption; reflexivity.
    + rewrite EF. intros x [<-|[<-|[<-|[<-|[]]]]]; assumption.
  - (* six fields *)
    destruct (placement_cells pl) as [c|] eqn:Epl; [|discriminate].
    destruct (side_of sd) as [col|] eqn:Esd; [|discriminate].
    destruct (rights_of cr) as [r|] eqn:Ecr; [|discriminate].
    destruct (ep_of col e) as [ef|] eqn:Ee; [|discriminate].
    destruct (number hm) as [h|] eqn:Eh; [|discriminate].
    destruct (number fm) as [f|] eqn:Ef; [|discriminate].
    inversion H. subst p. clear H.
    destruct (side_agrees _ _ Esd) as [S1 S2]. destruct (rights_agrees _ _ Ecr) as [R1 R2].
    destruct (ep_agrees _ _ _ Ee) as (P1 & P2 & P3).
    destruct (number_agrees _ _ Eh) as [H1 H2]. destruct (number_agrees _ _ Ef) as [F1 F2].
    assert (Hnp : nows pl = true).
    { destruct (placement_agrees pl c Epl) as (a & Hp & _). apply (placement_nows _ _ _ _ Hp). }
    unfold from_fen. rewrite split_ws_fields, EF.
    + apply from_fields_ok; try assumption.
    + rewrite EF. intros x [<-|[<-|[<-|[<-|[<-|[<-|[]]]]]]]; assumption.
Qed.
