(* MateRulesProofs.v — proofs for props/C12rules.v: the mate notions of spec/Mate.v over the bitboard MODEL game (get_all_moves,
   is_legal_move, make_move, the model's check test) are the same as over the RULES OF CHESS (spec/Rules.v: legal_moves, apply,
   in_check), through the abstraction `abs` / `move_of` of model/Abs.v.
   The move counters: C01_legal and C03_step carry the guard "both counters below 65535" because the model's u16 counters wrap and
   `abs (make_move b m) = apply (abs b) (move_of m)` is an equality of whole positions.  Mates do not look at the counters.  So the
   refinement is re-proved here WITHOUT the guard for the part of the position the rules' move generation reads (`core`: cells, side to
   move, castling rights, en-passant file), and Won / Lost over the rules are shown to depend on that part only.  The invariant needed
   is then `wf_rules b = true` alone, which every legal move preserves (C03_wf_step), forever. *)
From Coq Require Import NArith ZArith List Lia Bool FMapPositive Permutation.
Import ListNotations.
From RCE Require Import lib.Bits lib.Geometry model.Board model.Movegen model.Wf model.WfFull spec.Rules model.Abs
  model.Eval model.Search model.ChessSearch spec.Mate.
From RCE Require Import proofs.BoardProofsPBB proofs.BoardProofsKey proofs.BoardProofs proofs.ApplyProofs proofs.GenProofs
  proofs.RulesProofs proofs.SearchProofs proofs.SearchAbortProofs proofs.SearchMateSoundProofs proofs.ChessSearchProofs.
Local Open Scope nat_scope.

(* ------------------------------------------------------------------ *)
(* 1. the part of a rules position that move generation reads           *)
(* ------------------------------------------------------------------ *)
Definition pcore (p : Pos) : list (option Kind) * Color * Rights * option nat := (cells p, side p, rights p, ep p).
Definition ceq (p q : Pos) : Prop := pcore p = pcore q.

Lemma ceq_refl p : ceq p p.
Proof. reflexivity. Qed.
Lemma ceq_sym p q : ceq p q -> ceq q p.
Proof. unfold ceq. congruence. Qed.
Lemma ceq_trans p q r : ceq p q -> ceq q r -> ceq p r.
Proof. unfold ceq. congruence. Qed.

Lemma ceq_inv p q : ceq p q -> exists h f, q = mkPos (cells p) (side p) (rights p) (ep p) h f.
Proof.
  destruct p as [c s r e h f], q as [c' s' r' e' h' f']. unfold ceq, pcore. cbn [cells side rights ep].
  intros E. inversion E; subst. exists h', f'. reflexivity.
Qed.

Lemma pseudo_moves_ceq p q : ceq p q -> pseudo_moves p = pseudo_moves q.
Proof. intros E. destruct (ceq_inv p q E) as [h [f ->]]. destruct p. reflexivity. Qed.
Lemma apply_ceq p q m : ceq p q -> ceq (apply p m) (apply q m).
Proof. intros E. destruct (ceq_inv p q E) as [h [f ->]]. destruct p. reflexivity. Qed.
Lemma legal_ceq p q m : ceq p q -> legal p m = legal q m.
Proof. intros E. destruct (ceq_inv p q E) as [h [f ->]]. destruct p. reflexivity. Qed.
Lemma legal_moves_ceq p q : ceq p q -> legal_moves p = legal_moves q.
Proof.
  intros E. unfold legal_moves. rewrite (pseudo_moves_ceq p q E).
  apply filter_ext. intros m. apply legal_ceq, E.
Qed.

(* ------------------------------------------------------------------ *)
(* 2. make_move refines apply on the core, with no guard on the counters *)
(* ------------------------------------------------------------------ *)
Lemma make_refines_core : forall b m,
  wfb b = true -> rights_consistent b = true -> king_unique b ->
  move_okb b m = true -> flags_ok b m = true ->
  (forall c, p_captured m <> Some (King, c)) ->
  (p_castles m = true -> rank (p_start m) = rank (p_dest m)) ->
  ceq (abs (make_move b m)) (apply (abs b) (move_of m)).
Proof.
  intros b m Wb RC KU Hm Hf Hnk Hcr.
  destruct (wfb_facts b Wb) as (W & _).
  destruct (move_ok_facts b m W Hm) as (Vs & Vd & Nsd & Hs & Hk & NP & Hc & Hcs & _). cbv zeta in *.
  destruct (flags_facts b m Hf) as (Fc & Fe & Fd & Fcap).
  pose proof (cells_refine b m W Hm Hf Hcr) as Hcells.
  pose proof (rights_refine b m W RC Hm KU Hnk) as Hrights.
  rewrite (make_move_eq b m NP).
  unfold ceq, pcore, abs at 1. unfold last_ply at 1.
  cbn [current_turn Board.fullmove ep_file history bbs cells side rights ep].
  unfold get_piece. cbn [bbs].
  f_equal; [f_equal; [f_equal|]|].
  - rewrite <- Hcells. apply map_ext_in. intros i Hi. apply in_seq in Hi.
    rewrite (make_rep_fun b m W Hm) by (apply sq_of_idx_valid; lia). reflexivity.
  - unfold new_ply. cbn [p_rights set_clock_rights]. rewrite Hrights. reflexivity.
  - unfold new_ep. unfold apply. cbn [ep]. rewrite Fd.
    change (m_to (move_of m)) with (idx (p_dest m)).
    rewrite (geo_file_idx _ Vd), Nat2Z.id. reflexivity.
Qed.

Lemma generated_core b m : wf_rules b = true -> In m (get_all_moves b) ->
  ceq (abs (make_move b m)) (apply (abs b) (move_of m)).
Proof.
  intros WR Hm. destruct (generated_moves_ok b m WR Hm) as [Hok Hfl].
  destruct (ApplyProofs.wf_full_facts b (wf_rules_full b WR)) as [Wb RC].
  apply make_refines_core; try assumption.
  - apply wf_rules_unique; exact WR.
  - apply (no_king_capture b m WR Hm).
  - apply (generated_castle_rank b m WR Hm).
Qed.

Lemma legal_one_core b m : wf_rules b = true -> In m (get_all_moves b) ->
  is_legal_move b m = legal (abs b) (move_of m).
Proof.
  intros WR Hm. pose proof (wf_rules_full b WR) as WF.
  destruct (generated_moves_ok b m WR Hm) as [Hok _].
  destruct (ApplyProofs.wf_full_facts b WF) as [Wb _].
  destruct (wfb_facts b Wb) as (W & _).
  destruct (move_ok_facts b m W Hok) as (_ & _ & _ & _ & Hk & _). cbv zeta in Hk.
  pose proof (wfb_make b m Wb Hok) as Wb'.
  destruct (wfb_facts _ Wb') as (W' & _). apply pbb_wf_iff in W'.
  unfold is_legal_move, legal. rewrite (in_check_spec _ _ W'), Hk.
  pose proof (generated_core b m WR Hm) as E. unfold ceq, pcore in E.
  assert (Ec : cells (abs (make_move b m)) = cells (apply (abs b) (move_of m))) by congruence.
  rewrite Ec. reflexivity.
Qed.

(* C01_legal without the counter guard *)
Theorem legal_spec_core : forall b, wf_rules b = true ->
  forall mv, In mv (map move_of (get_legal_moves b)) <-> In mv (legal_moves (abs b)).
Proof.
  intros b WR mv. unfold get_legal_moves, legal_moves. rewrite in_map_iff, filter_In. split.
  - intros [m [<- Hm]]. apply filter_In in Hm. destruct Hm as [Hm Hl]. split.
    + apply (pseudo_spec b WR). apply in_map. exact Hm.
    + rewrite <- (legal_one_core b m WR Hm). exact Hl.
  - intros [Hp Hl]. apply (pseudo_spec b WR) in Hp. apply in_map_iff in Hp. destruct Hp as [m [<- Hm]].
    exists m. split; [reflexivity|]. apply filter_In. split; [exact Hm|].
    rewrite (legal_one_core b m WR Hm). exact Hl.
Qed.

(* C03_step on the core, without the counter guard *)
Theorem step_core : forall b m, wf_rules b = true -> In m (get_legal_moves b) ->
  ceq (abs (make_move b m)) (apply (abs b) (move_of m)).
Proof.
  intros b m WR Hm. unfold get_legal_moves in Hm. apply filter_In in Hm. apply generated_core; [exact WR | apply Hm].
Qed.

Lemma check_core b : wf_rules b = true -> c_in_check b = in_check (cells (abs b)) (side (abs b)).
Proof.
  intros WR. unfold c_in_check. apply in_check_spec. apply gp_wf_full_pbb, wf_rules_full, WR.
Qed.

(* ------------------------------------------------------------------ *)
(* 3. the two instances of spec/Mate.v                                   *)
(* ------------------------------------------------------------------ *)
(* the rules of chess as a game: the moves offered are the legal moves of spec/Rules.v (so the legality filter is trivial) *)
Definition r_legal (p : Pos) (m : Move) : bool := true.
Definition r_in_check (p : Pos) : bool := in_check (cells p) (side p).

Notation RWon := (Won Pos Move legal_moves r_legal apply r_in_check).
Notation RLost := (Lost Pos Move legal_moves r_legal apply r_in_check).
Notation CWon := (Won Board Ply get_all_moves is_legal_move make_move c_in_check).
Notation CLost := (Lost Board Ply get_all_moves is_legal_move make_move c_in_check).

Scheme Won_mut := Minimality for Won Sort Prop
  with Lost_mut := Minimality for Lost Sort Prop.
Combined Scheme Won_Lost_mut from Won_mut, Lost_mut.

Lemma filter_all {A} (l : list A) : filter (fun _ => true) l = l.
Proof. induction l as [|a t IH]; [reflexivity|]. cbn [filter]. rewrite IH. reflexivity. Qed.
Lemma r_lmoves p : lmoves Pos Move legal_moves r_legal p = legal_moves p.
Proof. unfold lmoves, r_legal. apply filter_all. Qed.
Lemma c_lmoves b : lmoves Board Ply get_all_moves is_legal_move b = get_legal_moves b.
Proof. reflexivity. Qed.

(* Won / Lost over the rules do not look at the move counters *)
Lemma RWonLost_ceq :
  (forall p, RWon p -> forall q, ceq p q -> RWon q) /\ (forall p, RLost p -> forall q, ceq p q -> RLost q).
Proof.
  apply (Won_Lost_mut Pos Move legal_moves r_legal apply r_in_check
           (fun p => forall q, ceq p q -> RWon q) (fun p => forall q, ceq p q -> RLost q)).
  - intros p m Hm _ IH q E. rewrite r_lmoves in Hm.
    apply Won_by with (m := m); [rewrite r_lmoves, <- (legal_moves_ceq p q E); exact Hm|].
    apply IH, apply_ceq, E.
  - intros p Hn Hc q E. rewrite r_lmoves in Hn.
    assert (Ec : cells q = cells p /\ side q = side p) by (unfold ceq, pcore in E; split; congruence).
    apply Lost_mated; [rewrite r_lmoves, <- (legal_moves_ceq p q E); exact Hn|].
    unfold r_in_check in *. destruct Ec as [-> ->]. exact Hc.
  - intros p Hne _ IH q E. rewrite r_lmoves in Hne.
    apply Lost_all; [rewrite r_lmoves, <- (legal_moves_ceq p q E); exact Hne|].
    intros m Hm. rewrite r_lmoves, <- (legal_moves_ceq p q E) in Hm.
    apply (IH m); [rewrite r_lmoves; exact Hm | apply apply_ceq, E].
Qed.
Lemma RWon_ceq p q : ceq p q -> RWon p -> RWon q.
Proof. intros E H. exact (proj1 RWonLost_ceq p H q E). Qed.
Lemma RLost_ceq p q : ceq p q -> RLost p -> RLost q.
Proof. intros E H. exact (proj2 RWonLost_ceq p H q E). Qed.

Lemma legal_nil_core b : wf_rules b = true -> (get_legal_moves b = [] <-> legal_moves (abs b) = []).
Proof.
  intros WR. split.
  - intros H. destruct (legal_moves (abs b)) as [|mv t] eqn:E; [reflexivity|]. exfalso.
    assert (Hmv : In mv (legal_moves (abs b))) by (rewrite E; left; reflexivity).
    apply (legal_spec_core b WR) in Hmv. rewrite H in Hmv. destruct Hmv.
  - intros H. destruct (get_legal_moves b) as [|m t] eqn:E; [reflexivity|]. exfalso.
    assert (Hm : In (move_of m) (map move_of (get_legal_moves b))) by (rewrite E; left; reflexivity).
    apply (legal_spec_core b WR) in Hm. rewrite H in Hm. destruct Hm.
Qed.

(* model => rules *)
Lemma model_rules_WonLost :
  (forall b, CWon b -> wf_rules b = true -> RWon (abs b)) /\ (forall b, CLost b -> wf_rules b = true -> RLost (abs b)).
Proof.
  apply (Won_Lost_mut Board Ply get_all_moves is_legal_move make_move c_in_check
           (fun b => wf_rules b = true -> RWon (abs b)) (fun b => wf_rules b = true -> RLost (abs b))).
  - intros b m Hm _ IH WR. rewrite c_lmoves in Hm.
    apply Won_by with (m := move_of m).
    + rewrite r_lmoves. apply (legal_spec_core b WR). apply in_map. exact Hm.
    + apply (RLost_ceq _ _ (step_core b m WR Hm)). apply IH. apply wf_rules_step; assumption.
  - intros b Hn Hc WR. rewrite c_lmoves in Hn. apply Lost_mated.
    + rewrite r_lmoves. apply (legal_nil_core b WR). exact Hn.
    + unfold r_in_check. rewrite <- (check_core b WR). exact Hc.
  - intros b Hne _ IH WR. rewrite c_lmoves in Hne. apply Lost_all.
    + rewrite r_lmoves. intros E. apply Hne. apply (legal_nil_core b WR). exact E.
    + intros mv Hmv. rewrite r_lmoves in Hmv. apply (legal_spec_core b WR) in Hmv.
      apply in_map_iff in Hmv. destruct Hmv as [m [<- Hm]].
      apply (RWon_ceq _ _ (step_core b m WR Hm)). apply (IH m); [rewrite c_lmoves; exact Hm|].
      apply wf_rules_step; assumption.
Qed.

(* rules => model *)
Lemma rules_model_WonLost :
  (forall q, RWon q -> forall b, wf_rules b = true -> ceq q (abs b) -> CWon b)
  /\ (forall q, RLost q -> forall b, wf_rules b = true -> ceq q (abs b) -> CLost b).
Proof.
  apply (Won_Lost_mut Pos Move legal_moves r_legal apply r_in_check
           (fun q => forall b, wf_rules b = true -> ceq q (abs b) -> CWon b)
           (fun q => forall b, wf_rules b = true -> ceq q (abs b) -> CLost b)).
  - intros q mv Hmv _ IH b WR E. rewrite r_lmoves, (legal_moves_ceq q (abs b) E) in Hmv.
    apply (legal_spec_core b WR) in Hmv. apply in_map_iff in Hmv. destruct Hmv as [m [<- Hm]].
    apply Won_by with (m := m); [rewrite c_lmoves; exact Hm|].
    apply IH; [apply wf_rules_step; assumption|].
    eapply ceq_trans; [apply apply_ceq, E | apply ceq_sym, step_core; assumption].
  - intros q Hn Hc b WR E. rewrite r_lmoves, (legal_moves_ceq q (abs b) E) in Hn.
    assert (Ec : cells q = cells (abs b) /\ side q = side (abs b)) by (unfold ceq, pcore in E; split; congruence).
    apply Lost_mated; [rewrite c_lmoves; apply (legal_nil_core b WR); exact Hn|].
    rewrite (check_core b WR). unfold r_in_check in Hc. destruct Ec as [<- <-]. exact Hc.
  - intros q Hne _ IH b WR E. rewrite r_lmoves, (legal_moves_ceq q (abs b) E) in Hne.
    apply Lost_all; [rewrite c_lmoves; intros X; apply Hne; apply (legal_nil_core b WR); exact X|].
    intros m Hm. rewrite c_lmoves in Hm.
    apply (IH (move_of m)).
    + rewrite r_lmoves, (legal_moves_ceq q (abs b) E). apply (legal_spec_core b WR). apply in_map. exact Hm.
    + apply wf_rules_step; assumption.
    + eapply ceq_trans; [apply apply_ceq, E | apply ceq_sym, step_core; assumption].
Qed.

Theorem model_Won_iff_rules_Won : forall b, wf_rules b = true -> (CWon b <-> RWon (abs b)).
Proof.
  intros b WR. split; [intros H; exact (proj1 model_rules_WonLost b H WR)|].
  intros H. exact (proj1 rules_model_WonLost (abs b) H b WR (ceq_refl _)).
Qed.
Theorem model_Lost_iff_rules_Lost : forall b, wf_rules b = true -> (CLost b <-> RLost (abs b)).
Proof.
  intros b WR. split; [intros H; exact (proj2 model_rules_WonLost b H WR)|].
  intros H. exact (proj2 rules_model_WonLost (abs b) H b WR (ceq_refl _)).
Qed.
Theorem model_Lost_is_rules_Lost : forall b, wf_rules b = true -> CLost b -> RLost (abs b).
Proof. intros b WR. apply (model_Lost_iff_rules_Lost b WR). Qed.
Theorem model_Won_is_rules_Won : forall b, wf_rules b = true -> CWon b -> RWon (abs b).
Proof. intros b WR. apply (model_Won_iff_rules_Won b WR). Qed.

(* after a legal move of the model *)
Theorem model_Lost_after_is_rules_Lost : forall b m, wf_rules b = true -> In m (get_legal_moves b) ->
  (CLost (make_move b m) <-> RLost (apply (abs b) (move_of m))).
Proof.
  intros b m WR Hm. rewrite (model_Lost_iff_rules_Lost _ (wf_rules_step b m WR Hm)). split.
  - apply RLost_ceq, step_core; assumption.
  - apply RLost_ceq, ceq_sym, step_core; assumption.
Qed.

(* ------------------------------------------------------------------ *)
(* 4. the best-move slot always holds a legal move (any limits, cache on, mate-sound cache)   *)
(* ------------------------------------------------------------------ *)
Local Open Scope Z_scope.
Section BestLegal.
  Variables pos mv : Type.
  Variable moves : pos -> list mv.
  Variable legal : pos -> mv -> bool.
  Variable make : pos -> mv -> pos.
  Variable in_check : pos -> bool.
  Variable evalf : pos -> Z.
  Variable is_cap is_promo : mv -> bool.
  Variable cap_score : mv -> N.
  Variable mv_eqb : mv -> mv -> bool.
  Variable key : pos -> N.
  Variable halfmove : pos -> N.
  Variable repeated : pos -> bool.
  Variable default_mv : mv.

  Local Notation Won := (Won pos mv moves legal make in_check).
  Local Notation Lost := (Lost pos mv moves legal make in_check).
  Local Notation lmoves := (lmoves pos mv moves legal).

  Variable Inv : pos -> Prop.
  Hypothesis Inv_make : forall p m, Inv p -> In m (moves p) -> legal p m = true -> Inv (make p m).
  Hypothesis Inv_eval : forall p, Inv p -> -32000 < evalf p < 32000.
  Hypothesis key_sem : forall p q, key p = key q -> (Won p -> Won q) /\ (Lost p -> Lost q).

  Variable lim : Limits.
  Variable clock : nat -> N.
  Variable ext_stop : nat -> bool.

  Local Notation State := (St mv).
  Local Notation abt := (aborted mv lim clock ext_stop).
  Local Notation ab := (alpha_beta pos mv moves legal make in_check evalf is_cap is_promo cap_score mv_eqb key
                                   halfmove repeated default_mv lim clock ext_stop true).
  Local Notation start := (alpha_beta_start pos mv moves legal make in_check evalf is_cap is_promo cap_score
                                   mv_eqb key halfmove repeated default_mv lim clock ext_stop true).
  Local Notation iter := (iter_loop pos mv moves legal make in_check evalf is_cap is_promo cap_score mv_eqb key
                                   halfmove repeated default_mv lim clock ext_stop true).
  Local Notation srch := (search pos mv moves legal make in_check evalf is_cap is_promo cap_score mv_eqb key
                                   halfmove repeated default_mv lim clock ext_stop true).
  Local Notation order := (order_moves pos mv is_cap is_promo cap_score mv_eqb key).
  Local Notation tins := (tt_insert mv ext_stop).
  Local Notation cscore := (child_score pos mv).
  Local Notation rootlp := (rootloop pos mv legal make key lim clock ext_stop).
  Local Notation ab_rec := (abrec pos mv moves legal make in_check evalf is_cap is_promo cap_score mv_eqb key
                                  halfmove repeated default_mv lim clock ext_stop true).
  Local Notation tts := (tt_sound pos mv moves legal make in_check key).
  Local Notation nomate1 := (no_mate1 pos mv moves legal make in_check).
  Local Notation Ocspec := (cspec pos mv moves legal make in_check key).

  Definition best_legal (root : pos) (s : State) : Prop :=
    (forall m, best_move mv s = Some m -> In m (lmoves root)) /\ (forall v, best_score mv s = Some v -> -32768 <= v).

  Lemma best_legal_eq root (s s' : State) : best_move mv s' = best_move mv s -> best_score mv s' = best_score mv s ->
    best_legal root s -> best_legal root s'.
  Proof. intros A B [H1 H2]. split; intros x; rewrite ?A, ?B; [apply H1 | apply H2]. Qed.

  Lemma rootlp_legal rec root depth :
    (forall m, In m (moves root) -> legal root m = true -> Ocspec rec (make root m)) ->
    forall ms s alpha best pvs cnt,
      (forall m, In m ms -> In m (moves root)) -> tts s -> best_legal root s ->
      ((cnt = 0%nat /\ alpha = -32768) \/ (cnt <> 0%nat /\ -32766 <= alpha <= 32766 /\ In best (lmoves root))) ->
      best_legal root (rootlp rec root depth ms s alpha best pvs cnt).
  Proof.
    intros Hrec. induction ms as [|m t IH]; intros s alpha best pvs cnt Hin Hs HL HI; cbn [rootloop].
    - destruct cnt as [|cnt]; [exact HL|].
      destruct HI as [[X _]|[_ [Ra Hbest]]]; [discriminate|].
      pose proof (abt_fr mv lim clock ext_stop s 0) as FA.
      destruct (abt s 0) as [ab0 s1]. cbn [snd] in FA.
      assert (HL1 : best_legal root s1) by (destruct FA as [_ [X Y]]; eapply best_legal_eq; eassumption).
      destruct ab0; [exact HL1|].
      split; cbn [best_move best_score set_best]; intros x E; inversion E; subst; [exact Hbest | lia].
    - assert (Hin' : forall m', In m' t -> In m' (moves root)) by (intros m' H'; apply Hin; right; exact H').
      destruct (legal root m) eqn:L; cbn [negb]; [|apply IH; assumption]. cbv zeta.
      assert (Hm : In m (moves root)) by (apply Hin; left; reflexivity).
      assert (Hml : In m (lmoves root)) by (apply in_lmoves; split; assumption).
      assert (Ra : -32768 <= alpha <= 32766) by (destruct HI as [[_ ->]|[_ [X _]]]; lia).
      set (s0 := enter_node mv s 1 false).
      assert (Hs0 : tts s0) by (eapply tts_fr; [exact Hs | repeat split]).
      destruct (cscore_sound pos mv moves legal make in_check key rec (make root m) s0 alpha SCORE_MAX pvs (Hrec m Hm L) Hs0)
        as [P1 [R1 _]]; try (unfold SCORE_MAX; lia).
      destruct (cscore rec s0 (make root m) alpha SCORE_MAX pvs) as [s1 sc]. cbn [fst snd] in P1, R1.
      pose proof (abt_fr mv lim clock ext_stop s1 0) as FA.
      destruct (abt s1 0) as [ab0 s2]. cbn [snd] in FA.
      assert (Hs2 : tts s2) by (eapply tts_fr; [exact (proj1 P1) | exact FA]).
      assert (HL2 : best_legal root s2).
      { destruct P1 as [_ [X Y]]. destruct FA as [_ [X' Y']].
        eapply best_legal_eq; [| |exact HL]; cbn [best_move best_score enter_node s0] in *; congruence. }
      destruct ab0.
      + destruct (best_score mv s2) as [bs|] eqn:Ebs; [|exact HL2].
        destruct (alpha >? bs) eqn:E; [|exact HL2]. rewrite Z.gtb_ltb in E. apply Z.ltb_lt in E.
        pose proof (proj2 HL2 bs Ebs) as Hbs.
        destruct HI as [[_ ->]|[_ [Ra' Hbest]]]; [lia|].
        split; cbn [best_move best_score set_best]; intros x E'; inversion E'; subst; [exact Hbest | lia].
      + destruct (sc >? alpha) eqn:E2; rewrite Z.gtb_ltb in E2; [apply Z.ltb_lt in E2 | apply Z.ltb_ge in E2].
        * apply IH; try assumption. right. split; [discriminate|]. split; [lia | exact Hml].
        * apply IH; try assumption. right. destruct HI as [[_ ->]|[_ X]]; [lia|]. split; [discriminate | exact X].
  Qed.

  Lemma start_legal s root d : Inv root -> nomate1 root -> tts s -> best_legal root s -> best_legal root (start s root d).
  Proof.
    intros HI Hnm Hs HL. rewrite gstart_eq. destruct (moves root) as [|m0 t0] eqn:Em; [exact HL|]. rewrite <- Em.
    apply rootlp_legal; try assumption.
    - intros m Hm L s' a' b' Hs' HP'. unfold abrec.
      pose proof (ab_sound pos mv moves legal make in_check evalf is_cap is_promo cap_score mv_eqb key halfmove repeated
                           default_mv Inv Inv_make Inv_eval key_sem lim clock ext_stop FUEL s' (make root m) a' b' (pred d) 1
                           (Inv_make root m HI Hm L) Hs' HP' ltac:(lia)) as H.
      destruct (ab FUEL s' (make root m) a' b' (pred d) 1) as [r s'']. cbn [fst snd] in H |- *.
      destruct H as [X [[Y1 Y2] Z]]. split; [exact X|]. split; [|exact Z].
      assert (r <> -32767).
      { intros E. destruct (Y2 E) as [_ [N1 N2]].
        apply (Hnm m); [apply in_lmoves; split; assumption | split; assumption]. }
      lia.
    - intros m. apply order_incl.
    - left. split; reflexivity.
  Qed.

  Lemma iter_legal root : Inv root -> nomate1 root ->
    forall n d s out, tts s -> best_sound pos mv moves legal make in_check root s -> best_legal root s ->
      best_legal root (fst (iter n d s root out)).
  Proof.
    intros HI Hnm. induction n as [|n IH]; intros d s out Hs Hb HL; cbn [iter_loop]; [exact HL|].
    destruct (start_sound pos mv moves legal make in_check evalf is_cap is_promo cap_score mv_eqb key halfmove repeated
                          default_mv Inv Inv_make Inv_eval key_sem lim clock ext_stop s root d HI Hnm Hs Hb) as [Hs1 Hb1].
    pose proof (start_legal s root d HI Hnm Hs HL) as HL1.
    pose proof (abt_fr mv lim clock ext_stop (start s root d) 0) as FA.
    destruct (abt (start s root d) 0) as [ab0 s2]. cbn [snd] in FA.
    assert (Hs2 : tts s2) by (eapply tts_fr; eassumption).
    assert (HL2 : best_legal root s2) by (destruct FA as [_ [X Y]]; eapply best_legal_eq; eassumption).
    assert (Hb2 : best_sound pos mv moves legal make in_check root s2).
    { destruct FA as [_ [X Y]]. intros sc. rewrite X, Y. apply Hb1. }
    destruct ab0; [exact HL2|]. apply IH; assumption.
  Qed.

  (* the announced move is a legal move whenever there is one *)
  Theorem announced_legal : forall (s0 : State) (root : pos) (md : option nat),
    Inv root -> nomate1 root -> tts s0 -> best_move mv s0 = None -> best_score mv s0 = None ->
    lmoves root <> [] ->
    In (announced pos mv moves legal default_mv (fst (srch s0 root md)) root) (lmoves root).
  Proof.
    intros s0 root md HI Hnm Hs Hbm Hbs Hne. unfold search.
    assert (HL0 : best_legal root s0) by (split; intros x E; [rewrite Hbm in E | rewrite Hbs in E]; discriminate).
    assert (Hb0 : best_sound pos mv moves legal make in_check root s0) by (intros sc E; rewrite Hbs in E; discriminate).
    pose proof (iter_legal root HI Hnm (match md with Some d => d | None => 255%nat end) 1%nat s0 [] Hs Hb0 HL0) as H.
    destruct (iter _ 1%nat s0 root []) as [s out]. cbn [fst snd] in H |- *.
    unfold announced. cbn [best_move set_running].
    destruct (best_move mv s) as [m|] eqn:E; [exact (proj1 H m E)|].
    fold (lmoves root). destruct (lmoves root) as [|m1 t]; [contradiction | left; reflexivity].
  Qed.
  (* with a mate score the announced move is the stored best move, a legal move *)
  Theorem mate_move_legal : forall (s0 : State) (root : pos) (md : option nat),
    Inv root -> nomate1 root -> tts s0 -> best_move mv s0 = None -> best_score mv s0 = None ->
    forall sc, best_score mv (fst (srch s0 root md)) = Some sc -> 32000 <= sc ->
      In (announced pos mv moves legal default_mv (fst (srch s0 root md)) root) (lmoves root).
  Proof.
    intros s0 root md HI Hnm Hs Hbm Hbs. unfold search.
    assert (HL0 : best_legal root s0) by (split; intros x E; [rewrite Hbm in E | rewrite Hbs in E]; discriminate).
    assert (Hb0 : best_sound pos mv moves legal make in_check root s0) by (intros sc E; rewrite Hbs in E; discriminate).
    pose proof (iter_legal root HI Hnm (match md with Some d => d | None => 255%nat end) 1%nat s0 [] Hs Hb0 HL0) as H.
    destruct (iter_sound pos mv moves legal make in_check evalf is_cap is_promo cap_score mv_eqb key halfmove repeated
                         default_mv Inv Inv_make Inv_eval key_sem lim clock ext_stop root HI Hnm
                         (match md with Some d => d | None => 255%nat end) 1%nat s0 [] Hs Hb0) as [_ Hb].
    destruct (iter _ 1%nat s0 root []) as [s out]. cbn [fst snd] in H, Hb |- *.
    intros sc E G. cbn [best_score set_running] in E.
    destruct (proj1 (Hb sc E) G) as [m [Em _]].
    unfold announced. cbn [best_move set_running]. rewrite Em. exact (proj1 H m Em).
  Qed.
End BestLegal.

(* ------------------------------------------------------------------ *)
(* 5. the bounded oracle is complete in the limit                        *)
(* ------------------------------------------------------------------ *)
Section Oracle.
  Variables pos mv : Type.
  Variable moves : pos -> list mv.
  Variable legal : pos -> mv -> bool.
  Variable make : pos -> mv -> pos.
  Variable in_check : pos -> bool.
  Local Notation Won := (Won pos mv moves legal make in_check).
  Local Notation Lost := (Lost pos mv moves legal make in_check).
  Local Notation lmoves := (lmoves pos mv moves legal).
  Local Notation wins := (wins_within pos mv moves legal make in_check).
  Local Notation keeps := (keeps_within pos mv moves legal make in_check).
  Local Notation mated := (is_mated_b pos mv moves legal in_check).

  (* the reply test of wins_within / keeps_within *)
  Definition replyb (n : nat) (q : pos) : bool :=
    if mated q then true else match lmoves q with [] => false | rs => forallb (fun r => wins n (make q r)) rs end.

  Lemma wins_S n p : wins (S n) p = existsb (fun m => replyb n (make p m)) (lmoves p).
  Proof. reflexivity. Qed.
  Lemma keeps_eq n p m : keeps n p m = replyb n (make p m).
  Proof. reflexivity. Qed.

  Lemma wins_within_S : forall n p, wins n p = true -> wins (S n) p = true.
  Proof.
    induction n as [|n IH]; intros p H; [discriminate H|].
    rewrite wins_S in H |- *. apply existsb_exists in H. destruct H as [m [Hm H]].
    apply existsb_exists. exists m. split; [exact Hm|].
    unfold replyb in *. destruct (mated (make p m)); [reflexivity|].
    destruct (lmoves (make p m)) as [|r0 rs]; [discriminate H|].
    rewrite forallb_forall in H |- *. intros r Hr. apply IH, H, Hr.
  Qed.
  Lemma wins_within_mono : forall n n' p, (n <= n')%nat -> wins n p = true -> wins n' p = true.
  Proof. intros n n' p Hle H. induction Hle; [exact H | apply wins_within_S; assumption]. Qed.
  Lemma replyb_mono n n' q : (n <= n')%nat -> replyb n q = true -> replyb n' q = true.
  Proof.
    intros Hle H. unfold replyb in *. destruct (mated q); [reflexivity|].
    destruct (lmoves q) as [|r0 rs]; [discriminate H|].
    rewrite forallb_forall in H |- *. intros r Hr. apply (wins_within_mono n n' _ Hle), H, Hr.
  Qed.

  (* finitely many moves: a bound for each gives a bound for all *)
  Lemma bound_all (P : nat -> mv -> Prop) (l : list mv) :
    (forall n n' m, (n <= n')%nat -> P n m -> P n' m) ->
    (forall m, In m l -> exists n, P n m) -> exists N, forall m, In m l -> P N m.
  Proof.
    intros Hmono. induction l as [|a t IH]; intros H; [exists 0%nat; intros m []|].
    destruct (H a (or_introl eq_refl)) as [na Ha].
    destruct (IH (fun m Hm => H m (or_intror Hm))) as [nt Ht].
    exists (Nat.max na nt). intros m [<-|Hm].
    - apply (Hmono na); [lia | exact Ha].
    - apply (Hmono nt); [lia | apply Ht, Hm].
  Qed.

  Lemma WonLost_within :
    (forall p, Won p -> exists n, wins n p = true) /\ (forall q, Lost q -> exists n, replyb n q = true).
  Proof.
    apply (Won_Lost_mut pos mv moves legal make in_check
             (fun p => exists n, wins n p = true) (fun q => exists n, replyb n q = true)).
    - intros p m Hm _ [n Hn]. exists (S n). rewrite wins_S. apply existsb_exists. exists m. split; assumption.
    - intros q Hn Hc. exists 0%nat. unfold replyb, is_mated_b. rewrite Hn, Hc. reflexivity.
    - intros q Hne _ IH.
      destruct (bound_all (fun n r => wins n (make q r) = true) (lmoves q)) as [N HN].
      + intros n n' r Hle. apply wins_within_mono, Hle.
      + exact IH.
      + exists N. unfold replyb, is_mated_b.
        destruct (lmoves q) as [|r0 rs] eqn:E; [contradiction|].
        apply forallb_forall. exact HN.
  Qed.

  Theorem Won_wins_within : forall p, Won p -> exists n, wins n p = true.
  Proof. exact (proj1 WonLost_within). Qed.
  Theorem Lost_keeps_within : forall p m, Lost (make p m) -> exists n, keeps n p m = true.
  Proof. intros p m H. exact (proj2 WonLost_within (make p m) H). Qed.
End Oracle.
