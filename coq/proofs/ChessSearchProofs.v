(* ChessSearchProofs.v — the abstract search theorem (SearchProofs.search_exact) instantiated with
   the chess model.  The invariant of the positions of the tree is wf_rules together with at most
   16 non-king pieces a side; it is preserved by every generated legal move (wf_rules_step for the
   first half; for the second, make_move only moves pieces, removes a captured piece, or replaces
   a pawn by the promoted piece) and bounds the evaluation (eval_value). *)
From Coq Require Import NArith ZArith List Lia Bool.
Import ListNotations.
From RCE Require Import lib.Bits model.Board model.Movegen model.Wf model.WfFull model.Eval model.Search
  model.ChessSearch spec.Game.
From RCE Require Import proofs.BoardProofsPBB proofs.BoardProofsKey proofs.BoardProofs proofs.GenProofs
  proofs.EvalProofs proofs.RulesProofs proofs.SearchProofs.

Definition chess_inv (b : Board) : Prop := wf_rules b = true /\ material_bounded b = true.

(* ------------------------------------------------------------------ *)
(* popcount: additive over disjoint unions; setting / clearing one bit *)
Section Pop.
Open Scope N_scope.

Lemma Ndouble_0 n : Pos.Ndouble n = 0 -> n = 0.
Proof. destruct n; cbn; [reflexivity|discriminate]. Qed.

Lemma ppop_lor_disjoint : forall p q, Pos.land p q = 0 -> ppop (Pos.lor p q) = (ppop p + ppop q)%nat.
Proof.
  induction p as [p IH|p IH|]; intros [q|q|] H; cbn [Pos.land Pos.lor ppop] in *;
    try discriminate H; try lia.
  - apply Ndouble_0 in H. rewrite (IH q H). lia.
  - apply Ndouble_0 in H. rewrite (IH q H). lia.
  - apply Ndouble_0 in H. rewrite (IH q H). lia.
Qed.

Lemma popcount_lor_disjoint x y : N.land x y = 0 -> popcount (N.lor x y) = (popcount x + popcount y)%nat.
Proof.
  destruct x as [|p], y as [|q]; cbn [N.land N.lor popcount]; intros H; try lia.
  apply ppop_lor_disjoint. exact H.
Qed.

Lemma popcount_bit i : popcount (bit i) = 1%nat.
Proof.
  induction i as [|i IH].
  - reflexivity.
  - unfold bit in *. rewrite Nat2N.inj_succ, N.shiftl_succ_r, popcount_double. exact IH.
Qed.

Lemma popcount_split x y : popcount x = (popcount (N.land x y) + popcount (N.ldiff x y))%nat.
Proof.
  rewrite <- popcount_lor_disjoint.
  - f_equal. apply N.bits_inj. intros n. rewrite N.lor_spec, N.land_spec, N.ldiff_spec.
    destruct (N.testbit x n), (N.testbit y n); reflexivity.
  - apply N.bits_inj_0. intros n. rewrite !N.land_spec, N.ldiff_spec.
    destruct (N.testbit x n), (N.testbit y n); reflexivity.
Qed.

Lemma popcount_land_le x y : (popcount (N.land x y) <= popcount x)%nat.
Proof. rewrite (popcount_split x y). lia. Qed.

Lemma popcount_set_le x i : (popcount (N.lor x (bit i)) <= S (popcount x))%nat.
Proof.
  destruct (N.testbit x (N.of_nat i)) eqn:E.
  - replace (N.lor x (bit i)) with x; [lia|].
    apply N.bits_inj. intros n. rewrite N.lor_spec, bit_spec.
    destruct (N.eqb_spec n (N.of_nat i)) as [->|_]; [rewrite E; reflexivity|].
    rewrite orb_false_r. reflexivity.
  - rewrite popcount_lor_disjoint, popcount_bit; [lia|].
    apply N.bits_inj_0. intros n. rewrite N.land_spec, bit_spec.
    destruct (N.eqb_spec n (N.of_nat i)) as [->|_]; [rewrite E; reflexivity|].
    apply andb_false_r.
Qed.

Lemma popcount_clear x i : x < 2^64 -> N.testbit x (N.of_nat i) = true ->
  S (popcount (N.land x (not64 (bit i)))) = popcount x.
Proof.
  intros Hx E. rewrite (popcount_split x (not64 (bit i))).
  replace (N.ldiff x (not64 (bit i))) with (bit i); [rewrite popcount_bit; lia|].
  pose proof (proj1 (lt64_bits x) Hx) as Hh.
  apply N.bits_inj. intros n. rewrite N.ldiff_spec, not64_spec, !bit_spec.
  destruct (N.eqb_spec n (N.of_nat i)) as [->|_].
  - rewrite E. reflexivity.
  - cbn [negb andb]. destruct (N.ltb_spec n 64) as [Hn|Hn].
    + cbn [negb]. rewrite andb_false_r. reflexivity.
    + rewrite (Hh n Hn). reflexivity.
Qed.

End Pop.

(* ------------------------------------------------------------------ *)
(* the material count under pbb_add / pbb_remove *)
Ltac kind_red := cbn [kind_eqb ptype_eqb color_eqb ptype_idx fst snd Nat.eqb andb].

Lemma mc_add_le p s k c : sq_valid s = true ->
  (material_count (pbb_add p s k) c <= S (material_count p c))%nat.
Proof.
  intros V. unfold material_count. rewrite !bb_get_add, (sq_mask_valid s V).
  destruct k as [[] []], c; kind_red;
    try lia;
    match goal with
    | |- context [popcount (N.lor ?x (bit ?i))] => pose proof (popcount_set_le x i); lia
    end.
Qed.

Lemma mc_add_king p s k c : fst k = King -> material_count (pbb_add p s k) c = material_count p c.
Proof.
  intros E. unfold material_count. rewrite !bb_get_add.
  destruct k as [[] []]; try discriminate E; destruct c; kind_red; reflexivity.
Qed.

Lemma mc_add_other p s k c : snd k <> c -> material_count (pbb_add p s k) c = material_count p c.
Proof.
  intros E. unfold material_count. rewrite !bb_get_add.
  destruct k as [[] []], c; try (exfalso; apply E; reflexivity); kind_red; reflexivity.
Qed.

Lemma mc_remove_le p s k c : (material_count (pbb_remove p s k) c <= material_count p c)%nat.
Proof.
  unfold material_count. rewrite !bb_get_remove.
  destruct k as [[] []], c; kind_red;
    try lia;
    match goal with
    | |- context [popcount (N.land ?x ?y)] => pose proof (popcount_land_le x y); lia
    end.
Qed.

Lemma mc_remove_exact p s k : PWf p -> sq_valid s = true -> fst k <> King ->
  occ p k (N.of_nat (idx s)) = true ->
  S (material_count (pbb_remove p s k) (snd k)) = material_count p (snd k).
Proof.
  intros W V Hk O. unfold occ in O. pose proof (pw_lt p W k) as L.
  pose proof (popcount_clear _ _ L O) as C.
  unfold material_count. rewrite !bb_get_remove, (sq_mask_valid s V).
  destruct k as [[] []]; try (exfalso; apply Hk; reflexivity); kind_red; cbn [snd] in *; lia.
Qed.

(* one move_piece: the moved piece keeps its colour and a king stays a king *)
Lemma mp_bbs_mc p s d k k' cap cq c :
  PWf p -> sq_valid s = true -> sq_valid d = true -> get_piece_kind p s = PSome k ->
  snd k' = snd k -> (fst k = King -> fst k' = King) ->
  (material_count (mp_bbs p s d k k' cap cq) c <= material_count p c)%nat.
Proof.
  intros W Vs Vd Hs Hc Hking. unfold mp_bbs.
  set (q := match cap with
            | Some c0 => pbb_remove (pbb_remove p s k) cq c0
            | None => pbb_remove p s k
            end).
  assert (Q : (material_count q c <= material_count (pbb_remove p s k) c)%nat).
  { unfold q. destruct cap; [apply mc_remove_le|lia]. }
  pose proof (mc_remove_le p s k c) as R.
  destruct (color_eqb_spec (snd k') c) as [Ec|Ec].
  - destruct (ptype_eqb_spec (fst k') King) as [Ek|Ek].
    + rewrite (mc_add_king q d k' c Ek). lia.
    + assert (Hk : fst k <> King) by (intros X; apply Ek, Hking, X).
      pose proof (mc_add_le q d k' c Vd) as A.
      pose proof (mc_remove_exact p s k W Vs Hk (proj1 (gpk_some_iff p s k W Vs) Hs)) as X.
      rewrite <- Hc, Ec in X. lia.
  - rewrite (mc_add_other q d k' c Ec). lia.
Qed.

(* what move_okb says about a promotion *)
Lemma move_ok_promo b m : move_okb b m = true ->
  snd (dk (p_piece m) (p_promoted m)) = snd (p_piece m) /\
  (fst (p_piece m) = King -> fst (dk (p_piece m) (p_promoted m)) = King).
Proof.
  intros H. unfold move_okb in H. cbv zeta in H.
  apply andb_true_iff in H; destruct H as [H _].
  apply andb_true_iff in H; destruct H as [H _].
  apply andb_true_iff in H; destruct H as [_ H].
  unfold dk. destruct (p_promoted m) as [[t c]|]; [|split; [reflexivity|intros X; exact X]].
  apply andb_true_iff in H; destruct H as [H _].
  apply andb_true_iff in H; destruct H as [H _].
  apply andb_true_iff in H; destruct H as [H1 H2].
  cbn [fst snd]. split.
  - destruct (color_eqb_spec c (snd (p_piece m))); congruence.
  - intros X. rewrite X in H1. discriminate H1.
Qed.

Lemma make_bbs_mc b m c : PWf (bbs b) -> move_okb b m = true ->
  (material_count (castle_bbs (mv_bbs (bbs b) m) (current_turn b) m) c <= material_count (bbs b) c)%nat.
Proof.
  intros W H.
  destruct (move_ok_facts b m W H) as (Vs & Vd & Nsd & Hs & Hk & NP & Hc & Hcs & _). cbv zeta in *.
  destruct (move_ok_promo b m H) as [Pc Pk].
  assert (M : (material_count (mv_bbs (bbs b) m) c <= material_count (bbs b) c)%nat).
  { unfold mv_bbs. apply mp_bbs_mc; assumption. }
  unfold castle_bbs. destruct (p_castles m) eqn:Ecs; [|exact M].
  destruct (Hcs eq_refl) as (Ecap & Eprom & Eep & rs & rd & Er & Vrs & Vrd & Hrs & Hrd & N1 & N2 & N3 & N4 & N5).
  rewrite Er.
  pose proof (Rep_self _ W) as R0.
  pose proof (mp_rep _ _ _ _ _ _ (dk (p_piece m) (p_promoted m)) _ _ R0 Vs Vd Nsd Hs Hc) as R1.
  fold (mv_bbs (bbs b) m) in R1. destruct R1 as [W1 [G1 _]].
  assert (X : (material_count (mp_bbs (mv_bbs (bbs b) m) rs rd (Rook, current_turn b) (Rook, current_turn b) None rd) c
               <= material_count (mv_bbs (bbs b) m) c)%nat).
  { apply mp_bbs_mc; try assumption; try reflexivity; [|intros X; exact X].
    rewrite (G1 rs Vrs), Ecap. unfold mp_fun, upd. sq_simp. rewrite <- Hk. exact Hrs. }
  lia.
Qed.

(* ------------------------------------------------------------------ *)
(* the invariant *)
Theorem chess_inv_make : forall b m,
  chess_inv b -> In m (get_all_moves b) -> is_legal_move b m = true -> chess_inv (make_move b m).
Proof.
  intros b m [WR MB] Hm Hl. split.
  - apply wf_rules_step; [exact WR|]. unfold get_legal_moves. apply filter_In. split; assumption.
  - pose proof (wf_rules_full b WR) as WF.
    pose proof (proj1 (pbb_wf_iff _) (gp_wf_full_pbb b WF)) as W.
    destruct (generated_moves_ok b m WR Hm) as [Hok _].
    destruct (move_ok_facts b m W Hok) as (_ & _ & _ & _ & _ & NP & _).
    rewrite (make_move_eq b m NP).
    unfold material_bounded in *. cbn [bbs].
    apply andb_true_iff in MB. destruct MB as [M1 M2]. apply Nat.leb_le in M1, M2.
    pose proof (make_bbs_mc b m White W Hok). pose proof (make_bbs_mc b m Black W Hok).
    apply andb_true_iff. split; apply Nat.leb_le; lia.
Qed.

Lemma values_ok_true : values_ok = true.
Proof. vm_compute. reflexivity. Qed.

Theorem chess_inv_eval : forall b, chess_inv b -> (-32000 < evaluate b < 32000)%Z.
Proof. intros b [_ MB]. exact (proj2 (eval_value b values_ok_true MB)). Qed.

(* ------------------------------------------------------------------ *)
(* the search theorem on the chess model *)
Theorem chess_search_exact : forall (s0 : CSt) (b : Board) (D : nat),
  running Ply s0 = true -> chess_inv b -> (1 <= D <= 255)%nat -> get_legal_moves b <> [] ->
  let r := c_search no_limits (fun _ => 0%N) (fun _ => false) false s0 b (Some D) in
  exists m, last (snd r) (Bestmove Ply ply_default) = Bestmove Ply m
            /\ In m (get_legal_moves b)
            /\ best_score Ply (fst r)
               = Vroot Board Ply get_all_moves is_legal_move make_move c_in_check evaluate is_capture
                       halfmove_clock c_repeated D b
            /\ Some (move_value Board Ply get_all_moves is_legal_move make_move c_in_check evaluate is_capture
                                halfmove_clock c_repeated D b m)
               = Vroot Board Ply get_all_moves is_legal_move make_move c_in_check evaluate is_capture
                       halfmove_clock c_repeated D b.
Proof.
  intros s0 b D Hs HI HD Hne. cbv zeta.
  assert (Hex : exists m, In m (get_all_moves b) /\ is_legal_move b m = true).
  { destruct (get_legal_moves b) as [|m t] eqn:E; [contradiction Hne; reflexivity|].
    exists m. apply (filter_In (is_legal_move b)). fold (get_legal_moves b). rewrite E. left. reflexivity. }
  destruct (search_exact Board Ply get_all_moves is_legal_move make_move c_in_check evaluate is_capture
              is_promotion cap_score ply_eqb zkey halfmove_clock c_repeated ply_default chess_inv
              chess_inv_make chess_inv_eval s0 b D Hs HI HD Hex) as [m [H1 [H2 [H3 [H4 H5]]]]].
  exists m. unfold c_search.
  split; [exact H1|]. split; [unfold get_legal_moves; apply filter_In; split; assumption|].
  split; [exact H4|exact H5].
Qed.
