(* GenProofs.v — pseudo-legal move generation of knights, bishops, rooks, queens and kings
   (castling included) is exactly the rules' piece_moves, and every generated move satisfies
   move_okb / flags_ok (part of C01).  The attack-set geometry is taken as Section hypotheses. *)
From Coq Require Import NArith ZArith List Lia Bool.
Import ListNotations.
From RCE Require Import lib.Bits lib.Geometry model.Board model.Movegen model.Wf model.WfFull
  spec.Rules model.Abs proofs.BoardProofsPBB.

Local Open Scope nat_scope.

(* ------------------------------------------------------------------ *)
(* bits *)
Lemma gp_tb_not64 x n : n < 64 -> tb (not64 x) n = negb (tb x n).
Proof.
  intros H. unfold tb. rewrite not64_spec.
  destruct (N.ltb_spec (N.of_nat n) 64) as [_|G]; [apply andb_true_r|lia].
Qed.

Lemma gp_tb_land x y n : tb (N.land x y) n = tb x n && tb y n.
Proof. unfold tb. apply N.land_spec. Qed.

Lemma gp_tb_lor x y n : tb (N.lor x y) n = tb x n || tb y n.
Proof. unfold tb. apply N.lor_spec. Qed.

Lemma gp_land_bit_eqb x i : N.eqb (N.land x (bit i)) 0 = negb (tb x i).
Proof.
  rewrite N.land_comm. pose proof (nonempty_land_bit i x) as H. unfold nonempty in H.
  unfold tb. rewrite <- H. symmetry. apply negb_involutive.
Qed.

Lemma gp_lor_eqb0 a b : N.eqb (N.lor a b) 0 = N.eqb a 0 && N.eqb b 0.
Proof.
  destruct (N.eqb_spec (N.lor a b) 0) as [E|E].
  - apply N.lor_eq_0_iff in E. destruct E as [-> ->]. reflexivity.
  - destruct (N.eqb_spec a 0) as [->|]; [|reflexivity].
    destruct (N.eqb_spec b 0) as [->|]; [|reflexivity]. exfalso. apply E. reflexivity.
Qed.

Lemma gp_land_set_of_eqb x l :
  N.eqb (N.land x (set_of l)) 0 = forallb (fun i => negb (tb x i)) l.
Proof.
  induction l as [|i t IH]; cbn [set_of fold_right forallb].
  - rewrite N.land_0_r. reflexivity.
  - fold (set_of t). rewrite N.land_lor_distr_r, gp_lor_eqb0, gp_land_bit_eqb, IH. reflexivity.
Qed.

(* ------------------------------------------------------------------ *)
(* bridging the bitboards and the mailbox *)
Lemma gp_at_abs b n : n < 64 -> at_ (cells (abs b)) n = get_piece b (sq_of_idx n).
Proof.
  intros H. unfold at_, abs; cbn [cells].
  rewrite (nth_indep _ None (get_piece b (sq_of_idx 0))) by (rewrite map_length, seq_length; exact H).
  rewrite (map_nth (fun i => get_piece b (sq_of_idx i))).
  rewrite seq_nth by exact H. reflexivity.
Qed.

Lemma gp_at_idx b s : sq_valid s = true -> at_ (cells (abs b)) (idx s) = get_piece b s.
Proof.
  intros V. rewrite gp_at_abs by (apply idx_lt; exact V). rewrite sq_of_idx_idx by exact V. reflexivity.
Qed.

Lemma gp_white_tb p n : PWf p ->
  tb (white_pieces p) n =
  existsb (fun t => occ p (t, White) (N.of_nat n)) [Pawn; Knight; Bishop; Rook; Queen; King].
Proof.
  intros W. rewrite (pw_w p W). unfold white_union, tb. rewrite !N.lor_spec.
  unfold occ. cbn [existsb bb_get]. rewrite orb_false_r, !orb_assoc. reflexivity.
Qed.
Lemma gp_black_tb p n : PWf p ->
  tb (black_pieces p) n =
  existsb (fun t => occ p (t, Black) (N.of_nat n)) [Pawn; Knight; Bishop; Rook; Queen; King].
Proof.
  intros W. rewrite (pw_b p W). unfold black_union, tb. rewrite !N.lor_spec.
  unfold occ. cbn [existsb bb_get]. rewrite orb_false_r, !orb_assoc. reflexivity.
Qed.

Lemma gp_same_tb_occ b c n : PWf (bbs b) ->
  tb (same_pieces b c) n = true <-> exists t, occ (bbs b) (t, c) (N.of_nat n) = true.
Proof.
  intros W. unfold same_pieces.
  destruct c; [rewrite (gp_white_tb _ _ W)|rewrite (gp_black_tb _ _ W)];
    rewrite existsb_exists; (split; [intros [t [_ H]]; exists t; exact H|]);
    intros [t H]; exists t; (split; [destruct t; cbn; tauto|exact H]).
Qed.

Lemma gp_same_pieces b c n : pbb_wf (bbs b) = true -> n < 64 ->
  tb (same_pieces b c) n = has_color (cells (abs b)) c n.
Proof.
  intros Wf H. apply pbb_wf_iff in Wf. unfold has_color. rewrite gp_at_abs by exact H.
  unfold get_piece.
  pose proof (sq_of_idx_valid n H) as V.
  destruct (gpk_cases (bbs b) (sq_of_idx n) Wf V) as [[k [Hk E]]|[A E]]; rewrite E; cbn [piece_opt];
    rewrite idx_sq_of_idx in *.
  - destruct k as [t c']. destruct (color_eqb_spec c' c) as [->|Hc].
    + apply gp_same_tb_occ; [exact Wf|]. exists t. exact Hk.
    + destruct (tb (same_pieces b c) n) eqn:T; [|reflexivity].
      apply gp_same_tb_occ in T; [|exact Wf]. destruct T as [t' Ht'].
      assert (D : (t, c') <> (t', c)) by congruence.
      rewrite (occ_disjoint _ _ _ _ Wf D Hk) in Ht'. discriminate.
  - destruct (tb (same_pieces b c) n) eqn:T; [|reflexivity].
    apply gp_same_tb_occ in T; [|exact Wf]. destruct T as [t' Ht']. rewrite A in Ht'. discriminate.
Qed.

Lemma gp_has_color_or c n : occupied c n = has_color c White n || has_color c Black n.
Proof. unfold occupied, has_color. destruct (at_ c n) as [[t []]|]; reflexivity. Qed.

Lemma gp_all_pieces b n : pbb_wf (bbs b) = true -> n < 64 ->
  tb (all_pieces (bbs b)) n = occupied (cells (abs b)) n.
Proof.
  intros Wf H. rewrite gp_has_color_or, <- !gp_same_pieces by assumption.
  apply pbb_wf_iff in Wf. rewrite (pw_a _ Wf), gp_tb_lor. reflexivity.
Qed.

Lemma gp_slider_occ b dirs s : pbb_wf (bbs b) = true ->
  slider_attacks dirs s (tb (all_pieces (bbs b))) = slider_attacks dirs s (occupied (cells (abs b))).
Proof.
  intros Wf. unfold slider_attacks. apply flat_map_ext. intros d. apply slide_ext.
  intros x Hx. apply gp_all_pieces; [exact Wf|]. eapply ray_list_lt64; exact Hx.
Qed.

(* ------------------------------------------------------------------ *)
(* plies *)
Lemma gp_plies_to_In s k M m :
  In m (plies_to s k M) <-> exists n, n < 64 /\ tb M n = true /\ m = ply_new s (sq_of_idx n) k.
Proof.
  unfold plies_to. rewrite in_map_iff. split.
  - intros [n [E H]]. apply asc_bits_In in H. destruct H as [H1 H2]. exists n. auto.
  - intros [n [H1 [H2 E]]]. exists n. split; [auto|]. apply asc_bits_In. auto.
Qed.

Lemma gp_okind_eqb_refl a : okind_eqb a a = true.
Proof. destruct a as [k|]; [apply kind_eqb_refl|reflexivity]. Qed.

Lemma kind_eqb_refl_o k : okind_eqb (Some k) (Some k) = true.
Proof. apply kind_eqb_refl. Qed.

Lemma gp_wf_full_pbb b : wf_full b = true -> pbb_wf (bbs b) = true.
Proof.
  unfold wf_full, wfb. intros H. do 8 (apply andb_true_iff in H; destruct H as [H _]). exact H.
Qed.
Lemma gp_wf_full_rights b : wf_full b = true -> rights_consistent b = true.
Proof.
  unfold wf_full. intros H. do 3 (apply andb_true_iff in H; destruct H as [H _]).
  apply andb_true_iff in H. apply H.
Qed.

(* unfolding equations, proved once by conversion on the list type (conversion under In/filter
   can be very slow) *)
Lemma gp_simple_moveset_eq A sq b t c :
  simple_moveset A sq b (t, c) = plies_to sq (t, c) (N.land A (not64 (same_pieces b c))).
Proof. reflexivity. Qed.
Lemma gp_get_moveset_knight c sq b :
  get_moveset (Knight, c) sq b = filter ply_sane (simple_moveset (knight_attacks (idx sq)) sq b (Knight, c)).
Proof. reflexivity. Qed.
Lemma gp_get_moveset_rook c sq b :
  get_moveset (Rook, c) sq b =
  filter ply_sane (simple_moveset (rook_attacks (idx sq) (all_pieces (bbs b))) sq b (Rook, c)).
Proof. reflexivity. Qed.
Lemma gp_get_moveset_bishop c sq b :
  get_moveset (Bishop, c) sq b =
  filter ply_sane (simple_moveset (bishop_attacks (idx sq) (all_pieces (bbs b))) sq b (Bishop, c)).
Proof. reflexivity. Qed.
Lemma gp_get_moveset_queen c sq b :
  get_moveset (Queen, c) sq b =
  filter ply_sane (simple_moveset (queen_attacks (idx sq) (all_pieces (bbs b))) sq b (Queen, c)).
Proof. reflexivity. Qed.
Lemma gp_get_moveset_king c sq b :
  get_moveset (King, c) sq b = filter ply_sane (king_moveset sq b c).
Proof. reflexivity. Qed.

Definition gp_steps (p : Pos) (from : nat) (L : list nat) : list Move :=
  map (fun x => mkMove from x None) (filter (fun x => negb (has_color (cells p) (side p) x)) L).
Lemma gp_piece_moves_knight p from c :
  piece_moves p from (Knight, c) = gp_steps p from (leaper_targets knight_deltas from).
Proof. reflexivity. Qed.
Lemma gp_piece_moves_rook p from c :
  piece_moves p from (Rook, c) = gp_steps p from (slider_attacks rook_dirs from (occupied (cells p))).
Proof. reflexivity. Qed.
Lemma gp_piece_moves_bishop p from c :
  piece_moves p from (Bishop, c) = gp_steps p from (slider_attacks bishop_dirs from (occupied (cells p))).
Proof. reflexivity. Qed.
Lemma gp_piece_moves_queen p from c :
  piece_moves p from (Queen, c) =
  gp_steps p from (slider_attacks rook_dirs from (occupied (cells p)) ++
                   slider_attacks bishop_dirs from (occupied (cells p))).
Proof. reflexivity. Qed.
Lemma gp_piece_moves_king p from c :
  piece_moves p from (King, c) = gp_steps p from (leaper_targets king_deltas from) ++ castle_moves p from.
Proof. reflexivity. Qed.

(* ------------------------------------------------------------------ *)
(* castling: masks, conditions *)
Definition ck_between (k : CastlingKind) : list nat :=
  match k with WK => [5; 6] | WQ => [1; 2; 3] | BK => [61; 62] | BQ => [57; 58; 59] end.
Definition ck_safe (k : CastlingKind) : list nat :=
  match k with WK => [4; 5; 6] | WQ => [2; 3; 4] | BK => [60; 61; 62] | BQ => [58; 59; 60] end.
Definition ck_color (k : CastlingKind) : Color :=
  match k with WK | WQ => White | BK | BQ => Black end.

Lemma gp_between_mask k :
  (match k with WK => 0x60 | WQ => 0xE | BK => 0x6000000000000000 | BQ => 0x0E00000000000000 end)%N
  = set_of (ck_between k).
Proof. destruct k; reflexivity. Qed.
Lemma gp_safe_mask k :
  (match k with WK => 0x70 | WQ => 0x1C | BK => 0x7000000000000000 | BQ => 0x1C00000000000000 end)%N
  = set_of (ck_safe k).
Proof. destruct k; reflexivity. Qed.
Lemma gp_ck_between_lt k i : In i (ck_between k) -> i < 64.
Proof. destruct k; cbn; intros H; repeat (destruct H as [<-|H]; [lia|]); destruct H. Qed.
Lemma gp_ck_safe_lt k i : In i (ck_safe k) -> i < 64.
Proof. destruct k; cbn; intros H; repeat (destruct H as [<-|H]; [lia|]); destruct H. Qed.

Lemma gp_forallb_ext_in {A} (f g : A -> bool) l :
  (forall x, In x l -> f x = g x) -> forallb f l = forallb g l.
Proof.
  induction l as [|a t IH]; intros H; [reflexivity|]. cbn [forallb].
  rewrite (H a) by (left; reflexivity). rewrite IH; [reflexivity|].
  intros x Hx. apply H. right. exact Hx.
Qed.

(* the rules' castling condition, per castling kind *)
Definition ck_cond (p : Pos) (k : CastlingKind) : bool :=
  let c := cells p in
  match k with
  | WK => get_right (rights p) WK && has_piece c (Rook, White) 7
          && negb (occupied c 5) && negb (occupied c 6)
          && negb (attacked_by c Black 4) && negb (attacked_by c Black 5) && negb (attacked_by c Black 6)
  | WQ => get_right (rights p) WQ && has_piece c (Rook, White) 0
          && negb (occupied c 3) && negb (occupied c 2) && negb (occupied c 1)
          && negb (attacked_by c Black 4) && negb (attacked_by c Black 3) && negb (attacked_by c Black 2)
  | BK => get_right (rights p) BK && has_piece c (Rook, Black) 63
          && negb (occupied c 61) && negb (occupied c 62)
          && negb (attacked_by c White 60) && negb (attacked_by c White 61) && negb (attacked_by c White 62)
  | BQ => get_right (rights p) BQ && has_piece c (Rook, Black) 56
          && negb (occupied c 59) && negb (occupied c 58) && negb (occupied c 57)
          && negb (attacked_by c White 60) && negb (attacked_by c White 59) && negb (attacked_by c White 58)
  end.

Lemma gp_castle_moves_white p : side p = White -> has_piece (cells p) (King, White) 4 = true ->
  castle_moves p 4 = (if ck_cond p WK then [mkMove 4 6 None] else []) ++
                     (if ck_cond p WQ then [mkMove 4 2 None] else []).
Proof. intros S K. unfold castle_moves, ck_cond. rewrite S. cbn [Nat.eqb andb]. rewrite K. reflexivity. Qed.
Lemma gp_castle_moves_black p : side p = Black -> has_piece (cells p) (King, Black) 60 = true ->
  castle_moves p 60 = (if ck_cond p BK then [mkMove 60 62 None] else []) ++
                      (if ck_cond p BQ then [mkMove 60 58 None] else []).
Proof. intros S K. unfold castle_moves, ck_cond. rewrite S. rewrite Nat.eqb_refl. cbn [andb]. rewrite K. reflexivity. Qed.
Lemma gp_castle_moves_other p from :
  from <> (match side p with White => 4 | Black => 60 end) -> castle_moves p from = [].
Proof.
  intros H. unfold castle_moves. apply Nat.eqb_neq in H. rewrite H. reflexivity.
Qed.

Lemma gp_rc b : rights_consistent b = true -> forall k, get_right (p_rights (last_ply b)) k = true ->
  match k with
  | WK => get_piece b (mkSq 0 4) = Some (King, White) /\ get_piece b (mkSq 0 7) = Some (Rook, White)
  | WQ => get_piece b (mkSq 0 4) = Some (King, White) /\ get_piece b (mkSq 0 0) = Some (Rook, White)
  | BK => get_piece b (mkSq 7 4) = Some (King, Black) /\ get_piece b (mkSq 7 7) = Some (Rook, Black)
  | BQ => get_piece b (mkSq 7 4) = Some (King, Black) /\ get_piece b (mkSq 7 0) = Some (Rook, Black)
  end.
Proof.
  unfold rights_consistent, has. intros H k R.
  apply andb_true_iff in H. destruct H as [H H4].
  apply andb_true_iff in H. destruct H as [H H3].
  apply andb_true_iff in H. destruct H as [H1 H2].
  destruct k; cbn [get_right] in R; rewrite R in *;
    match goal with
    | X : (_ && _) = true |- _ => apply andb_true_iff in X; destruct X as [Xa Xb];
                                 apply okind_eqb_eq in Xa; apply okind_eqb_eq in Xb; split; assumption
    end.
Qed.

Lemma gp_has_piece b s k : sq_valid s = true -> get_piece b s = Some k ->
  has_piece (cells (abs b)) k (idx s) = true.
Proof. intros V G. unfold has_piece. rewrite gp_at_idx by exact V. rewrite G. apply kind_eqb_refl. Qed.

Lemma gp_occ_none b n : n < 64 -> occupied (cells (abs b)) n = false -> get_piece b (sq_of_idx n) = None.
Proof.
  intros H. unfold occupied. rewrite gp_at_abs by exact H.
  destruct (get_piece b (sq_of_idx n)); [discriminate|reflexivity].
Qed.

Definition king_castles (sq : Square) (b : Board) (c : Color) : list Ply :=
  (if sq_eqb sq (mkSq 0 4) && color_eqb c White then
     (if castling_ability b WK then [castle_ply sq (mkSq 0 6) c] else []) ++
     (if castling_ability b WQ then [castle_ply sq (mkSq 0 2) c] else [])
   else []) ++
  (if sq_eqb sq (mkSq 7 4) && color_eqb c Black then
     (if castling_ability b BK then [castle_ply sq (mkSq 7 6) c] else []) ++
     (if castling_ability b BQ then [castle_ply sq (mkSq 7 2) c] else [])
   else []).
Lemma gp_king_moveset_eq sq b c :
  king_moveset sq b c =
  plies_to sq (King, c) (N.land (king_attacks (idx sq)) (not64 (same_pieces b c))) ++ king_castles sq b c.
Proof. reflexivity. Qed.

Lemma gp_king_castles_In sq b c p : In p (king_castles sq b c) ->
  (c = White /\ sq = mkSq 0 4 /\
   ((castling_ability b WK = true /\ p = castle_ply (mkSq 0 4) (mkSq 0 6) White) \/
    (castling_ability b WQ = true /\ p = castle_ply (mkSq 0 4) (mkSq 0 2) White))) \/
  (c = Black /\ sq = mkSq 7 4 /\
   ((castling_ability b BK = true /\ p = castle_ply (mkSq 7 4) (mkSq 7 6) Black) \/
    (castling_ability b BQ = true /\ p = castle_ply (mkSq 7 4) (mkSq 7 2) Black))).
Proof.
  unfold king_castles. intros H. apply in_app_or in H. destruct H as [H|H].
  - left. destruct (sq_eqb_spec sq (mkSq 0 4)) as [->|]; [|destruct H].
    destruct c; [|destruct H]. cbn [color_eqb andb] in H.
    split; [reflexivity|]. split; [reflexivity|].
    apply in_app_or in H. destruct H as [H|H].
    + left. destruct (castling_ability b WK); [|destruct H]. destruct H as [<-|[]]. auto.
    + right. destruct (castling_ability b WQ); [|destruct H]. destruct H as [<-|[]]. auto.
  - right. destruct (sq_eqb_spec sq (mkSq 7 4)) as [->|]; [|destruct H].
    destruct c; [destruct H|]. cbn [color_eqb andb] in H.
    split; [reflexivity|]. split; [reflexivity|].
    apply in_app_or in H. destruct H as [H|H].
    + left. destruct (castling_ability b BK); [|destruct H]. destruct H as [<-|[]]. auto.
    + right. destruct (castling_ability b BQ); [|destruct H]. destruct H as [<-|[]]. auto.
Qed.

Lemma gp_king_file_sweep :
  forallb (fun s => forallb (fun x => (Z.abs (Geometry.file s - Geometry.file x) <=? 1)%Z)
                            (leaper_targets king_deltas s)) (seq 0 64) = true.
Proof. vm_compute. reflexivity. Qed.
Lemma gp_king_file s x : s < 64 -> In x (leaper_targets king_deltas s) ->
  (Z.abs (Geometry.file s - Geometry.file x) <=? 1)%Z = true.
Proof.
  intros Hs Hx. pose proof (proj1 (forallb_forall _ _) gp_king_file_sweep s) as S1. cbv beta in S1.
  assert (I : In s (seq 0 64)) by (apply in_seq; lia).
  apply (proj1 (forallb_forall _ _) (S1 I) x Hx).
Qed.

(* part 2 for a castling ply, generic in the squares *)
Lemma gp_castle_ok b s d rs rd c :
  sq_valid s = true -> sq_valid d = true -> sq_eqb s d = false ->
  get_piece b s = Some (King, c) -> c = current_turn b -> get_piece b d = None ->
  castle_rook_squares d = Some (rs, rd) -> get_piece b rs = Some (Rook, c) -> get_piece b rd = None ->
  sq_eqb rs s = false -> sq_eqb rd d = false -> sq_eqb rs d = false -> sq_eqb rd s = false ->
  (Z.abs (Geometry.file (idx s) - Geometry.file (idx d)) =? 2)%Z = true ->
  move_okb b (fill_captured b (castle_ply s d c)) = true /\
  flags_ok b (fill_captured b (castle_ply s d c)) = true.
Proof.
  intros Vs Vd Nsd Gs Tn Gd CR Grs Grd N1 N2 N3 N4 F.
  change (fill_captured b (castle_ply s d c))
    with (mkPly s d (King, c) (get_piece b d) None true false false 0 all_rights).
  pose proof (gp_at_idx b s Vs) as As. rewrite Gs in As.
  pose proof (gp_at_idx b d Vd) as Ad. rewrite Gd in Ad.
  split.
  - unfold move_okb; cbn [p_start p_dest p_piece p_captured p_promoted p_castles p_ep p_dpp fst snd].
    rewrite Vs, Vd, Nsd, Gs, Gd, CR, Grs, Grd, N1, N2, N3, N4, !kind_eqb_refl_o.
    rewrite Tn. destruct (current_turn b); reflexivity.
  - unfold flags_ok, move_of, is_capture;
      cbn [p_start p_dest p_piece p_captured p_promoted p_castles p_ep p_dpp fst snd].
    unfold is_capture_move, is_castle, is_ep, is_double_push, occupied; cbn [m_from m_to].
    rewrite As, Ad, Gd, F. reflexivity.
Qed.

Section Gen.

Hypothesis rook_attacks_geo : forall s occ, (s < 64)%nat -> rook_attacks s occ = set_of (slider_attacks rook_dirs s (tb occ)).
Hypothesis bishop_attacks_geo : forall s occ, (s < 64)%nat -> bishop_attacks s occ = set_of (slider_attacks bishop_dirs s (tb occ)).
Hypothesis knight_attacks_geo : forall s, (s < 64)%nat -> knight_attacks s = set_of (leaper_targets knight_deltas s).
Hypothesis king_attacks_geo : forall s, (s < 64)%nat -> king_attacks s = set_of (leaper_targets king_deltas s).
Hypothesis attacked_spec : forall b c n, pbb_wf (bbs b) = true -> (n < 64)%nat ->
   tb (attacked_squares b c) n = attacked_by (cells (abs b)) (opposite c) n.

Section Piece.
Variables (b : Board) (sq : Square) (t : PType) (c : Color).
Hypothesis WF : wf_full b = true.
Hypothesis V : sq_valid sq = true.
Hypothesis G : get_piece b sq = Some (t, c).
Hypothesis Tn : c = current_turn b.

Let PW : pbb_wf (bbs b) = true := gp_wf_full_pbb b WF.

Lemma gp_own_color : has_color (cells (abs b)) c (idx sq) = true.
Proof.
  unfold has_color. rewrite gp_at_idx by exact V. rewrite G.
  destruct c; reflexivity.
Qed.

Lemma gp_side : side (abs b) = c.
Proof. symmetry. exact Tn. Qed.

(* the step moves of the engine for an attack mask that is the set of L *)
Lemma gp_steps_engine A L m :
  (forall n, n < 64 -> (tb A n = true <-> In n L)) ->
  (In m (filter ply_sane (plies_to sq (t, c) (N.land A (not64 (same_pieces b c))))) <->
   exists n, n < 64 /\ In n L /\ has_color (cells (abs b)) c n = false /\
             m = ply_new sq (sq_of_idx n) (t, c)).
Proof.
  intros HA. rewrite filter_In, gp_plies_to_In. split.
  - intros [[n [Hn [Hb E]]] _]. exists n.
    rewrite gp_tb_land, gp_tb_not64 in Hb by exact Hn.
    apply andb_true_iff in Hb. destruct Hb as [H1 H2].
    rewrite gp_same_pieces in H2 by assumption.
    split; [exact Hn|]. split; [apply HA; assumption|]. split; [|exact E].
    apply negb_true_iff. exact H2.
  - intros [n [Hn [HL [Hc E]]]]. split.
    + exists n. split; [exact Hn|]. split; [|exact E].
      rewrite gp_tb_land, gp_tb_not64 by exact Hn.
      rewrite gp_same_pieces by assumption. rewrite Hc.
      rewrite (proj2 (HA n Hn) HL). reflexivity.
    + subst m. unfold ply_sane, ply_new; cbn [p_start p_dest].
      rewrite V, sq_of_idx_valid by exact Hn. cbn [andb].
      apply negb_true_iff. apply sq_eqb_neq. intros E.
      assert (I : idx sq = n) by (rewrite E; apply idx_sq_of_idx).
      rewrite <- I, gp_own_color in Hc. discriminate.
Qed.

Lemma gp_steps_spec L from mv :
  In mv (gp_steps (abs b) from L) <->
  exists n, In n L /\ has_color (cells (abs b)) c n = false /\ mv = mkMove from n None.
Proof.
  unfold gp_steps. rewrite gp_side, in_map_iff. split.
  - intros [n [E H]]. apply filter_In in H. destruct H as [H1 H2]. apply negb_true_iff in H2.
    exists n. auto.
  - intros [n [H1 [H2 E]]]. exists n. split; [auto|]. apply filter_In. split; [exact H1|].
    rewrite H2. reflexivity.
Qed.

Lemma gp_move_of_step n : n < 64 -> move_of (ply_new sq (sq_of_idx n) (t, c)) = mkMove (idx sq) n None.
Proof. intros _. unfold move_of, ply_new; cbn [p_start p_dest p_promoted]. rewrite idx_sq_of_idx. reflexivity. Qed.

Lemma gp_steps_same A L mv :
  (forall n, n < 64 -> (tb A n = true <-> In n L)) ->
  (forall n, In n L -> n < 64) ->
  (In mv (map move_of (filter ply_sane (plies_to sq (t, c) (N.land A (not64 (same_pieces b c)))))) <->
   In mv (gp_steps (abs b) (idx sq) L)).
Proof.
  intros HA HL. rewrite gp_steps_spec, in_map_iff. split.
  - intros [m [E H]]. apply (gp_steps_engine A L m HA) in H.
    destruct H as [n [Hn [H1 [H2 Em]]]]. exists n. split; [exact H1|]. split; [exact H2|].
    rewrite <- E, Em. apply gp_move_of_step. exact Hn.
  - intros [n [H1 [H2 E]]]. exists (ply_new sq (sq_of_idx n) (t, c)).
    pose proof (HL n H1) as Hn. split; [rewrite E; apply gp_move_of_step; exact Hn|].
    apply (gp_steps_engine A L _ HA). exists n. auto.
Qed.

Lemma gp_set_of_mask L : forall n, n < 64 -> (tb (set_of L) n = true <-> In n L).
Proof. intros n _. apply set_of_tb. Qed.

(* part 2 for a step move *)
Lemma gp_step_ok n :
  n < 64 -> has_color (cells (abs b)) c n = false -> t <> Pawn ->
  (t = King -> (Z.abs (Geometry.file (idx sq) - Geometry.file n) <=? 1)%Z = true) ->
  move_okb b (fill_captured b (ply_new sq (sq_of_idx n) (t, c))) = true /\
  flags_ok b (fill_captured b (ply_new sq (sq_of_idx n) (t, c))) = true.
Proof.
  intros Hn Hc Ht Hk.
  assert (Hd : sq_valid (sq_of_idx n) = true) by (apply sq_of_idx_valid; exact Hn).
  assert (Hne : sq_eqb sq (sq_of_idx n) = false).
  { apply sq_eqb_neq. intros E.
    assert (I : idx sq = n) by (rewrite E; apply idx_sq_of_idx).
    rewrite <- I, gp_own_color in Hc. discriminate. }
  pose proof (gp_at_abs b n Hn) as An.
  pose proof (gp_at_idx b sq V) as As. rewrite G in As.
  change (fill_captured b (ply_new sq (sq_of_idx n) (t, c)))
    with (mkPly sq (sq_of_idx n) (t, c) (get_piece b (sq_of_idx n)) None false false false 0 all_rights).
  split.
  - unfold move_okb; cbn [p_start p_dest p_piece p_captured p_promoted p_castles p_ep p_dpp fst snd].
    rewrite V, Hd, Hne, G, kind_eqb_refl_o, gp_okind_eqb_refl. cbn [andb negb].
    rewrite Tn at 1. replace (color_eqb (current_turn b) (current_turn b)) with true by (destruct (current_turn b); reflexivity).
    cbn [andb]. rewrite !andb_true_r.
    unfold has_color in Hc. rewrite An in Hc.
    destruct (get_piece b (sq_of_idx n)) as [[t' c']|]; [|reflexivity].
    cbn [snd]. rewrite Hc. reflexivity.
  - unfold flags_ok, move_of, is_capture;
      cbn [p_start p_dest p_piece p_captured p_promoted p_castles p_ep p_dpp fst snd].
    rewrite idx_sq_of_idx.
    unfold is_capture_move, is_castle, is_ep, is_double_push, occupied; cbn [m_from m_to].
    rewrite As, An.
    assert (Ec : (match t with King => (Z.abs (Geometry.file (idx sq) - Geometry.file n) =? 2)%Z | _ => false end) = false).
    { destruct t; try reflexivity. specialize (Hk eq_refl). apply Z.leb_le in Hk. apply Z.eqb_neq. lia. }
    destruct t; try (exfalso; apply Ht; reflexivity); try rewrite Ec;
      destruct (get_piece b (sq_of_idx n)); reflexivity.
Qed.

End Piece.

(* ------------------------------------------------------------------ *)
(* knights, bishops, rooks, queens *)
Lemma gp_simple_same b sq t c A L :
  wf_full b = true -> sq_valid sq = true -> get_piece b sq = Some (t, c) -> c = current_turn b ->
  (forall n, n < 64 -> (tb A n = true <-> In n L)) -> (forall n, In n L -> n < 64) ->
  forall mv,
  In mv (map move_of (filter ply_sane (simple_moveset A sq b (t, c)))) <->
  In mv (gp_steps (abs b) (idx sq) L).
Proof.
  intros WF V G Tn HA HL mv. rewrite gp_simple_moveset_eq.
  apply (gp_steps_same b sq t c WF V G Tn A L mv HA HL).
Qed.

Lemma gp_simple_ok b sq t c A L :
  wf_full b = true -> sq_valid sq = true -> get_piece b sq = Some (t, c) -> c = current_turn b ->
  t <> Pawn -> t <> King ->
  (forall n, n < 64 -> (tb A n = true <-> In n L)) ->
  forall m, In m (map (fill_captured b) (filter ply_sane (simple_moveset A sq b (t, c)))) ->
  move_okb b m = true /\ flags_ok b m = true.
Proof.
  intros WF V G Tn Ht Hk HA m Hm. apply in_map_iff in Hm. destruct Hm as [p [<- Hp]].
  rewrite gp_simple_moveset_eq in Hp.
  apply (gp_steps_engine b sq t c WF V G Tn A L p HA) in Hp.
  destruct Hp as [n [Hn [_ [Hc ->]]]].
  apply (gp_step_ok b sq t c V G Tn n Hn Hc Ht). intros E. contradiction.
Qed.

Lemma gp_queen_mask b s : pbb_wf (bbs b) = true -> s < 64 ->
  queen_attacks s (all_pieces (bbs b)) =
  set_of (slider_attacks rook_dirs s (occupied (cells (abs b))) ++
          slider_attacks bishop_dirs s (occupied (cells (abs b)))).
Proof.
  intros W H. unfold queen_attacks. rewrite rook_attacks_geo, bishop_attacks_geo by exact H.
  rewrite !gp_slider_occ by exact W. symmetry. apply set_of_app.
Qed.

Lemma gp_queen_lt64 f s n :
  In n (slider_attacks rook_dirs s f ++ slider_attacks bishop_dirs s f) -> n < 64.
Proof. intros H. apply in_app_or in H. destruct H as [H|H]; eapply slider_attacks_lt64; exact H. Qed.

Section Pieces.
Variables (b : Board) (sq : Square) (c : Color).
Hypothesis WF : wf_full b = true.
Hypothesis V : sq_valid sq = true.
Hypothesis Tn : c = current_turn b.

Let PW : pbb_wf (bbs b) = true := gp_wf_full_pbb b WF.
Let I64 : idx sq < 64 := idx_lt sq V.

Lemma knight_gen_spec : get_piece b sq = Some (Knight, c) ->
  forall mv, In mv (map move_of (get_moveset (Knight, c) sq b)) <->
             In mv (piece_moves (abs b) (idx sq) (Knight, c)).
Proof.
  intros G mv.
  rewrite gp_get_moveset_knight, gp_piece_moves_knight.
  rewrite knight_attacks_geo by exact I64.
  apply (gp_simple_same b sq Knight c _ _ WF V G Tn (gp_set_of_mask _)).
  intros n. apply leaper_targets_lt64.
Qed.

Lemma knight_gen_ok : get_piece b sq = Some (Knight, c) ->
  forall m, In m (map (fill_captured b) (get_moveset (Knight, c) sq b)) ->
  move_okb b m = true /\ flags_ok b m = true.
Proof.
  intros G.
  rewrite gp_get_moveset_knight.
  rewrite knight_attacks_geo by exact I64.
  eapply (gp_simple_ok b sq Knight c _ _ WF V G Tn); [discriminate|discriminate|apply gp_set_of_mask].
Qed.

Lemma rook_gen_spec : get_piece b sq = Some (Rook, c) ->
  forall mv, In mv (map move_of (get_moveset (Rook, c) sq b)) <->
             In mv (piece_moves (abs b) (idx sq) (Rook, c)).
Proof.
  intros G mv.
  rewrite gp_get_moveset_rook, gp_piece_moves_rook.
  rewrite rook_attacks_geo, gp_slider_occ by assumption.
  apply (gp_simple_same b sq Rook c _ _ WF V G Tn (gp_set_of_mask _)).
  intros n. apply slider_attacks_lt64.
Qed.

Lemma rook_gen_ok : get_piece b sq = Some (Rook, c) ->
  forall m, In m (map (fill_captured b) (get_moveset (Rook, c) sq b)) ->
  move_okb b m = true /\ flags_ok b m = true.
Proof.
  intros G.
  rewrite gp_get_moveset_rook.
  rewrite rook_attacks_geo by assumption.
  eapply (gp_simple_ok b sq Rook c _ _ WF V G Tn); [discriminate|discriminate|apply gp_set_of_mask].
Qed.

Lemma bishop_gen_spec : get_piece b sq = Some (Bishop, c) ->
  forall mv, In mv (map move_of (get_moveset (Bishop, c) sq b)) <->
             In mv (piece_moves (abs b) (idx sq) (Bishop, c)).
Proof.
  intros G mv.
  rewrite gp_get_moveset_bishop, gp_piece_moves_bishop.
  rewrite bishop_attacks_geo, gp_slider_occ by assumption.
  apply (gp_simple_same b sq Bishop c _ _ WF V G Tn (gp_set_of_mask _)).
  intros n. apply slider_attacks_lt64.
Qed.

Lemma bishop_gen_ok : get_piece b sq = Some (Bishop, c) ->
  forall m, In m (map (fill_captured b) (get_moveset (Bishop, c) sq b)) ->
  move_okb b m = true /\ flags_ok b m = true.
Proof.
  intros G.
  rewrite gp_get_moveset_bishop.
  rewrite bishop_attacks_geo by assumption.
  eapply (gp_simple_ok b sq Bishop c _ _ WF V G Tn); [discriminate|discriminate|apply gp_set_of_mask].
Qed.

Lemma queen_gen_spec : get_piece b sq = Some (Queen, c) ->
  forall mv, In mv (map move_of (get_moveset (Queen, c) sq b)) <->
             In mv (piece_moves (abs b) (idx sq) (Queen, c)).
Proof.
  intros G mv.
  rewrite gp_get_moveset_queen, gp_piece_moves_queen.
  rewrite gp_queen_mask by assumption.
  apply (gp_simple_same b sq Queen c _ _ WF V G Tn (gp_set_of_mask _)).
  intros n. apply gp_queen_lt64.
Qed.

Lemma queen_gen_ok : get_piece b sq = Some (Queen, c) ->
  forall m, In m (map (fill_captured b) (get_moveset (Queen, c) sq b)) ->
  move_okb b m = true /\ flags_ok b m = true.
Proof.
  intros G.
  rewrite gp_get_moveset_queen.
  rewrite gp_queen_mask by assumption.
  eapply (gp_simple_ok b sq Queen c _ _ WF V G Tn); [discriminate|discriminate|apply gp_set_of_mask].
Qed.

(* ------------------------------------------------------------------ *)
(* king *)
Lemma gp_castling_ability k :
  castling_ability b k =
  get_right (rights (abs b)) k &&
  (forallb (fun i => negb (occupied (cells (abs b)) i)) (ck_between k) &&
   forallb (fun i => negb (attacked_by (cells (abs b)) (opposite (current_turn b)) i)) (ck_safe k)).
Proof.
  unfold castling_ability, no_pieces_between, no_checks_castling.
  rewrite gp_between_mask, gp_safe_mask, !gp_land_set_of_eqb.
  f_equal. f_equal.
  - apply gp_forallb_ext_in. intros i Hi. rewrite gp_all_pieces; [reflexivity|exact PW|].
    eapply gp_ck_between_lt; exact Hi.
  - apply gp_forallb_ext_in. intros i Hi. rewrite attacked_spec; [reflexivity|exact PW|].
    eapply gp_ck_safe_lt; exact Hi.
Qed.

Lemma gp_ck_cond k : current_turn b = ck_color k -> castling_ability b k = ck_cond (abs b) k.
Proof.
  intros T. rewrite gp_castling_ability, T.
  change (rights (abs b)) with (p_rights (last_ply b)).
  destruct (get_right (p_rights (last_ply b)) k) eqn:R.
  - pose proof (gp_rc b (gp_wf_full_rights b WF) k R) as RC.
    destruct k; destruct RC as [_ RK]; unfold ck_cond;
      change (rights (abs b)) with (p_rights (last_ply b)); rewrite R;
      cbn [ck_between ck_safe ck_color forallb opposite].
    + rewrite (gp_has_piece b (mkSq 0 7) _ eq_refl RK : has_piece _ _ 7 = true).
      cbn [andb]. rewrite !andb_true_r, !andb_assoc. reflexivity.
    + rewrite (gp_has_piece b (mkSq 0 0) _ eq_refl RK : has_piece _ _ 0 = true).
      cbn [andb].
      destruct (occupied (cells (abs b)) 1), (occupied (cells (abs b)) 2), (occupied (cells (abs b)) 3),
        (attacked_by (cells (abs b)) Black 2), (attacked_by (cells (abs b)) Black 3),
        (attacked_by (cells (abs b)) Black 4); reflexivity.
    + rewrite (gp_has_piece b (mkSq 7 7) _ eq_refl RK : has_piece _ _ 63 = true).
      cbn [andb]. rewrite !andb_true_r, !andb_assoc. reflexivity.
    + rewrite (gp_has_piece b (mkSq 7 0) _ eq_refl RK : has_piece _ _ 56 = true).
      cbn [andb].
      destruct (occupied (cells (abs b)) 57), (occupied (cells (abs b)) 58), (occupied (cells (abs b)) 59),
        (attacked_by (cells (abs b)) White 58), (attacked_by (cells (abs b)) White 59),
        (attacked_by (cells (abs b)) White 60); reflexivity.
  - destruct k; unfold ck_cond; change (rights (abs b)) with (p_rights (last_ply b)); rewrite R; reflexivity.
Qed.

End Pieces.

Lemma gp_king_castles_spec b sq c :
  wf_full b = true -> sq_valid sq = true -> get_piece b sq = Some (King, c) -> c = current_turn b ->
  map move_of (filter ply_sane (king_castles sq b c)) = castle_moves (abs b) (idx sq).
Proof.
  intros WF V G Tn. destruct c.
  - destruct (sq_eqb_spec sq (mkSq 0 4)) as [->|N].
    + unfold king_castles. rewrite sq_eqb_refl. cbn [color_eqb andb]. rewrite andb_false_r, app_nil_r.
      change (idx (mkSq 0 4)) with 4.
      rewrite gp_castle_moves_white;
        [|symmetry; exact Tn|apply (gp_has_piece b (mkSq 0 4) _ eq_refl G)].
      rewrite <- !(gp_ck_cond b WF) by (symmetry; exact Tn).
      destruct (castling_ability b WK), (castling_ability b WQ); reflexivity.
    + unfold king_castles. rewrite (sq_eqb_neq _ _ N). cbn [color_eqb andb]. rewrite andb_false_r.
      cbn [app filter map]. symmetry. apply gp_castle_moves_other.
      change (side (abs b)) with (current_turn b). rewrite <- Tn. intros E. apply N.
      apply idx_inj; [exact V|reflexivity|exact E].
  - destruct (sq_eqb_spec sq (mkSq 7 4)) as [->|N].
    + unfold king_castles. rewrite sq_eqb_refl. cbn [color_eqb andb]. rewrite andb_false_r.
      cbn [app]. change (idx (mkSq 7 4)) with 60.
      rewrite gp_castle_moves_black;
        [|symmetry; exact Tn|apply (gp_has_piece b (mkSq 7 4) _ eq_refl G)].
      rewrite <- !(gp_ck_cond b WF) by (symmetry; exact Tn).
      destruct (castling_ability b BK), (castling_ability b BQ); reflexivity.
    + unfold king_castles. rewrite (sq_eqb_neq _ _ N). cbn [color_eqb andb]. rewrite andb_false_r.
      cbn [app filter map]. symmetry. apply gp_castle_moves_other.
      change (side (abs b)) with (current_turn b). rewrite <- Tn. intros E. apply N.
      apply idx_inj; [exact V|reflexivity|exact E].
Qed.

Lemma king_gen_spec b sq c :
  wf_full b = true -> sq_valid sq = true -> get_piece b sq = Some (King, c) -> c = current_turn b ->
  forall mv, In mv (map move_of (get_moveset (King, c) sq b)) <->
             In mv (piece_moves (abs b) (idx sq) (King, c)).
Proof.
  intros WF V G Tn mv.
  rewrite gp_get_moveset_king, gp_king_moveset_eq, gp_piece_moves_king, filter_app, map_app, !in_app_iff.
  rewrite (gp_king_castles_spec b sq c WF V G Tn).
  rewrite king_attacks_geo by (apply idx_lt; exact V).
  rewrite (gp_steps_same b sq King c WF V G Tn _ _ mv (gp_set_of_mask _)
             (fun n => leaper_targets_lt64 king_deltas (idx sq) n)).
  reflexivity.
Qed.

Lemma gp_castle_facts b k : wf_full b = true -> castling_ability b k = true ->
  get_right (p_rights (last_ply b)) k = true /\
  forall i, In i (ck_between k) -> get_piece b (sq_of_idx i) = None.
Proof.
  intros WF H. rewrite (gp_castling_ability b WF) in H.
  apply andb_true_iff in H. destruct H as [R H]. apply andb_true_iff in H. destruct H as [B _].
  split; [exact R|]. intros i Hi. rewrite forallb_forall in B. specialize (B i Hi).
  apply negb_true_iff in B. apply gp_occ_none; [|exact B]. eapply gp_ck_between_lt; exact Hi.
Qed.

Lemma gp_king_castle_ok b sq c p :
  wf_full b = true -> sq_valid sq = true -> get_piece b sq = Some (King, c) -> c = current_turn b ->
  In p (king_castles sq b c) ->
  move_okb b (fill_captured b p) = true /\ flags_ok b (fill_captured b p) = true.
Proof.
  intros WF V G Tn Hp. pose proof (gp_wf_full_rights b WF) as RC.
  apply gp_king_castles_In in Hp.
  destruct Hp as [[-> [-> [[CA ->]|[CA ->]]]]|[-> [-> [[CA ->]|[CA ->]]]]];
    destruct (gp_castle_facts b _ WF CA) as [R E]; pose proof (gp_rc b RC _ R) as [_ RK].
  - apply (gp_castle_ok b (mkSq 0 4) (mkSq 0 6) (mkSq 0 7) (mkSq 0 5) White); try reflexivity; try assumption.
    + apply (E 6). cbn. tauto.
    + apply (E 5). cbn. tauto.
  - apply (gp_castle_ok b (mkSq 0 4) (mkSq 0 2) (mkSq 0 0) (mkSq 0 3) White); try reflexivity; try assumption.
    + apply (E 2). cbn. tauto.
    + apply (E 3). cbn. tauto.
  - apply (gp_castle_ok b (mkSq 7 4) (mkSq 7 6) (mkSq 7 7) (mkSq 7 5) Black); try reflexivity; try assumption.
    + apply (E 62). cbn. tauto.
    + apply (E 61). cbn. tauto.
  - apply (gp_castle_ok b (mkSq 7 4) (mkSq 7 2) (mkSq 7 0) (mkSq 7 3) Black); try reflexivity; try assumption.
    + apply (E 58). cbn. tauto.
    + apply (E 59). cbn. tauto.
Qed.

Lemma king_gen_ok b sq c :
  wf_full b = true -> sq_valid sq = true -> get_piece b sq = Some (King, c) -> c = current_turn b ->
  forall m, In m (map (fill_captured b) (get_moveset (King, c) sq b)) ->
  move_okb b m = true /\ flags_ok b m = true.
Proof.
  intros WF V G Tn m Hm.
  rewrite gp_get_moveset_king, gp_king_moveset_eq, filter_app, map_app in Hm.
  apply in_app_or in Hm. destruct Hm as [Hm|Hm]; apply in_map_iff in Hm; destruct Hm as [p [<- Hp]].
  - rewrite king_attacks_geo in Hp by (apply idx_lt; exact V).
    apply (gp_steps_engine b sq King c WF V G Tn _ _ p (gp_set_of_mask _)) in Hp.
    destruct Hp as [n [Hn [HL [Hc ->]]]].
    apply (gp_step_ok b sq King c V G Tn n Hn Hc); [discriminate|].
    intros _. apply gp_king_file; [apply idx_lt; exact V|exact HL].
  - apply filter_In in Hp. destruct Hp as [Hp _].
    apply (gp_king_castle_ok b sq c p WF V G Tn Hp).
Qed.

(* all non-pawn pieces at once *)
Theorem nonpawn_gen_spec b sq t c :
  wf_full b = true -> sq_valid sq = true -> get_piece b sq = Some (t, c) -> c = current_turn b ->
  t <> Pawn ->
  forall mv, In mv (map move_of (get_moveset (t, c) sq b)) <->
             In mv (piece_moves (abs b) (idx sq) (t, c)).
Proof.
  intros WF V G Tn Ht. destruct t.
  - contradiction.
  - apply king_gen_spec; assumption.
  - apply queen_gen_spec; assumption.
  - apply rook_gen_spec; assumption.
  - apply bishop_gen_spec; assumption.
  - apply knight_gen_spec; assumption.
Qed.

Theorem nonpawn_gen_ok b sq t c :
  wf_full b = true -> sq_valid sq = true -> get_piece b sq = Some (t, c) -> c = current_turn b ->
  t <> Pawn ->
  forall m, In m (map (fill_captured b) (get_moveset (t, c) sq b)) ->
  move_okb b m = true /\ flags_ok b m = true.
Proof.
  intros WF V G Tn Ht. destruct t.
  - contradiction.
  - apply king_gen_ok; assumption.
  - apply queen_gen_ok; assumption.
  - apply rook_gen_ok; assumption.
  - apply bishop_gen_ok; assumption.
  - apply knight_gen_ok; assumption.
Qed.

End Gen.

Check nonpawn_gen_spec.
Check nonpawn_gen_ok.
Check knight_gen_spec.
Check king_gen_spec.
Check king_gen_ok.
Check gp_castling_ability.
Check gp_ck_cond.
Print Assumptions nonpawn_gen_spec.
Print Assumptions nonpawn_gen_ok.
