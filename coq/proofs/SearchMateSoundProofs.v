(* SearchMateSoundProofs.v — proofs for props/C12sound.v (cache ON): mate scores are sound.
   Section Defs fixes the notions of the statement; the lemmas applied by props/C12sound.v are
     mate_scores_sound_iteration, mate_scores_sound_search, empty_cache_sound, wins_within_Won, keeps_within_Lost. *)
From Coq Require Import NArith ZArith List Lia Bool FMapPositive Permutation.
Import ListNotations.
From RCE Require Import model.Search spec.Mate proofs.SearchProofs proofs.SearchAbortProofs proofs.SearchMateProofs.
Open Scope Z_scope.

Section Defs.
  Variables pos mv : Type.
  Variable moves : pos -> list mv.
  Variable legal : pos -> mv -> bool.
  Variable make : pos -> mv -> pos.
  Variable in_check : pos -> bool.
  Variable key : pos -> N.

  Local Notation Won := (Won pos mv moves legal make in_check).
  Local Notation Lost := (Lost pos mv moves legal make in_check).
  Local Notation lmoves := (lmoves pos mv moves legal).

  (* every cached entry that claims a won position (a lower bound or an exact score >= 32000) belongs to a position that is won,
     every entry that claims a lost one (an upper bound or an exact score <= -32000) to a position that is lost; scores stay strictly
     inside the two "mate at ply 1" values *)
  Definition tt_sound (s : St mv) : Prop :=
    forall p e, tt_get mv s (key p) = Some e ->
      -32766 <= e_score mv e <= 32766
      /\ (e_bound mv e <> Upper -> 32000 <= e_score mv e -> Won p)
      /\ (e_bound mv e <> Lower -> e_score mv e <= -32000 -> Lost p).

  Definition best_sound (root : pos) (s : St mv) : Prop :=
    forall sc, best_score mv s = Some sc ->
      (32000 <= sc -> exists m, best_move mv s = Some m /\ Lost (make root m)) /\ (sc <= -32000 -> Lost root).

  Definition no_mate1 (root : pos) : Prop :=
    forall m, In m (lmoves root) -> ~ (lmoves (make root m) = [] /\ in_check (make root m) = true).
End Defs.

(* ------------------------------------------------------------------ *)
(* the bounded oracles imply the unbounded notions                      *)
(* ------------------------------------------------------------------ *)
Lemma reply_Lost pos mv moves legal make in_check n q :
  (forall p, wins_within pos mv moves legal make in_check n p = true -> Won pos mv moves legal make in_check p) ->
  (if is_mated_b pos mv moves legal in_check q then true
   else match lmoves pos mv moves legal q with
        | [] => false
        | rs => forallb (fun r => wins_within pos mv moves legal make in_check n (make q r)) rs
        end) = true ->
  Lost pos mv moves legal make in_check q.
Proof.
  intros IH H. unfold is_mated_b in H.
  destruct (lmoves pos mv moves legal q) as [|r0 rs] eqn:E.
  - apply Lost_mated; [exact E|]. destruct (in_check q); [reflexivity | discriminate H].
  - apply Lost_all; [rewrite E; discriminate|].
    intros r Hr. rewrite E in Hr. rewrite forallb_forall in H. apply IH, H, Hr.
Qed.

Lemma wins_within_Won : forall pos mv moves legal make in_check n p,
  wins_within pos mv moves legal make in_check n p = true -> Won pos mv moves legal make in_check p.
Proof.
  intros pos mv moves legal make in_check. induction n as [|n IH]; intros p H; cbn [wins_within] in H; [discriminate|].
  apply existsb_exists in H. destruct H as [m [Hm H]].
  apply Won_by with (m := m); [exact Hm|].
  apply (reply_Lost pos mv moves legal make in_check n (make p m) IH H).
Qed.

Lemma keeps_within_Lost : forall pos mv moves legal make in_check n p m,
  keeps_within pos mv moves legal make in_check n p m = true -> Lost pos mv moves legal make in_check (make p m).
Proof.
  intros pos mv moves legal make in_check n p m H. unfold keeps_within in H.
  apply (reply_Lost pos mv moves legal make in_check n (make p m)); [|exact H].
  intros q. apply wins_within_Won.
Qed.

Lemma empty_cache_sound pos mv moves legal make in_check key :
  tt_sound pos mv moves legal make in_check key (init_st mv).
Proof.
  intros p e F. unfold tt_get in F. cbn [tt init_st] in F. rewrite PositiveMap.gempty in F. discriminate.
Qed.

(* ------------------------------------------------------------------ *)
(* the search keeps the cache sound and its mate scores are true        *)
(* ------------------------------------------------------------------ *)
Definition Proper (a b : Z) : Prop := -32767 <= a /\ a < b /\ b <= 32767.

Lemma sneg_cases x : -32768 <= x ->
  (x = -32768 /\ sneg x = 32767) \/ (-32767 <= x /\ sneg x = - x).
Proof.
  intros H. unfold sneg, SCORE_MIN, SCORE_MAX. destruct (Z.eqb_spec x (-32768)); [left | right]; split; lia.
Qed.

Section Sound.
  Variables pos mv : Type.
  Variable moves : pos -> list mv.
  Variable legal : pos -> mv -> bool.
  Variable make : pos -> mv -> pos.
  Variable in_check : pos -> bool.
  Variable evalf : pos -> Z.
  Variable is_cap is_promo : mv -> bool.
  Variable cap_score : mv -> N.
  Variable mv_eqb : mv -> mv -> bool.
  Variable key : pos -> N.
  Variable halfmove : pos -> N.
  Variable repeated : pos -> bool.
  Variable default_mv : mv.

  Local Notation Won := (Won pos mv moves legal make in_check).
  Local Notation Lost := (Lost pos mv moves legal make in_check).
  Local Notation lmoves := (lmoves pos mv moves legal).

  Variable Inv : pos -> Prop.
  Hypothesis Inv_make : forall p m, Inv p -> In m (moves p) -> legal p m = true -> Inv (make p m).
  Hypothesis Inv_eval : forall p, Inv p -> -32000 < evalf p < 32000.
  Hypothesis key_sem : forall p q, key p = key q -> (Won p -> Won q) /\ (Lost p -> Lost q).

  Variable lim : Limits.
  Variable clock : nat -> N.
  Variable ext_stop : nat -> bool.

  Local Notation State := (St mv).
  Local Notation abt := (aborted mv lim clock ext_stop).
  Local Notation qs := (quiescence pos mv moves legal make evalf is_cap is_promo cap_score mv_eqb key
                                   lim clock ext_stop).
  Local Notation ab := (alpha_beta pos mv moves legal make in_check evalf is_cap is_promo cap_score mv_eqb key
                                   halfmove repeated default_mv lim clock ext_stop true).
  Local Notation start := (alpha_beta_start pos mv moves legal make in_check evalf is_cap is_promo cap_score
                                   mv_eqb key halfmove repeated default_mv lim clock ext_stop true).
  Local Notation iter := (iter_loop pos mv moves legal make in_check evalf is_cap is_promo cap_score mv_eqb key
                                   halfmove repeated default_mv lim clock ext_stop true).
  Local Notation srch := (search pos mv moves legal make in_check evalf is_cap is_promo cap_score mv_eqb key
                                   halfmove repeated default_mv lim clock ext_stop true).
  Local Notation order := (order_moves pos mv is_cap is_promo cap_score mv_eqb key).
  Local Notation tins := (tt_insert mv ext_stop).
  Local Notation skill := (store_killers mv is_cap is_promo mv_eqb).
  Local Notation cscore := (child_score pos mv).
  Local Notation qlp := (qloop pos mv legal make).
  Local Notation ablp := (abloop pos mv legal make in_check is_cap is_promo mv_eqb key lim clock ext_stop).
  Local Notation rootlp := (rootloop pos mv legal make key lim clock ext_stop).
  Local Notation q_rec := (qrec pos mv moves legal make evalf is_cap is_promo cap_score mv_eqb key
                                lim clock ext_stop).
  Local Notation ab_rec := (abrec pos mv moves legal make in_check evalf is_cap is_promo cap_score mv_eqb key
                                  halfmove repeated default_mv lim clock ext_stop true).
  Local Notation tts := (tt_sound pos mv moves legal make in_check key).
  Local Notation bsound := (best_sound pos mv moves legal make in_check).
  Local Notation nomate1 := (no_mate1 pos mv moves legal make in_check).
  Local Notation frm := (fr mv).

  (* ---------------- frames ---------------- *)
  Definition Post (s s' : State) : Prop :=
    tts s' /\ best_move mv s' = best_move mv s /\ best_score mv s' = best_score mv s.

  Lemma tts_fr s s' : tts s -> frm s s' -> tts s'.
  Proof.
    intros H [A _] p e F. unfold tt_get in F. rewrite A in F. exact (H p e F).
  Qed.
  Lemma Post_refl s : tts s -> Post s s.
  Proof. intros H. split; [exact H | split; reflexivity]. Qed.
  Lemma Post_trans s1 s2 s3 : Post s1 s2 -> Post s2 s3 -> Post s1 s3.
  Proof. unfold Post. intros [A [B C]] [A' [B' C']]. split; [assumption | split; congruence]. Qed.
  Lemma Post_fr s1 s2 s3 : Post s1 s2 -> frm s2 s3 -> Post s1 s3.
  Proof.
    intros [A [B C]] F. split; [eapply tts_fr; eassumption|].
    destruct F as [_ [B' C']]. split; congruence.
  Qed.
  Lemma fr_Post s1 s2 : tts s1 -> frm s1 s2 -> Post s1 s2.
  Proof. intros H F. eapply Post_fr; [apply Post_refl, H | exact F]. Qed.
  Lemma fr_enter (s : State) ply u : frm s (enter_node mv s ply u).
  Proof. repeat split. Qed.

  Lemma in_lmoves p m : In m (lmoves p) <-> In m (moves p) /\ legal p m = true.
  Proof. unfold Mate.lmoves. apply filter_In. Qed.

  Lemma tts_tins (s : State) p e : tts s -> -32766 <= e_score mv e <= 32766 ->
    (e_bound mv e <> Upper -> 32000 <= e_score mv e -> Won p) ->
    (e_bound mv e <> Lower -> e_score mv e <= -32000 -> Lost p) ->
    tts (tins s (key p) e).
  Proof.
    intros H R W L q e' F. unfold tt_get in F. cbn [tt tt_insert] in F.
    destruct (Pos.eq_dec (kpos (key q)) (kpos (key p))) as [E|Hne].
    - rewrite E, PositiveMap.gss in F. inversion F; subst e'.
      apply kpos_inj in E. destruct (key_sem p q (eq_sym E)) as [KW KL].
      split; [exact R|]. split; intros; [apply KW, W | apply KL, L]; assumption.
    - rewrite PositiveMap.gso in F by exact Hne. exact (H q e' F).
  Qed.
  Lemma Post_tins (s : State) p e : tts s -> -32766 <= e_score mv e <= 32766 ->
    (e_bound mv e <> Upper -> 32000 <= e_score mv e -> Won p) ->
    (e_bound mv e <> Lower -> e_score mv e <= -32000 -> Lost p) ->
    Post s (tins s (key p) e).
  Proof. intros. split; [apply tts_tins; assumption | split; reflexivity]. Qed.

  (* ---------------- what a returned score claims ---------------- *)
  Definition Claim (p : pos) (a b r : Z) : Prop :=
    (a < r -> 32000 <= r -> Won p) /\ (r < b -> r <= -32000 -> Lost p).
  Definition Rng (ply : nat) (p : pos) (r : Z) : Prop :=
    -32767 <= r <= 32766 /\ (r = -32767 -> ply = 1%nat /\ lmoves p = [] /\ in_check p = true).

  Lemma Claim0 p a b : Claim p a b 0.
  Proof. split; intros; lia. Qed.
  Lemma Rng0 ply p : Rng ply p 0.
  Proof. split; [lia | intros; lia]. Qed.

  (* ---------------- the probe ---------------- *)
  Lemma probe_sound (s : State) p d a b : tts s -> Proper a b ->
    match probe pos mv key s p d a b with
    | (Some v, _, _) => -32766 <= v <= 32766 /\ Claim p a b v
    | (None, a0, b0) => a <= a0 /\ a0 < b0 /\ b0 <= b
                        /\ (a < a0 -> 32000 <= a0 -> Won p) /\ (b0 < b -> b0 <= -32000 -> Lost p)
    end.
  Proof.
    intros H [Pa [Pab Pb]]. unfold probe.
    assert (Triv : a <= a /\ a < b /\ b <= b /\ (a < a -> 32000 <= a -> Won p) /\ (b < b -> b <= -32000 -> Lost p))
      by (split; [lia|]; split; [lia|]; split; [lia|]; split; intros; lia).
    destruct (tt_get mv s (key p)) as [e|] eqn:F; [|exact Triv].
    destruct (H p e F) as [R [W L]].
    destruct (Nat.leb d (e_depth mv e)); [|exact Triv].
    destruct (e_bound mv e) eqn:B.
    - split; [exact R|]. split; intros; [apply W | apply L]; (congruence || lia).
    - destruct (Z.max a (e_score mv e) >=? b) eqn:E; zb.
      + split; [exact R|]. split; intros; [apply W; (congruence || lia) | lia].
      + split; [lia|]. split; [lia|]. split; [lia|]. split; intros; [apply W; (congruence || lia) | lia].
    - destruct (a >=? Z.min b (e_score mv e)) eqn:E; zb.
      + split; [exact R|]. split; intros; [lia | apply L; (congruence || lia)].
      + split; [lia|]. split; [lia|]. split; [lia|]. split; intros; [lia | apply L; (congruence || lia)].
  Qed.

  (* ---------------- quiescence ---------------- *)
  Definition QRes (a b r : Z) : Prop :=
    -32767 <= r <= 32767 /\ (a < r -> r < 32000) /\ (r < b -> -32000 < r).
  Definition qspec (rec : State -> pos -> Z -> Z -> Z * State) : Prop :=
    forall s c a b, Inv c -> Proper a b -> frm s (snd (rec s c a b)) /\ QRes a b (fst (rec s c a b)).

  Lemma qlp_sound rec p a beta ply : qspec rec -> Inv p -> beta <= 32767 ->
    forall ms s alpha, (forall m, In m ms -> In m (moves p)) ->
      -32767 <= alpha -> alpha < beta -> -32000 < alpha -> (a < alpha -> alpha < 32000) ->
      frm s (snd (qlp rec p beta ply ms s alpha)) /\ QRes a beta (fst (qlp rec p beta ply ms s alpha)).
  Proof.
    intros Hrec HI Hb. induction ms as [|m t IH]; intros s alpha Hin A1 A2 A3 A4; cbn [qloop].
    - split; [apply fr_refl|]. cbn [fst]. unfold QRes. lia.
    - assert (Hin' : forall m', In m' t -> In m' (moves p)) by (intros m' H'; apply Hin; right; exact H').
      destruct (legal p m) eqn:L; cbn [negb]; [|apply IH; assumption]. cbv zeta.
      rewrite (sneg_in beta), (sneg_in alpha) by (unfold inrange; lia).
      destruct (Hrec (enter_node mv s (S ply) true) (make p m) (- beta) (- alpha)
                     (Inv_make p m HI (Hin m (or_introl eq_refl)) L)) as [F1 [R1 [Q1 Q2]]];
        [unfold Proper; lia|].
      destruct (rec _ _ _ _) as [r s1]. cbn [fst snd] in F1, R1, Q1, Q2.
      assert (F1' : frm s s1) by (eapply fr_trans; [apply fr_enter | exact F1]).
      rewrite (sneg_in r) by (unfold inrange; lia).
      destruct (- r >=? beta) eqn:E; zb.
      + cbn [fst snd]. split; [exact F1'|]. unfold QRes. lia.
      + destruct (IH s1 (if - r >? alpha then - r else alpha) Hin') as [F2 Q];
          try (destruct (- r >? alpha) eqn:E2; zb; lia).
        split; [eapply fr_trans; eassumption | exact Q].
  Qed.

  Lemma qs_sound : forall f s p a b ply, Inv p -> Proper a b ->
    frm s (snd (qs f s p a b ply)) /\ QRes a b (fst (qs f s p a b ply)).
  Proof.
    induction f as [|f IH]; intros s p a b ply HI [Pa [Pab Pb]].
    - cbn [quiescence fst snd]. split; [apply fr_refl | unfold QRes; lia].
    - rewrite gqs_S. pose proof (abt_fr mv lim clock ext_stop s ply) as FA.
      destruct (abt s ply) as [b0 s1]. cbn [snd] in FA.
      destruct b0; [split; [exact FA | cbn [fst]; unfold QRes; lia]|].
      pose proof (Inv_eval p HI) as He.
      destruct (evalf p >=? b) eqn:E; zb; [split; [exact FA | cbn [fst]; unfold QRes; lia]|].
      match goal with |- context [qloop _ _ _ _ ?r0 ?p0 ?b0 ?ply0 ?ms0 ?s0 ?al0] =>
        destruct (qlp_sound r0 p0 a b0 ply0) with (ms := ms0) (s := s0) (alpha := al0) as [F2 Q2] end;
        try (destruct (evalf p >? a) eqn:E2; zb; lia).
      + intros s' c a' b' Hc HP. unfold qrec. apply IH; assumption.
      + exact HI.
      + intros m Hm. apply order_incl in Hm. apply filter_In in Hm. apply Hm.
      + split; [eapply fr_trans; eassumption | exact Q2].
  Qed.

  (* ---------------- the PVS child score ---------------- *)
  Definition cspec (rec : State -> pos -> Z -> Z -> State * Z) (c : pos) : Prop :=
    forall s a b, tts s -> Proper a b ->
      Post s (fst (rec s c a b))
      /\ -32766 <= snd (rec s c a b) <= 32766 /\ Claim c a b (snd (rec s c a b)).

  Definition CSc (c : pos) (alpha beta sc : Z) : Prop :=
    -32766 <= sc <= 32766
    /\ (alpha < sc -> 32000 <= sc -> Lost c) /\ (sc < beta -> sc <= -32000 -> Won c).

  Lemma cscore_sound rec c s alpha beta pvs : cspec rec c -> tts s ->
    -32768 <= alpha -> alpha < beta -> -32767 < beta -> beta <= 32767 ->
    Post s (fst (cscore rec s c alpha beta pvs)) /\ CSc c alpha beta (snd (cscore rec s c alpha beta pvs)).
  Proof.
    intros Hrec Hs A1 A2 A2' A3. unfold child_score.
    rewrite (sneg_in beta) by (unfold inrange; lia).
    pose proof (sneg_cases alpha A1) as Sa. set (na := sneg alpha) in *. clearbody na.
    destruct pvs.
    - destruct (Hrec s (na - 1) na Hs) as [P1 [R1 [C1 C1']]]; [unfold Proper; lia|].
      destruct (rec s c (na - 1) na) as [s1 r1]. cbn [fst snd] in P1, R1, C1, C1'.
      rewrite (sneg_in r1) by (unfold inrange; lia).
      destruct ((alpha <? - r1) && (- r1 <? beta)) eqn:E.
      + destruct (Hrec s1 (- beta) na (proj1 P1)) as [P2 [R2 [C2 C2']]]; [unfold Proper; lia|].
        destruct (rec s1 c (- beta) na) as [s2 r2]. cbn [fst snd] in P2, R2, C2, C2' |- *.
        rewrite (sneg_in r2) by (unfold inrange; lia).
        split; [eapply Post_trans; eassumption|].
        split; [lia|]. split; intros; [apply C2' | apply C2]; lia.
      + cbn [fst snd]. split; [exact P1|].
        apply andb_false_iff in E.
        split; [lia|]. split; intros; [apply C1' | apply C1]; try lia;
          destruct E as [E|E]; zb; lia.
    - destruct (Hrec s (- beta) na Hs) as [P2 [R2 [C2 C2']]]; [unfold Proper; lia|].
      destruct (rec s c (- beta) na) as [s2 r2]. cbn [fst snd] in P2, R2, C2, C2' |- *.
      rewrite (sneg_in r2) by (unfold inrange; lia).
      split; [exact P2|].
      split; [lia|]. split; intros; [apply C2' | apply C2]; lia.
  Qed.

  (* ---------------- alpha_beta: the move loop ---------------- *)
  Lemma ablp_sound rec p a b b0 depth ply :
    (forall m, In m (moves p) -> legal p m = true -> cspec rec (make p m)) ->
    (1 <= ply <= 255)%nat -> Proper a b -> b0 <= b -> (b0 < b -> b0 <= -32000 -> Lost p) ->
    forall ms s alpha best pvs cnt,
      (forall m, In m ms -> In m (moves p)) -> tts s ->
      a <= alpha -> alpha < b0 ->
      (a < alpha -> 32000 <= alpha -> Won p) ->
      (alpha <= -32000 -> forall m, In m (lmoves p) -> In m ms \/ Won (make p m)) ->
      (cnt = 0%nat -> forall m, In m (lmoves p) -> In m ms) ->
      (cnt <> 0%nat -> lmoves p <> [] /\ -32766 <= alpha) ->
      Post s (snd (ablp rec p a b0 depth ply ms s alpha best pvs cnt))
      /\ Rng ply p (fst (ablp rec p a b0 depth ply ms s alpha best pvs cnt))
      /\ Claim p a b (fst (ablp rec p a b0 depth ply ms s alpha best pvs cnt)).
  Proof.
    intros Hrec Hply [Pa [Pab Pb]] Hb0 HB.
    induction ms as [|m t IH]; intros s alpha best pvs cnt Hin Hs A1 A2 HA HD H0 Hc; cbn [abloop].
    - destruct cnt as [|cnt]; cbn [fst snd].
      + split; [apply Post_refl, Hs|].
        assert (Hnil : lmoves p = []).
        { destruct (lmoves p) as [|m0 l0] eqn:E; [reflexivity|].
          destruct (H0 eq_refl m0 (or_introl eq_refl)). }
        unfold Rng, Claim, SCORE_MIN. destruct (in_check p) eqn:C.
        * split; [split; [lia|]; intros; repeat split; (assumption || lia)|].
          split; intros; [lia|]. apply Lost_mated; assumption.
        * split; [split; [lia|]; intros; lia|]. split; intros; lia.
      + destruct (Hc ltac:(discriminate)) as [Hne Hlo].
        assert (HL : alpha <= -32000 -> Lost p).
        { intros Hle. apply Lost_all; [exact Hne|]. intros m Hm.
          destruct (HD Hle m Hm) as [[]|HW]. exact HW. }
        split; [|split].
        * apply Post_tins; cbn [e_score e_bound]; [exact Hs | lia | |].
          -- destruct (alpha <=? a) eqn:E; zb; intros Hn Hw; [congruence|]. apply HA; lia.
          -- intros _. exact HL.
        * split; [lia | intros; lia].
        * split; [exact HA | intros _; exact HL].
    - assert (Hin' : forall m', In m' t -> In m' (moves p)) by (intros m' H'; apply Hin; right; exact H').
      destruct (legal p m) eqn:L; cbn [negb].
      + cbv zeta.
        assert (Hm : In m (moves p)) by (apply Hin; left; reflexivity).
        assert (Hml : In m (lmoves p)) by (apply in_lmoves; split; assumption).
        assert (Hne : lmoves p <> []) by (intros E; rewrite E in Hml; destruct Hml).
        destruct (cscore_sound rec (make p m) (enter_node mv s (S ply) true) alpha b0 pvs (Hrec m Hm L))
          as [P1 [R1 [K1 K2]]]; try lia.
        { eapply tts_fr; [exact Hs | apply fr_enter]. }
        destruct (cscore rec _ _ _ _ _) as [s1 sc]. cbn [fst snd] in P1, R1, K1, K2.
        assert (P1' : Post s s1).
        { destruct P1 as [X [Y Z]]. split; [exact X | split; [exact Y | exact Z]]. }
        pose proof (abt_fr mv lim clock ext_stop s1 ply) as FA.
        destruct (abt s1 ply) as [ab0 s2]. cbn [snd] in FA.
        pose proof (Post_fr _ _ _ P1' FA) as P2.
        destruct ab0; [cbn [fst snd]; split; [exact P2 | split; [apply Rng0 | apply Claim0]]|].
        assert (HWon : alpha < sc -> 32000 <= sc -> Won p).
        { intros X Y. apply Won_by with (m := m); [exact Hml | apply K1; assumption]. }
        destruct (sc >=? b0) eqn:E1; zb.
        * cbn [fst snd]. split; [|split].
          -- eapply Post_fr; [|apply skill_fr].
             eapply Post_trans; [exact P2|].
             apply Post_tins; cbn [e_score e_bound]; [exact (proj1 P2) | lia | | intros X; congruence].
             intros _ Y. apply HWon; lia.
          -- split; [lia | intros; lia].
          -- split; [intros X Y; apply HWon; lia | exact HB].
        * destruct (sc >? alpha) eqn:E2; zb.
          -- destruct (IH s2 sc m true (S cnt) Hin' (proj1 P2)) as [P3 [R3 C3]]; try lia.
             ++ intros X Y. apply HWon; lia.
             ++ intros X m' Hm'. destruct (HD ltac:(lia) m' Hm') as [[<-|Hi]|HW];
                  [right; apply K2; lia | left; exact Hi | right; exact HW].
             ++ intros _. split; [exact Hne | lia].
             ++ split; [eapply Post_trans; eassumption | split; assumption].
          -- destruct (IH s2 alpha best pvs (S cnt) Hin' (proj1 P2)) as [P3 [R3 C3]]; try lia.
             ++ exact HA.
             ++ intros X m' Hm'. destruct (HD X m' Hm') as [[<-|Hi]|HW];
                  [right; apply K2; lia | left; exact Hi | right; exact HW].
             ++ intros _. split; [exact Hne | lia].
             ++ split; [eapply Post_trans; eassumption | split; assumption].
      + apply IH; try assumption.
        * intros X m' Hm'. destruct (HD X m' Hm') as [[<-|Hi]|HW];
            [apply in_lmoves in Hm'; destruct Hm'; congruence | left; exact Hi | right; exact HW].
        * intros X m' Hm'. destruct (H0 X m' Hm') as [<-|Hi];
            [apply in_lmoves in Hm'; destruct Hm'; congruence | exact Hi].
  Qed.

  (* ---------------- alpha_beta ---------------- *)
  Lemma ab_sound : forall f s p a b d ply, Inv p -> tts s -> Proper a b -> (1 <= ply <= 255)%nat ->
    Post s (snd (ab f s p a b d ply))
    /\ Rng ply p (fst (ab f s p a b d ply)) /\ Claim p a b (fst (ab f s p a b d ply)).
  Proof.
    induction f as [|f IH]; intros s p a b d ply HI Hs HP Hply.
    - cbn [alpha_beta fst snd]. split; [apply Post_refl, Hs | split; [apply Rng0 | apply Claim0]].
    - rewrite gab_S. pose proof (abt_fr mv lim clock ext_stop s ply) as FA.
      destruct (abt s ply) as [ab0 s1] eqn:A. cbn [snd] in FA.
      pose proof (fr_Post _ _ Hs FA) as P1.
      assert (Z0 : Post s (snd (0, s1)) /\ Rng ply p (fst (0, s1)) /\ Claim p a b (fst (0, s1))).
      { cbn [fst snd]. split; [exact P1 | split; [apply Rng0 | apply Claim0]]. }
      destruct ab0; [exact Z0|].
      destruct (N.leb 100 (halfmove p)); [exact Z0|].
      destruct (repeated p); [exact Z0|].
      clear Z0. apply abt_ply in A. apply Nat.eqb_neq in A.
      cbv beta iota zeta.
      pose proof (probe_sound s1 p d a b (proj1 P1) HP) as PR.
      destruct HP as [Pa [Pab Pb]].
      destruct (probe pos mv key s1 p d a b) as [[[v|] a0] b0].
      + cbn [fst snd]. destruct PR as [R C]. split; [exact P1|]. split; [|exact C].
        split; [lia | intros; lia].
      + destruct PR as [G1 [G2 [G3 [HA HB]]]].
        destruct (if in_check p then S d else d) as [|dm1].
        * destruct (qs_sound f s1 p a0 b0 ply HI) as [F3 [R3 [Q1 Q2]]]; [unfold Proper; lia|].
          split; [eapply Post_fr; eassumption|]. split.
          -- split; [lia | intros; lia].
          -- split; intros X Y; [apply HA | apply HB]; lia.
        * destruct (ablp_sound (ab_rec f dm1 ply) p a b b0 (S dm1) ply) with
              (ms := order s1 p ply (moves p)) (s := s1) (alpha := a0)
              (best := match moves p with m :: _ => m | [] => default_mv end) (pvs := false) (cnt := 0%nat)
            as [P3 RC]; try assumption; try lia.
          -- intros m Hm L s' a' b' Hs' HP'. unfold abrec.
             pose proof (IH s' (make p m) a' b' dm1 (S ply) (Inv_make p m HI Hm L) Hs' HP' ltac:(lia)) as H.
             destruct (ab f s' (make p m) a' b' dm1 (S ply)) as [r s'']. cbn [fst snd] in H |- *.
             destruct H as [X [[Y1 Y2] Z]]. split; [exact X|]. split; [|exact Z].
             assert (r <> -32767) by (intros E; destruct (Y2 E); lia). lia.
          -- unfold Proper; lia.
          -- intros m. apply order_incl.
          -- exact (proj1 P1).
          -- intros _ m Hm. left. apply in_lmoves in Hm.
             eapply Permutation_in; [apply Permutation_sym, order_perm | apply Hm].
          -- intros _ m Hm. apply in_lmoves in Hm.
             eapply Permutation_in; [apply Permutation_sym, order_perm | apply Hm].
          -- split; [eapply Post_trans; eassumption | exact RC].
  Qed.

  (* ---------------- the root ---------------- *)
  Lemma bsound_eq root (s s' : State) : best_move mv s' = best_move mv s -> best_score mv s' = best_score mv s ->
    bsound root s -> bsound root s'.
  Proof. intros A B H sc. rewrite A, B. apply H. Qed.

  Lemma rootlp_sound rec root depth :
    (forall m, In m (moves root) -> legal root m = true -> cspec rec (make root m)) ->
    forall ms s alpha best pvs cnt,
      (forall m, In m ms -> In m (moves root)) -> tts s -> bsound root s ->
      ((cnt = 0%nat /\ alpha = -32768)
       \/ (cnt <> 0%nat /\ -32766 <= alpha <= 32766 /\ In best (lmoves root)
           /\ (32000 <= alpha -> Lost (make root best)))) ->
      (alpha <= -32000 -> forall m, In m (lmoves root) -> In m ms \/ Won (make root m)) ->
      tts (rootlp rec root depth ms s alpha best pvs cnt)
      /\ bsound root (rootlp rec root depth ms s alpha best pvs cnt).
  Proof.
    intros Hrec. induction ms as [|m t IH]; intros s alpha best pvs cnt Hin Hs Hb HI HD; cbn [rootloop].
    - destruct cnt as [|cnt]; [split; assumption|].
      destruct HI as [[X _]|[_ [Ra [Hbest HW]]]]; [discriminate|].
      pose proof (abt_fr mv lim clock ext_stop s 0) as FA.
      destruct (abt s 0) as [ab0 s1]. cbn [snd] in FA.
      pose proof (tts_fr _ _ Hs FA) as Hs1.
      assert (Hb1 : bsound root s1) by (destruct FA as [_ [X Y]]; eapply bsound_eq; eassumption).
      destruct ab0; [split; assumption|].
      assert (HL : alpha <= -32000 -> Lost root).
      { intros Hle. apply Lost_all; [intros E; rewrite E in Hbest; destruct Hbest|].
        intros m Hm. destruct (HD Hle m Hm) as [[]|X]. exact X. }
      split.
      + assert (T : tts (tins s1 (key root) (mkE mv alpha depth Exact best))).
        { apply tts_tins; cbn [e_score e_bound]; [exact Hs1 | lia | | intros _; exact HL].
          intros _ Y. apply Won_by with (m := best); [exact Hbest | apply HW, Y]. }
        intros q e F. exact (T q e F).
      + intros sc E. cbn [best_score best_move set_best] in E |- *. inversion E; subst sc.
        split; [|exact HL]. intros Y. exists best. split; [reflexivity | apply HW, Y].
    - assert (Hin' : forall m', In m' t -> In m' (moves root)) by (intros m' H'; apply Hin; right; exact H').
      destruct (legal root m) eqn:L; cbn [negb].
      + cbv zeta.
        assert (Hm : In m (moves root)) by (apply Hin; left; reflexivity).
        assert (Hml : In m (lmoves root)) by (apply in_lmoves; split; assumption).
        assert (Ra : -32768 <= alpha <= 32766) by (destruct HI as [[_ ->]|[_ [X _]]]; lia).
        destruct (cscore_sound rec (make root m) (enter_node mv s 1 false) alpha SCORE_MAX pvs (Hrec m Hm L))
          as [P1 [R1 [K1 K2]]]; try (unfold SCORE_MAX; lia).
        { eapply tts_fr; [exact Hs | apply fr_enter]. }
        destruct (cscore rec _ _ _ _ _) as [s1 sc]. cbn [fst snd] in P1, R1, K1, K2.
        unfold SCORE_MAX in K2.
        pose proof (abt_fr mv lim clock ext_stop s1 0) as FA.
        destruct (abt s1 0) as [ab0 s2]. cbn [snd] in FA.
        assert (Hs2 : tts s2) by (eapply tts_fr; [exact (proj1 P1) | exact FA]).
        assert (Hb2 : bsound root s2).
        { destruct P1 as [_ [X Y]]. destruct FA as [_ [X' Y']].
          eapply bsound_eq; [| |exact Hb]; cbn [best_move best_score enter_node] in *; congruence. }
        destruct ab0.
        * destruct (best_score mv s2) as [bs|] eqn:Ebs; [|split; assumption].
          destruct (alpha >? bs) eqn:E; zb; [|split; assumption].
          split; [exact Hs2|].
          intros sc' E'. cbn [best_score best_move set_best] in E' |- *. inversion E'; subst sc'.
          split.
          -- intros Y. destruct HI as [[_ ->]|[_ [_ [_ HW]]]]; [lia|].
             exists best. split; [reflexivity | apply HW, Y].
          -- intros Y. apply (proj2 (Hb2 bs Ebs)). lia.
        * destruct (sc >? alpha) eqn:E2; zb.
          -- apply IH; try assumption.
             ++ right. split; [discriminate|]. split; [lia|]. split; [exact Hml|].
                intros Y. apply K1; lia.
             ++ intros X m' Hm'. destruct (HD ltac:(lia) m' Hm') as [[<-|Hi]|HW];
                  [right; apply K2; lia | left; exact Hi | right; exact HW].
          -- apply IH; try assumption.
             ++ right. destruct HI as [[_ ->]|[_ X]]; [lia|]. split; [discriminate | exact X].
             ++ intros X m' Hm'. destruct (HD X m' Hm') as [[<-|Hi]|HW];
                  [right; apply K2; lia | left; exact Hi | right; exact HW].
      + apply IH; try assumption.
        intros X m' Hm'. destruct (HD X m' Hm') as [[<-|Hi]|HW];
          [apply in_lmoves in Hm'; destruct Hm'; congruence | left; exact Hi | right; exact HW].
  Qed.

  Lemma start_sound s root d : Inv root -> nomate1 root -> tts s -> bsound root s ->
    tts (start s root d) /\ bsound root (start s root d).
  Proof.
    intros HI Hnm Hs Hb. rewrite gstart_eq.
    destruct (moves root) as [|m0 t0] eqn:Em; [split; assumption|]. rewrite <- Em.
    apply rootlp_sound; try assumption.
    - intros m Hm L s' a' b' Hs' HP'. unfold abrec.
      pose proof (ab_sound FUEL s' (make root m) a' b' (pred d) 1 (Inv_make root m HI Hm L) Hs' HP' ltac:(lia)) as H.
      destruct (ab FUEL s' (make root m) a' b' (pred d) 1) as [r s'']. cbn [fst snd] in H |- *.
      destruct H as [X [[Y1 Y2] Z]]. split; [exact X|]. split; [|exact Z].
      assert (r <> -32767).
      { intros E. destruct (Y2 E) as [_ [N1 N2]].
        apply (Hnm m); [apply in_lmoves; split; assumption | split; assumption]. }
      lia.
    - intros m. apply order_incl.
    - left. split; reflexivity.
    - intros _ m Hm. left. apply in_lmoves in Hm.
      eapply Permutation_in; [apply Permutation_sym, order_perm | apply Hm].
  Qed.

  (* ---------------- iterative deepening ---------------- *)
  Lemma iter_sound root : Inv root -> nomate1 root ->
    forall n d s out, tts s -> bsound root s ->
      tts (fst (iter n d s root out)) /\ bsound root (fst (iter n d s root out)).
  Proof.
    intros HI Hnm. induction n as [|n IH]; intros d s out Hs Hb; cbn [iter_loop]; [split; assumption|].
    destruct (start_sound s root d HI Hnm Hs Hb) as [Hs1 Hb1].
    pose proof (abt_fr mv lim clock ext_stop (start s root d) 0) as FA.
    destruct (abt (start s root d) 0) as [ab0 s2]. cbn [snd] in FA.
    assert (Hs2 : tts s2) by (eapply tts_fr; eassumption).
    assert (Hb2 : bsound root s2) by (destruct FA as [_ [X Y]]; eapply bsound_eq; eassumption).
    destruct ab0; [split; assumption|].
    apply IH; assumption.
  Qed.

  Theorem mate_scores_sound_iteration :
    forall (s : State) (root : pos) (d : nat),
      Inv root -> nomate1 root -> tts s -> bsound root s ->
      let s' := start s root d in
      tts s' /\ bsound root s'.
  Proof. intros s root d HI Hnm Hs Hb. apply start_sound; assumption. Qed.

  Theorem mate_scores_sound_search :
    forall (s0 : State) (root : pos) (md : option nat),
      Inv root -> nomate1 root -> tts s0 -> best_move mv s0 = None -> best_score mv s0 = None ->
      let r := srch s0 root md in
      tts (fst r)
      /\ (forall sc, best_score mv (fst r) = Some sc ->
            (32000 <= sc -> Lost (make root (announced pos mv moves legal default_mv (fst r) root)))
            /\ (sc <= -32000 -> Lost root)).
  Proof.
    intros s0 root md HI Hnm Hs Hbm Hbs. unfold search.
    assert (Hb0 : bsound root s0) by (intros sc E; rewrite Hbs in E; discriminate).
    destruct (iter_sound root HI Hnm (match md with Some d => d | None => 255%nat end) 1%nat s0 [] Hs Hb0)
      as [Hs1 Hb1].
    destruct (iter _ 1%nat s0 root []) as [s out]. cbn [fst snd] in Hs1, Hb1 |- *.
    split.
    - intros q e F. exact (Hs1 q e F).
    - intros sc E. cbn [best_score set_running] in E.
      destruct (Hb1 sc E) as [W L]. split; [|exact L].
      intros Y. destruct (W Y) as [m [Hm HL]].
      unfold announced. cbn [best_move set_running]. rewrite Hm. exact HL.
  Qed.
End Sound.
