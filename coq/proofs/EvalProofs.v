(* EvalProofs.v — proofs about the evaluator model (model/Eval.v):
   - popcount is invariant under the 64-bit byte swap, hence evaluate is invariant under the
     colour mirror (every bitboard < 2^64, any material: wrap and saturation included);
   - under the material bound no i16 wrap/saturation happens, evaluate is the plain material
     difference and swapping the side to move negates it;
   - without the bound the saturation breaks antisymmetry (concrete board). *)
From Coq Require Import NArith ZArith List Lia Psatz Bool.
Import ListNotations.
From RCE Require Import lib.Bits generated.Consts model.Board model.Eval.

(* ------------------------------------------------------------------ *)
(* popcount: additive over a low/high split *)
Section Popcount.
Open Scope N_scope.

Lemma popcount_double m : popcount (2 * m) = popcount m.
Proof. destruct m; reflexivity. Qed.

Lemma popcount_succ_double m : popcount (2 * m + 1) = S (popcount m).
Proof. destruct m; reflexivity. Qed.

Lemma pop_lowhigh (k : nat) : forall a c,
  a < 2 ^ N.of_nat k -> popcount (a + 2 ^ N.of_nat k * c) = (popcount a + popcount c)%nat.
Proof.
  induction k as [|k IH]; intros a c Ha.
  - change (2 ^ N.of_nat 0) with 1 in *. assert (a = 0) by lia. subst a.
    rewrite N.mul_1_l. reflexivity.
  - rewrite Nat2N.inj_succ, N.pow_succ_r' in *.
    pose proof (N.div2_odd a) as Ea.
    set (a' := N.div2 a) in *.
    destruct (N.odd a); cbn [N.b2n] in Ea.
    + assert (Ha' : a' < 2 ^ N.of_nat k) by lia.
      replace (a + 2 * 2 ^ N.of_nat k * c) with (2 * (a' + 2 ^ N.of_nat k * c) + 1) by lia.
      rewrite popcount_succ_double, (IH a' c Ha'), Ea, popcount_succ_double. reflexivity.
    + assert (Ha' : a' < 2 ^ N.of_nat k) by lia.
      replace (a + 2 * 2 ^ N.of_nat k * c) with (2 * (a' + 2 ^ N.of_nat k * c)) by lia.
      rewrite popcount_double, (IH a' c Ha'), Ea, N.add_0_r, popcount_double. reflexivity.
Qed.

Lemma pop_split8 x :
  popcount x = (popcount (N.land x 255) + popcount (N.shiftr x 8))%nat.
Proof.
  change 255 with (N.ones 8). rewrite N.land_ones, N.shiftr_div_pow2.
  assert (H2 : 2 ^ 8 <> 0) by discriminate.
  pose proof (N.div_mod x (2 ^ 8) H2) as E.
  pose proof (N.mod_lt x (2 ^ 8) H2) as Hlt.
  rewrite E at 1. rewrite N.add_comm.
  exact (pop_lowhigh 8 (x mod 2 ^ 8) (x / 2 ^ 8) Hlt).
Qed.

Lemma pop_split8_at x s :
  popcount (N.shiftr x s) =
  (popcount (N.land (N.shiftr x s) 255) + popcount (N.shiftr x (s + 8)))%nat.
Proof. rewrite (pop_split8 (N.shiftr x s)), N.shiftr_shiftr. reflexivity. Qed.

(* popcount as the sum over the eight bytes plus whatever lies above bit 63 *)
Lemma pop_bytes x :
  popcount x =
  (popcount (byte x 0) + popcount (byte x 1) + popcount (byte x 2) + popcount (byte x 3)
   + popcount (byte x 4) + popcount (byte x 5) + popcount (byte x 6) + popcount (byte x 7)
   + popcount (N.shiftr x 64))%nat.
Proof.
  unfold byte.
  change (8 * 0) with 0; change (8 * 1) with 8; change (8 * 2) with 16; change (8 * 3) with 24;
  change (8 * 4) with 32; change (8 * 5) with 40; change (8 * 6) with 48; change (8 * 7) with 56.
  rewrite <- (N.shiftr_0_r x) at 1.
  rewrite (pop_split8_at x 0). change (0 + 8) with 8.
  rewrite (pop_split8_at x 8). change (8 + 8) with 16.
  rewrite (pop_split8_at x 16). change (16 + 8) with 24.
  rewrite (pop_split8_at x 24). change (24 + 8) with 32.
  rewrite (pop_split8_at x 32). change (32 + 8) with 40.
  rewrite (pop_split8_at x 40). change (40 + 8) with 48.
  rewrite (pop_split8_at x 48). change (48 + 8) with 56.
  rewrite (pop_split8_at x 56). change (56 + 8) with 64.
  lia.
Qed.

(* bit-level description of shifts and bytes *)
Lemma tb_shl a k n : N.testbit (N.shiftl a k) n = (k <=? n) && N.testbit a (n - k).
Proof.
  destruct (N.leb_spec k n) as [H|H]; cbn [andb].
  - apply N.shiftl_spec_high'. exact H.
  - apply N.shiftl_spec_low. exact H.
Qed.

Lemma tb_byte_at x s n : N.testbit (N.land (N.shiftr x s) 255) n = (n <? 8) && N.testbit x (n + s).
Proof.
  rewrite N.land_spec, N.shiftr_spec'. change 255 with (N.ones 8).
  destruct (N.ltb_spec n 8) as [H|H]; cbn [andb].
  - rewrite N.ones_spec_low by exact H. apply andb_true_r.
  - rewrite N.ones_spec_high by exact H. apply andb_false_r.
Qed.

Lemma bswap64_unfold x :
  bswap64 x =
  N.lor (N.lor (N.lor (N.lor (N.lor (N.lor (N.lor (N.lor 0
    (N.shiftl (N.land (N.shiftr x 0) 255) 56)) (N.shiftl (N.land (N.shiftr x 8) 255) 48))
    (N.shiftl (N.land (N.shiftr x 16) 255) 40)) (N.shiftl (N.land (N.shiftr x 24) 255) 32))
    (N.shiftl (N.land (N.shiftr x 32) 255) 24)) (N.shiftl (N.land (N.shiftr x 40) 255) 16))
    (N.shiftl (N.land (N.shiftr x 48) 255) 8)) (N.shiftl (N.land (N.shiftr x 56) 255) 0).
Proof. reflexivity. Qed.

Lemma tb_bswap64 x n :
  N.testbit (bswap64 x) n =
  ((56 <=? n) && ((n - 56 <? 8) && N.testbit x (n - 56 + 0)))
  || ((48 <=? n) && ((n - 48 <? 8) && N.testbit x (n - 48 + 8)))
  || ((40 <=? n) && ((n - 40 <? 8) && N.testbit x (n - 40 + 16)))
  || ((32 <=? n) && ((n - 32 <? 8) && N.testbit x (n - 32 + 24)))
  || ((24 <=? n) && ((n - 24 <? 8) && N.testbit x (n - 24 + 32)))
  || ((16 <=? n) && ((n - 16 <? 8) && N.testbit x (n - 16 + 40)))
  || ((8 <=? n) && ((n - 8 <? 8) && N.testbit x (n - 8 + 48)))
  || ((0 <=? n) && ((n - 0 <? 8) && N.testbit x (n - 0 + 56))).
Proof.
  rewrite bswap64_unfold. rewrite !N.lor_spec, !tb_shl, !tb_byte_at, N.bits_0. reflexivity.
Qed.

Ltac decide_cmp :=
  repeat match goal with
  | |- context [N.leb ?a ?b] => destruct (N.leb_spec a b); try lia; cbn [andb orb]
  | |- context [N.ltb ?a ?b] => destruct (N.ltb_spec a b); try lia; cbn [andb orb]
  end.

(* byte j of the swapped word is byte 7-j of the original, as a bit-level statement *)
Lemma byte_bswap64 x j : j < 8 -> byte (bswap64 x) j = byte x (7 - j).
Proof.
  intros Hj. unfold byte. apply N.bits_inj. intros n.
  rewrite !tb_byte_at, tb_bswap64.
  destruct (N.ltb_spec n 8) as [Hn|Hn]; cbn [andb]; [|reflexivity].
  assert (Hc : j = 0 \/ j = 1 \/ j = 2 \/ j = 3 \/ j = 4 \/ j = 5 \/ j = 6 \/ j = 7) by lia.
  destruct Hc as [->|[->|[->|[->|[->|[->|[->| ->]]]]]]];
    decide_cmp; rewrite ?orb_false_r; f_equal; lia.
Qed.

Lemma bswap64_high x : N.shiftr (bswap64 x) 64 = 0.
Proof.
  apply N.bits_inj_0. intros n. rewrite N.shiftr_spec', tb_bswap64.
  decide_cmp; try reflexivity.
Qed.

Lemma pop_bswap64 x : x < 2 ^ 64 -> popcount (bswap64 x) = popcount x.
Proof.
  intros Hx.
  rewrite (pop_bytes (bswap64 x)), (pop_bytes x), bswap64_high.
  rewrite N.shiftr_div_pow2, (N.div_small x (2 ^ 64) Hx).
  rewrite !byte_bswap64 by lia.
  change (7 - 0) with 7; change (7 - 1) with 6; change (7 - 2) with 5; change (7 - 3) with 4;
  change (7 - 4) with 3; change (7 - 5) with 2; change (7 - 6) with 1; change (7 - 7) with 0.
  lia.
Qed.

End Popcount.

Open Scope Z_scope.

(* ------------------------------------------------------------------ *)
(* mirror *)
Lemma boards_lt64_get p k : boards_lt64 p = true -> (bb_get p k < 2 ^ 64)%N.
Proof.
  unfold boards_lt64. cbn [forallb]. rewrite !andb_true_iff, !N.ltb_lt.
  change (2 ^ 64)%N with 18446744073709551616%N.
  intros H. destruct k as [[] []]; cbn [bb_get]; tauto.
Qed.

Lemma pop_mirror_get p t c :
  boards_lt64 p = true ->
  popcount (bb_get (mirror_bbs p) (t, opposite c)) = popcount (bb_get p (t, c)).
Proof.
  intros H. pose proof (boards_lt64_get p (t, c) H) as Hlt.
  destruct t, c; cbn [bb_get mirror_bbs opposite white_pawns white_king white_queens white_rooks
    white_knights white_bishops black_pawns black_king black_queens black_rooks black_knights
    black_bishops] in *; apply pop_bswap64; exact Hlt.
Qed.

Lemma opposite_involutive c : opposite (opposite c) = c.
Proof. destruct c; reflexivity. Qed.

Lemma term_mirror p c tv :
  boards_lt64 p = true -> term (mirror_bbs p) (opposite c) tv = term p c tv.
Proof. intros H. unfold term. rewrite pop_mirror_get by exact H. reflexivity. Qed.

Lemma term_mirror' p c tv :
  boards_lt64 p = true -> term (mirror_bbs p) (opposite (opposite c)) tv = term p (opposite c) tv.
Proof. intros H. apply term_mirror. exact H. Qed.

Lemma eval_mirror : forall b, boards_lt64 (bbs b) = true -> evaluate (mirror_board b) = evaluate b.
Proof.
  intros b H. unfold evaluate, mirror_board. cbn [current_turn bbs].
  unfold piece_values. cbn [fold_left].
  rewrite !(term_mirror (bbs b) (current_turn b)) by exact H.
  rewrite !term_mirror' by exact H.
  reflexivity.
Qed.

(* ------------------------------------------------------------------ *)
(* no wrap, no saturation under the material bound *)
Lemma i16_wrap_id z : -32768 <= z < 32768 -> i16_wrap z = z.
Proof. intros H. unfold i16_wrap. rewrite Z.mod_small by lia. lia. Qed.

Lemma i16_sat_id z : -32768 <= z <= 32767 -> i16_sat z = z.
Proof. intros H. unfold i16_sat. lia. Qed.

Lemma term_id n v : 0 <= n <= 16 -> 0 < v <= 2000 -> i16_wrap (i16_wrap n * v) = n * v.
Proof.
  intros Hn Hv. rewrite (i16_wrap_id n) by lia. apply i16_wrap_id. nia.
Qed.

Ltac sat_inner :=
  repeat match goal with
  | |- context [i16_sat ?z] =>
      lazymatch z with
      | context [i16_sat _] => fail
      | _ => rewrite (i16_sat_id z) by lia
      end
  end.

Lemma core_arith n1 n2 n3 n4 n5 m1 m2 m3 m4 m5 v1 v2 v3 v4 v5 :
  0 <= n1 -> 0 <= n2 -> 0 <= n3 -> 0 <= n4 -> 0 <= n5 -> n1 + n2 + n3 + n4 + n5 <= 16 ->
  0 <= m1 -> 0 <= m2 -> 0 <= m3 -> 0 <= m4 -> 0 <= m5 -> m1 + m2 + m3 + m4 + m5 <= 16 ->
  0 < v1 <= 2000 -> 0 < v2 <= 2000 -> 0 < v3 <= 2000 -> 0 < v4 <= 2000 -> 0 < v5 <= 2000 ->
  i16_sat (i16_sat (i16_sat (i16_sat (i16_sat
    (i16_sat (i16_sat (i16_sat (i16_sat (i16_sat
      (0 + i16_wrap (i16_wrap n1 * v1)) + i16_wrap (i16_wrap n2 * v2)) + i16_wrap (i16_wrap n3 * v3))
      + i16_wrap (i16_wrap n4 * v4)) + i16_wrap (i16_wrap n5 * v5))
    - i16_wrap (i16_wrap m1 * v1)) - i16_wrap (i16_wrap m2 * v2)) - i16_wrap (i16_wrap m3 * v3))
    - i16_wrap (i16_wrap m4 * v4)) - i16_wrap (i16_wrap m5 * v5))
  = 0 + n1 * v1 - m1 * v1 + n2 * v2 - m2 * v2 + n3 * v3 - m3 * v3 + n4 * v4 - m4 * v4
      + n5 * v5 - m5 * v5.
Proof.
  intros.
  rewrite !term_id by lia.
  assert (0 <= n1 * v1 <= n1 * 2000) by nia. assert (0 <= n2 * v2 <= n2 * 2000) by nia.
  assert (0 <= n3 * v3 <= n3 * 2000) by nia. assert (0 <= n4 * v4 <= n4 * 2000) by nia.
  assert (0 <= n5 * v5 <= n5 * 2000) by nia.
  assert (0 <= m1 * v1 <= m1 * 2000) by nia. assert (0 <= m2 * v2 <= m2 * 2000) by nia.
  assert (0 <= m3 * v3 <= m3 * 2000) by nia. assert (0 <= m4 * v4 <= m4 * 2000) by nia.
  assert (0 <= m5 * v5 <= m5 * 2000) by nia.
  generalize dependent (n1 * v1). generalize dependent (n2 * v2). generalize dependent (n3 * v3).
  generalize dependent (n4 * v4). generalize dependent (n5 * v5).
  generalize dependent (m1 * v1). generalize dependent (m2 * v2). generalize dependent (m3 * v3).
  generalize dependent (m4 * v4). generalize dependent (m5 * v5).
  intros. sat_inner. lia.
Qed.

Lemma bound_arith n1 n2 n3 n4 n5 m1 m2 m3 m4 m5 v1 v2 v3 v4 v5 :
  0 <= n1 -> 0 <= n2 -> 0 <= n3 -> 0 <= n4 -> 0 <= n5 -> n1 + n2 + n3 + n4 + n5 <= 16 ->
  0 <= m1 -> 0 <= m2 -> 0 <= m3 -> 0 <= m4 -> 0 <= m5 -> m1 + m2 + m3 + m4 + m5 <= 16 ->
  0 < v1 < 2000 -> 0 < v2 < 2000 -> 0 < v3 < 2000 -> 0 < v4 < 2000 -> 0 < v5 < 2000 ->
  -32000 < 0 + n1 * v1 - m1 * v1 + n2 * v2 - m2 * v2 + n3 * v3 - m3 * v3 + n4 * v4 - m4 * v4
             + n5 * v5 - m5 * v5 < 32000.
Proof.
  intros.
  assert (0 <= n1 * v1 <= n1 * 1999) by nia. assert (0 <= n2 * v2 <= n2 * 1999) by nia.
  assert (0 <= n3 * v3 <= n3 * 1999) by nia. assert (0 <= n4 * v4 <= n4 * 1999) by nia.
  assert (0 <= n5 * v5 <= n5 * 1999) by nia.
  assert (0 <= m1 * v1 <= m1 * 1999) by nia. assert (0 <= m2 * v2 <= m2 * 1999) by nia.
  assert (0 <= m3 * v3 <= m3 * 1999) by nia. assert (0 <= m4 * v4 <= m4 * 1999) by nia.
  assert (0 <= m5 * v5 <= m5 * 1999) by nia.
  lia.
Qed.

(* the values, kept abstract: only what values_ok says *)
Lemma values_ok_bounds :
  values_ok = true ->
  0 < Z.of_N val_queen <= 2000 /\ 0 < Z.of_N val_rook <= 2000 /\ 0 < Z.of_N val_bishop <= 2000 /\
  0 < Z.of_N val_knight <= 2000 /\ 0 < Z.of_N val_pawn <= 2000.
Proof.
  unfold values_ok, piece_values. cbn [forallb snd].
  rewrite !andb_true_iff, !Z.ltb_lt, !Z.leb_le. tauto.
Qed.

Lemma material_bounded_both b c :
  material_bounded b = true ->
  (material_count (bbs b) c <= 16)%nat /\ (material_count (bbs b) (opposite c) <= 16)%nat.
Proof.
  unfold material_bounded. rewrite andb_true_iff, !Nat.leb_le. destruct c; cbn [opposite]; tauto.
Qed.

(* evaluate, for any side to move c (not necessarily the board's) *)
Definition eval_as (p : PBB) (c : Color) : Z :=
  fold_left (fun s tv => i16_sat (s - term p (opposite c) tv)) piece_values
            (fold_left (fun s tv => i16_sat (s + term p c tv)) piece_values 0).
Definition diff_as (p : PBB) (c : Color) : Z :=
  fold_left (fun s tv => s + Z.of_nat (popcount (bb_get p (fst tv, c))) * snd tv
                           - Z.of_nat (popcount (bb_get p (fst tv, opposite c))) * snd tv)
            piece_values 0.

Lemma evaluate_as b : evaluate b = eval_as (bbs b) (current_turn b).
Proof. unfold evaluate, eval_as. reflexivity. Qed.

Lemma evaluate_swap_as b : evaluate (swap_turn b) = eval_as (bbs b) (opposite (current_turn b)).
Proof. unfold evaluate, eval_as, swap_turn. cbn [current_turn bbs]. reflexivity. Qed.

Lemma eval_as_diff b c :
  values_ok = true -> material_bounded b = true -> eval_as (bbs b) c = diff_as (bbs b) c.
Proof.
  intros Hv Hm.
  destruct (values_ok_bounds Hv) as (Hq & Hr & Hb & Hn & Hp).
  destruct (material_bounded_both b c Hm) as [Hc Ho].
  unfold material_count in Hc, Ho.
  unfold eval_as, diff_as, piece_values, term. cbn [fold_left fst snd].
  apply core_arith; try assumption; lia.
Qed.

Lemma diff_as_opp p c : diff_as p (opposite c) = - diff_as p c.
Proof.
  unfold diff_as, piece_values. cbn [fold_left fst snd]. rewrite opposite_involutive. lia.
Qed.

Lemma eval_antisym : forall b,
  values_ok = true -> material_bounded b = true -> evaluate (swap_turn b) = - evaluate b.
Proof.
  intros b Hv Hm.
  rewrite evaluate_swap_as, evaluate_as.
  rewrite !eval_as_diff by assumption. apply diff_as_opp.
Qed.

(* the strict bound below is NOT a consequence of values_ok alone (16 pieces worth 2000 give
   exactly 32000); it uses that the generated values are in fact below 2000 *)
Lemma values_lt_2000 :
  Z.of_N val_queen < 2000 /\ Z.of_N val_rook < 2000 /\ Z.of_N val_bishop < 2000 /\
  Z.of_N val_knight < 2000 /\ Z.of_N val_pawn < 2000.
Proof. vm_compute. repeat split. Qed.

Lemma eval_value : forall b, values_ok = true -> material_bounded b = true ->
  evaluate b = fold_left (fun s tv => s + Z.of_nat (popcount (bb_get (bbs b) (fst tv, current_turn b))) * snd tv
                                       - Z.of_nat (popcount (bb_get (bbs b) (fst tv, opposite (current_turn b)))) * snd tv)
                         piece_values 0
  /\ -32000 < evaluate b < 32000.
Proof.
  intros b Hv Hm.
  rewrite evaluate_as.
  rewrite (eval_as_diff b (current_turn b) Hv Hm).
  split; [reflexivity|].
  destruct (values_ok_bounds Hv) as (Hq & Hr & Hb & Hn & Hp).
  destruct values_lt_2000 as (Hq' & Hr' & Hb' & Hn' & Hp').
  destruct (material_bounded_both b (current_turn b) Hm) as [Hc Ho].
  unfold material_count in Hc, Ho.
  unfold diff_as, piece_values. cbn [fold_left fst snd].
  apply bound_arith; try assumption; lia.
Qed.

(* ------------------------------------------------------------------ *)
(* the bound is needed: 36 queens and a rook saturate one way but not the other *)
Definition guard_bbs : PBB :=
  mkPBB 0 0 68719476735 1 0 0  0 0 0 0 0 0  0 0 0.
Definition guard_board : Board := mkBoard White 1 None [] [] guard_bbs 0.

Lemma eval_guard_needed : exists b, boards_lt64 (bbs b) = true /\ evaluate (swap_turn b) <> - evaluate b.
Proof.
  exists guard_board. split.
  - vm_compute. reflexivity.
  - vm_compute. discriminate.
Qed.
