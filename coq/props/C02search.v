(* C02 for the search — the search AS THE CODE RUNS IT (model/SearchMut.v: one mutable board,
   make_move before and unmake_move after every child, Board::is_legal_move probing by make /
   test / unmake on the same board) computes exactly what the search over persistent positions
   (model/Search.v, the model of C09/C11/C12/C13/C14/C16) computes, and never fails on an empty
   undo stack — given that unmaking a generated move restores the board (C02).

   Abstract game first (hypotheses: an invariant of the positions of the tree preserved by legal
   generated moves; C02 `restore` for generated moves under the invariant; is_legal_move is "make,
   test, unmake").  quiescence and alpha_beta hand the board back exactly, for ANY limits, clock
   and stop oracle.  alpha_beta_start does NOT when it is interrupted: search.rs returns from the
   root loop (lines 331-338) without the unmake_move of line 345, so self.board is left one legal
   move deep; the state (best move, score, cache, counters) is still that of the persistent model.
   iter_deep then breaks at line 221 provided the interruption is for good — true for a
   monotone clock and a monotone stop flag — so the displaced board is never searched, and it is
   dropped with the Search value.  Hence the statements about the root / the whole search carry
   the two monotonicity premises (the same as C13prefix) and say: same result, and the board left
   is the original one or the original one after one legal generated move.
   get_pv and the bestmove fallback run on a second board (self.original_board) which the search
   proper never touches; both models read it as a value.

   Then the chess instance (Board, get_all_moves, is_legal_move, make_move, unmake_move of
   model/*.v; invariant chess_inv; restore = C02_generated_moves_restore). *)
From Coq Require Import NArith ZArith List Lia Bool.
Import ListNotations.
From RCE Require Import lib.Bits model.Board model.Movegen model.Eval model.Search model.SearchMut
  model.ChessSearch model.ChessSearchMut proofs.SearchPrefixProofs proofs.SearchMutProofs
  proofs.ChessSearchProofs proofs.ChessSearchMutProofs props.C02closed.
Open Scope Z_scope.

Section C02search.
  Variables pos mv : Type.
  Variable moves : pos -> list mv.
  Variable legal : pos -> mv -> bool.
  Variable make : pos -> mv -> pos.
  Variable unmake : pos -> option pos.
  (* on the board after make(m): is the side that played m in check *)
  Variable left_in_check : pos -> mv -> bool.
  Variable in_check : pos -> bool.
  Variable evalf : pos -> Z.
  Variable is_cap is_promo : mv -> bool.
  Variable cap_score : mv -> N.
  Variable mv_eqb : mv -> mv -> bool.
  Variable key : pos -> N.
  Variable halfmove : pos -> N.
  Variable repeated : pos -> bool.
  Variable default_mv : mv.
  Variable lim : Limits.
  Variable clock : nat -> N.
  Variable ext_stop : nat -> bool.
  Variable tt_on : bool.

  Variable Inv : pos -> Prop.
  Hypothesis Inv_make : forall p m, Inv p -> In m (moves p) -> legal p m = true -> Inv (make p m).
  Hypothesis restore : forall p m, Inv p -> In m (moves p) -> unmake (make p m) = Some p.
  Hypothesis legal_def : forall p m, legal p m = negb (left_in_check (make p m) m).

  Let qs := quiescence pos mv moves legal make evalf is_cap is_promo cap_score mv_eqb key lim clock ext_stop.
  Let qsM := quiescence_mut pos mv moves make unmake left_in_check evalf is_cap is_promo cap_score mv_eqb key
                            lim clock ext_stop.
  Let ab := alpha_beta pos mv moves legal make in_check evalf is_cap is_promo cap_score mv_eqb key
                       halfmove repeated default_mv lim clock ext_stop tt_on.
  Let abM := alpha_beta_mut pos mv moves make unmake left_in_check in_check evalf is_cap is_promo cap_score
                            mv_eqb key halfmove repeated default_mv lim clock ext_stop tt_on.
  Let start := alpha_beta_start pos mv moves legal make in_check evalf is_cap is_promo cap_score mv_eqb key
                                halfmove repeated default_mv lim clock ext_stop tt_on.
  Let startM := alpha_beta_start_mut pos mv moves make unmake left_in_check in_check evalf is_cap is_promo
                                     cap_score mv_eqb key halfmove repeated default_mv lim clock ext_stop tt_on.
  Let iter := iter_loop pos mv moves legal make in_check evalf is_cap is_promo cap_score mv_eqb key
                        halfmove repeated default_mv lim clock ext_stop tt_on.
  Let run := search pos mv moves legal make in_check evalf is_cap is_promo cap_score mv_eqb key
                    halfmove repeated default_mv lim clock ext_stop tt_on.
  Let runM := search_mut pos mv moves legal make unmake left_in_check in_check evalf is_cap is_promo cap_score
                         mv_eqb key halfmove repeated default_mv lim clock ext_stop tt_on.

  (* the legality probe on the live board: the answer of is_legal_move, the board as it was *)
  Theorem C02_legal_probe_in_place : forall b m,
    Inv b -> In m (moves b) -> legal_mut pos mv make unmake left_in_check b m = Some (legal b m, b).
  Proof. exact (legal_mut_ok pos mv moves legal make unmake left_in_check Inv restore legal_def). Qed.

  (* quiescence and alpha_beta: every fuel, state, window, depth, ply; any limits and oracles *)
  Theorem C02_quiescence_in_place : forall fuel (s : St mv) b a bt ply,
    Inv b -> qsM fuel s b a bt ply = Some (qs fuel s b a bt ply, b).
  Proof. exact (quiescence_in_place pos mv moves legal make unmake left_in_check evalf is_cap is_promo
                  cap_score mv_eqb key lim clock ext_stop Inv Inv_make restore legal_def). Qed.

  Theorem C02_alpha_beta_in_place : forall fuel (s : St mv) b a bt d ply,
    Inv b -> abM fuel s b a bt d ply = Some (ab fuel s b a bt d ply, b).
  Proof. exact (alpha_beta_in_place pos mv moves legal make unmake left_in_check in_check evalf is_cap
                  is_promo cap_score mv_eqb key halfmove repeated default_mv lim clock ext_stop tt_on
                  Inv Inv_make restore legal_def). Qed.

  Hypothesis clock_mono : forall i j, (i <= j)%nat -> (clock i <= clock j)%N.
  Hypothesis stop_mono : forall i j, (i <= j)%nat -> ext_stop i = true -> ext_stop j = true.

  (* one root iteration: the state of the persistent model; the board as it was, or (interrupted)
     one legal generated move deep *)
  Theorem C02_root_in_place : forall (s : St mv) b d,
    Inv b ->
    exists b', startM s b d = Some (start s b d, b')
               /\ (b' = b \/ exists m, In m (moves b) /\ legal b m = true /\ b' = make b m).
  Proof. exact (start_in_place_simple pos mv moves legal make unmake left_in_check in_check evalf is_cap
                  is_promo cap_score mv_eqb key halfmove repeated default_mv lim clock ext_stop tt_on
                  Inv Inv_make restore legal_def clock_mono stop_mono). Qed.

  (* the whole search: never an empty undo stack, the state and output of the persistent model *)
  Theorem C02_search_in_place : forall (s0 : St mv) p D,
    Inv p ->
    exists b', runM s0 p D = Some (run s0 p D, b')
               /\ (b' = p \/ exists m, In m (moves p) /\ legal p m = true /\ b' = make p m).
  Proof. exact (search_in_place pos mv moves legal make unmake left_in_check in_check evalf is_cap
                  is_promo cap_score mv_eqb key halfmove repeated default_mv lim clock ext_stop tt_on
                  Inv Inv_make restore legal_def clock_mono stop_mono). Qed.

  (* ... and the board exactly as it was unless the iterations ended interrupted for good (Ab of
     proofs/SearchPrefixProofs.v: flag cleared by this thread, or a stop visible at the next load,
     or a budget found exhausted at the next reading) *)
  Theorem C02_search_in_place_uninterrupted : forall (s0 : St mv) p D,
    Inv p ->
    ~ Ab mv lim clock ext_stop (fst (iter (match D with Some d => d | None => 255%nat end) 1%nat s0 p [])) ->
    runM s0 p D = Some (run s0 p D, p).
  Proof. exact (search_in_place_uninterrupted pos mv moves legal make unmake left_in_check in_check evalf
                  is_cap is_promo cap_score mv_eqb key halfmove repeated default_mv lim clock ext_stop tt_on
                  Inv Inv_make restore legal_def clock_mono stop_mono). Qed.
End C02search.

(* ---------------- the chess instance ---------------- *)

(* the premises of the abstract theorems at the chess model *)
Theorem C02_chess_inv_make : forall b m,
  chess_inv b -> In m (get_all_moves b) -> is_legal_move b m = true -> chess_inv (make_move b m).
Proof. exact chess_inv_make. Qed.
Theorem C02_chess_restore : forall b m,
  chess_inv b -> In m (get_all_moves b) -> unmake_move (make_move b m) = Some b.
Proof. exact (chess_restore C02_generated_moves_restore). Qed.
Theorem C02_chess_legal_def : forall b m,
  is_legal_move b m = negb (is_in_check (make_move b m) (snd (p_piece m))).
Proof. exact chess_legal_def. Qed.

Theorem C02_chess_alpha_beta_in_place :
  forall lim clock ext_stop tt_on fuel (s : CSt) (b : Board) a bt d ply,
  chess_inv b ->
  c_alpha_beta_mut lim clock ext_stop tt_on fuel s b a bt d ply
  = Some (c_alpha_beta lim clock ext_stop tt_on fuel s b a bt d ply, b).
Proof. exact (chess_alpha_beta_in_place C02_generated_moves_restore). Qed.

Theorem C02_chess_quiescence_in_place :
  forall lim clock ext_stop fuel (s : CSt) (b : Board) a bt ply,
  chess_inv b ->
  c_quiescence_mut lim clock ext_stop fuel s b a bt ply
  = Some (c_quiescence lim clock ext_stop fuel s b a bt ply, b).
Proof. exact (chess_quiescence_in_place C02_generated_moves_restore). Qed.

(* any limits, any monotone clock, any monotone stop oracle, cache on or off, any initial state
   (killers, cache content, counters), any depth limit: the in-place chess search never pops an
   empty undo stack and returns the state and the output lines of c_search; the board it leaves
   is the given one, or the given one after one legal move (interrupted root iteration) *)
Theorem C02_chess_search_in_place :
  forall lim (clock : nat -> N) (ext_stop : nat -> bool) tt_on (s0 : CSt) (b : Board) (D : option nat),
  (forall i j, (i <= j)%nat -> (clock i <= clock j)%N) ->
  (forall i j, (i <= j)%nat -> ext_stop i = true -> ext_stop j = true) ->
  chess_inv b ->
  exists b', c_search_mut lim clock ext_stop tt_on s0 b D = Some (c_search lim clock ext_stop tt_on s0 b D, b')
             /\ (b' = b \/ exists m, In m (get_legal_moves b) /\ b' = make_move b m).
Proof. exact (fun lim clock ext_stop tt_on s0 b D Hc Hs =>
                chess_search_in_place C02_generated_moves_restore lim clock ext_stop tt_on Hc Hs s0 b D). Qed.

(* the second alternative is real: start position, node budget 30, depth limit 3 *)
Theorem C02_chess_interrupted_root_displaced : forall r b',
  c_search_mut (mkLimits (Some 30%N) None false 0) (fun _ => 0%N) (fun _ => false) true (init_st Ply)
               start_board (Some 3%nat) = Some (r, b') ->
  b' <> start_board.
Proof. exact chess_interrupted_root_displaced. Qed.

Check C02_search_in_place.
Check C02_chess_search_in_place.
Print Assumptions C02_legal_probe_in_place.
Print Assumptions C02_quiescence_in_place.
Print Assumptions C02_alpha_beta_in_place.
Print Assumptions C02_root_in_place.
Print Assumptions C02_search_in_place.
Print Assumptions C02_search_in_place_uninterrupted.
Print Assumptions C02_chess_restore.
Print Assumptions C02_chess_alpha_beta_in_place.
Print Assumptions C02_chess_quiescence_in_place.
Print Assumptions C02_chess_search_in_place.
Print Assumptions C02_chess_interrupted_root_displaced.
