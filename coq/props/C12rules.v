(* C12 over the RULES OF CHESS — mate scores never lie, stated over spec/Rules.v and not over the model's own move generator.
   spec/Mate.v (Won / Lost / the bounded oracles) is instantiated twice:
     over the bitboard MODEL   (CWon / CLost: get_all_moves, is_legal_move, make_move, the model's check test — as in C12soundchess),
     over the RULES            (RWon / RLost: positions spec/Rules.v `Pos`, the moves offered are `legal_moves`, played by `apply`,
                                check is `in_check (cells p) (side p)`),
   and for every well-formed board (`wf_rules`, preserved by every legal move: C03_wf_step) the two coincide through the abstraction
   `abs` / `move_of` of model/Abs.v (C12_model_mates_are_rules_mates).  Then C12_chess_mate_scores_sound (props/C12soundchess.v) is restated
   with its conclusion over the rules (C12_mate_scores_sound_rules).
   THE MOVE COUNTERS.  C01_legal / C03_step carry the guard "both counters below 65535" (the model's u16 counters wrap; they state the
   equality of WHOLE positions).  A forced mate has no bounded length a priori, so a guard on the counters cannot be kept along it.
   It is not needed: mates do not look at the counters.  proofs/MateRulesProofs.v re-proves the one-step refinement and the legal-move
   correspondence without the guard on the part of the position that the rules' move generation reads (cells, side to move, castling
   rights, en-passant file: C12_legal_moves_any_counters, C12_step_any_counters) and shows that Won / Lost over the rules depend on
   that part only.  Hence no hypothesis on the counters anywhere below.
   Also: the bounded oracle of spec/Mate.v is complete in the limit (finite branching): C12_oracle_complete, C12_oracle_keeps_complete. *)
From Coq Require Import NArith ZArith List Lia Bool FMapPositive.
Import ListNotations.
From RCE Require Import lib.Bits model.Board model.Movegen model.WfFull model.Abs model.Eval model.Search model.ChessSearch
  spec.Rules spec.Mate proofs.SearchMateSoundProofs proofs.ChessSearchProofs proofs.MateRulesProofs.
From RCE Require props.C12soundchess.
Open Scope Z_scope.

(* the two games *)
Goal forall (p : Pos) (m : Move), r_legal p m = true.
Proof. reflexivity. Qed.
Goal forall p : Pos, r_in_check p = in_check (cells p) (side p).
Proof. reflexivity. Qed.
Local Notation RWon := (Won Pos Move legal_moves r_legal apply r_in_check).
Local Notation RLost := (Lost Pos Move legal_moves r_legal apply r_in_check).
Local Notation CWon := (Won Board Ply get_all_moves is_legal_move make_move c_in_check).
Local Notation CLost := (Lost Board Ply get_all_moves is_legal_move make_move c_in_check).

(* the legal moves and one step, for ANY value of the counters (cf. C01_legal, C03_step) *)
Theorem C12_legal_moves_any_counters : forall b, wf_rules b = true ->
  forall mv, In mv (map move_of (get_legal_moves b)) <-> In mv (legal_moves (abs b)).
Proof. exact legal_spec_core. Qed.
Theorem C12_step_any_counters : forall b m, wf_rules b = true -> In m (get_legal_moves b) ->
  let p := abs (make_move b m) in let q := apply (abs b) (move_of m) in
  cells p = cells q /\ side p = side q /\ rights p = rights q /\ ep p = ep q.
Proof.
  intros b m WR Hm p q. pose proof (step_core b m WR Hm) as E. unfold ceq, pcore in E. fold p q in E.
  inversion E. repeat split; assumption.
Qed.

(* the model's mates are the mates of the rules, both ways *)
Theorem C12_model_mates_are_rules_mates : forall b, wf_rules b = true ->
  (CWon b <-> RWon (abs b)) /\ (CLost b <-> RLost (abs b)).
Proof. intros b WR. split; [apply model_Won_iff_rules_Won | apply model_Lost_iff_rules_Lost]; exact WR. Qed.
Theorem C12_model_Lost_is_rules_Lost : forall b, wf_rules b = true -> CLost b -> RLost (abs b).
Proof. exact model_Lost_is_rules_Lost. Qed.
Theorem C12_model_Won_is_rules_Won : forall b, wf_rules b = true -> CWon b -> RWon (abs b).
Proof. exact model_Won_is_rules_Won. Qed.
Theorem C12_model_Lost_after_move : forall b m, wf_rules b = true -> In m (get_legal_moves b) ->
  (CLost (make_move b m) <-> RLost (apply (abs b) (move_of m))).
Proof. exact model_Lost_after_is_rules_Lost. Qed.

Section C12rules.
  Local Notation c_tt_sound := (tt_sound Board Ply get_all_moves is_legal_move make_move c_in_check zkey).
  Local Notation c_no_mate1 := (no_mate1 Board Ply get_all_moves is_legal_move make_move c_in_check).

  (* as in props/C12soundchess.v: a key collision never confuses a won (lost) position with one that is not *)
  Hypothesis key_sem : forall p q : Board, zkey p = zkey q -> (CWon p -> CWon q) /\ (CLost p -> CLost q).

  (* any limits, clock, stop timing and depth bound, cache ON and holding anything mate-sound: a final mate score means that the
     announced move is a legal move of the rules after which the opponent is Lost by the rules of chess (resp. that the searched
     position is Lost by the rules of chess) *)
  Theorem C12_mate_scores_sound_rules :
    forall (lim : Limits) (clock : nat -> N) (ext_stop : nat -> bool) (s0 : CSt) (b : Board) (md : option nat),
      chess_inv b -> c_no_mate1 b -> c_tt_sound s0 -> best_move Ply s0 = None -> best_score Ply s0 = None ->
      let r := c_search lim clock ext_stop true s0 b md in
      let m := announced Board Ply get_all_moves is_legal_move ply_default (fst r) b in
      c_tt_sound (fst r)
      /\ (forall sc, best_score Ply (fst r) = Some sc ->
            (32000 <= sc -> In (move_of m) (legal_moves (abs b)) /\ RLost (apply (abs b) (move_of m)))
            /\ (sc <= -32000 -> RLost (abs b))).
  Proof.
    intros lim clock ext_stop s0 b md Hinv Hn1 Htt Hbm Hbs r m.
    destruct (C12soundchess.C12_chess_mate_scores_sound key_sem lim clock ext_stop s0 b md Hinv Hn1 Htt Hbm Hbs) as [T1 T2].
    fold r in T1, T2. split; [exact T1|].
    pose proof Hinv as [WR _].
    intros sc E. destruct (T2 sc E) as [W L]. split.
    - intros G.
      assert (Hm : In m (get_legal_moves b)).
      { exact (mate_move_legal Board Ply get_all_moves is_legal_move make_move c_in_check evaluate
                 is_capture is_promotion cap_score ply_eqb zkey halfmove_clock c_repeated ply_default
                 chess_inv chess_inv_make chess_inv_eval key_sem lim clock ext_stop s0 b md Hinv Hn1 Htt Hbm Hbs sc E G). }
      split.
      + apply (legal_spec_core b WR). apply in_map. exact Hm.
      + apply (model_Lost_after_is_rules_Lost b m WR Hm). exact (W G).
    - intros G. apply (model_Lost_is_rules_Lost b WR). exact (L G).
  Qed.
End C12rules.

(* the bounded oracle of spec/Mate.v (what the checks evaluate) is complete in the limit, for every game *)
Theorem C12_oracle_monotone : forall pos mv moves legal make in_check n p,
  wins_within pos mv moves legal make in_check n p = true -> wins_within pos mv moves legal make in_check (S n) p = true.
Proof. exact wins_within_S. Qed.
Theorem C12_oracle_complete : forall pos mv moves legal make in_check p,
  Won pos mv moves legal make in_check p -> exists n, wins_within pos mv moves legal make in_check n p = true.
Proof. exact Won_wins_within. Qed.
Theorem C12_oracle_keeps_complete : forall pos mv moves legal make in_check p m,
  Lost pos mv moves legal make in_check (make p m) -> exists n, keeps_within pos mv moves legal make in_check n p m = true.
Proof. exact Lost_keeps_within. Qed.

Print Assumptions C12_legal_moves_any_counters.
Print Assumptions C12_step_any_counters.
Print Assumptions C12_model_mates_are_rules_mates.
Print Assumptions C12_model_Lost_is_rules_Lost.
Print Assumptions C12_model_Won_is_rules_Won.
Print Assumptions C12_model_Lost_after_move.
Print Assumptions C12_mate_scores_sound_rules.
Print Assumptions C12_oracle_monotone.
Print Assumptions C12_oracle_complete.
Print Assumptions C12_oracle_keeps_complete.
