(* The hypotheses of the rules-level theorems, said in the rules' own terms.  `wf_rules` (C01, C03)
   and `chess_inv` (C09, C11, C12 chess instances) are boolean predicates over the BITBOARD model;
   here they are shown to be exactly `valid_pos` (spec/ValidPos.v, mailbox only) of the abstracted
   position, for every board whose twelve bitboards are consistent.  Consequences: every FEN of a
   valid position is loaded into a board satisfying the hypotheses, so C01 / C03 / C09 / C11 apply to
   it; and the end-to-end statement holds from ANY valid position given as a FEN, not only from the
   start position. *)
From Coq Require Import NArith ZArith List Lia Bool Ascii String FMapPositive.
Import ListNotations.
From RCE Require Import lib.Bits lib.Geometry model.Board model.Movegen model.Fen model.Wf model.WfFull model.Abs
  model.Play model.Eval model.Search model.ChessSearch model.Uci spec.Rules spec.Notation spec.SpecFen spec.PrintFen
  spec.ValidPos proofs.ChessSearchProofs proofs.ValidPosProofs.
Local Open Scope list_scope.

(* the model's hypotheses are the rules-level validity of the abstracted position *)
Theorem Valid_iff_chess_inv : forall b,
  wfb b = true -> (chess_inv b <-> valid_pos (abs b) = true).
Proof. exact valid_iff_chess_inv. Qed.

(* a FEN of a valid position is loaded into a board satisfying every hypothesis *)
Theorem Valid_fen_loads : forall s p,
  SpecFen.parse s = Some p -> valid_pos p = true ->
  exists b, from_fen s = Some b /\ abs b = p /\ chess_inv b.
Proof. exact valid_fen_loads. Qed.

(* validity is preserved by every legal move of the rules *)
Theorem Valid_preserved : forall p m,
  valid_pos p = true -> In m (Rules.legal_moves p) ->
  (halfmove p < 65535)%N -> (fullmove p < 65535)%N ->
  valid_pos (Rules.apply p m) = true.
Proof. exact valid_preserved. Qed.

(* end to end from any valid position given as a FEN (six fields f1..f6) *)
Fixpoint rules_play (p : Rules.Pos) (ms : list string) : option Rules.Pos :=
  match ms with
  | [] => Some p
  | s :: t => match filter (fun m => String.eqb (to_notation_rules m) s) (Rules.legal_moves p) with
              | m :: _ => rules_play (Rules.apply p m) t
              | [] => None
              end
  end.

Theorem E2E_fen_position_then_go :
  forall (sess : Session) (fen : string) (p0 : Rules.Pos) (ms : list string) (q : Rules.Pos),
    SpecFen.parse fen = Some p0 -> valid_pos p0 = true ->
    (halfmove p0 + N.of_nat (List.length ms) < 65535)%N -> (fullmove p0 + N.of_nat (List.length ms) < 65535)%N ->
    rules_play p0 ms = Some q ->
    exists sess',
      execute sess (CPosition (FenPos fen) (Some ms)) = Ok sess'
      /\ abs (s_board sess') = q
      /\ forall (l : GoLimits) (lim : Limits) (clock : nat -> N) (ext_stop : nat -> bool) (tt_on : bool)
                (s0 : CSt) (D : option nat),
           best_move Ply s0 = None -> best_score Ply s0 = None ->
           (forall k e, PositiveMap.find k (tt Ply s0) = Some e -> (-32768 < e_score Ply e <= 32767)%Z) ->
           Rules.legal_moves q <> [] ->
           exists infos m,
             snd (c_search lim clock ext_stop tt_on s0 (s_board sess') D) = infos ++ [Bestmove Ply m]
             /\ (forall o, In o infos -> match o with Bestmove _ _ => true | _ => false end = false)
             /\ In (move_of m) (Rules.legal_moves q).
Proof. exact e2e_fen_position_then_go. Qed.

Print Assumptions Valid_iff_chess_inv.
Print Assumptions Valid_fen_loads.
Print Assumptions Valid_preserved.
Print Assumptions E2E_fen_position_then_go.
