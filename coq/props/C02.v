(* C02 — unmaking a move restores the position exactly. *)
From Coq Require Import NArith List Bool.
Import ListNotations.
From RCE Require Import lib.Bits model.Board model.Movegen model.Wf model.Ops model.Fen proofs.BoardProofs.

(* the WHOLE record: 15 bitboards, side to move, counters, en-passant file, undo stack, record of
   earlier positions (with multiplicity, so also when the position repeats an earlier one), key *)
Theorem C02_unmake_make : forall b m,
  wfb b = true -> move_okb b m = true -> unmake_move (make_move b m) = Some b.
Proof. exact make_unmake. Qed.

Theorem C02_wf_preserved : forall b m,
  wfb b = true -> move_okb b m = true -> wfb (make_move b m) = true.
Proof. exact wfb_make. Qed.

(* nested make/unmake of any depth and width *)
Theorem C02_nested : forall p b b', run_probe b p = Some b' -> b' = b.
Proof. exact nested_probe. Qed.

(* asking for the legal moves (make + test + unmake of every pseudo-legal move on the live
   board, as the &mut self code does) leaves the board as it was *)
Theorem C02_query_pure : forall b,
  wfb b = true -> forallb (move_okb b) (get_all_moves b) = true ->
  get_legal_moves_st b = (get_legal_moves b, Some b).
Proof. exact query_pure. Qed.

(* non-vacuity: the hypotheses hold on real positions, including one that repeats *)
Example C02_start_wf : wfb start_board = true /\ forallb (move_okb start_board) (get_all_moves start_board) = true.
Proof. split; vm_compute; reflexivity. Qed.

Definition kiwipete : Board :=
  match from_fen "r3k2r/p1ppqpb1/bn2pnp1/3PN3/1p2P3/2N2Q1p/PPPBBPPP/R3K2R w KQkq - 0 1" with
  | Some b => b | None => start_board end.
Example C02_kiwipete_wf : wfb kiwipete = true /\ forallb (move_okb kiwipete) (get_all_moves kiwipete) = true.
Proof. split; vm_compute; reflexivity. Qed.

Check (C02_unmake_make : forall b m,
  wfb b = true -> move_okb b m = true -> unmake_move (make_move b m) = Some b).
Print Assumptions C02_unmake_make.
Print Assumptions C02_wf_preserved.
Print Assumptions C02_nested.
Print Assumptions C02_query_pure.
