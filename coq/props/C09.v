(* C09 — every go is answered by exactly one legal bestmove, whatever the limits.
   For EVERY game, position with a legal move, limit combination (node budget, movetime, clock
   times, depth), EVERY clock oracle and EVERY stop oracle, any depth bound, cache on or off,
   any initial killer table and any initial cache whose scores are i16 values (and, as in
   Search::new, no best move or score recorded yet): the output of the
   search is a (possibly empty) sequence of info lines followed by exactly one bestmove, and the
   announced move is a legal move of the position. *)
From Coq Require Import NArith ZArith List Lia Bool FMapPositive.
Import ListNotations.
From RCE Require Import model.Search proofs.SearchAbortProofs.
Open Scope Z_scope.

Section C09.
  Variables pos mv : Type.
  Variable moves : pos -> list mv.
  Variable legal : pos -> mv -> bool.
  Variable make : pos -> mv -> pos.
  Variable in_check : pos -> bool.
  Variable evalf : pos -> Z.
  Variable is_cap is_promo : mv -> bool.
  Variable cap_score : mv -> N.
  Variable mv_eqb : mv -> mv -> bool.
  Variable key : pos -> N.
  Variable halfmove : pos -> N.
  Variable repeated : pos -> bool.
  Variable default_mv : mv.
  Variable lim : Limits.
  Variable clock : nat -> N.
  Variable ext_stop : nat -> bool.
  Variable tt_on : bool.
  Hypothesis eval_i16 : forall p, -32768 < evalf p <= 32767.

  Let run := search pos mv moves legal make in_check evalf is_cap is_promo cap_score mv_eqb key
                    halfmove repeated default_mv lim clock ext_stop tt_on.

  Definition is_bestmove (o : Output mv) : bool := match o with Bestmove _ _ => true | _ => false end.
  (* every score already in the cache is an i16 above MIN (true of everything the search stores) *)
  Definition tt_scores_ok (s : St mv) : Prop :=
    forall k e, PositiveMap.find k (tt mv s) = Some e -> -32768 < e_score mv e <= 32767.

  Theorem C09_answer : forall (s0 : St mv) (p : pos) (D : option nat),
    best_move mv s0 = None -> best_score mv s0 = None -> tt_scores_ok s0 ->
    (exists m, In m (moves p) /\ legal p m = true) ->
    exists infos m,
      snd (run s0 p D) = infos ++ [Bestmove mv m]
      /\ (forall o, In o infos -> is_bestmove o = false)
      /\ In m (moves p) /\ legal p m = true.
  Proof. exact (search_answers pos mv moves legal make in_check evalf is_cap is_promo cap_score mv_eqb key
                               halfmove repeated default_mv lim clock ext_stop tt_on eval_i16). Qed.

  (* the flag is cleared when the search returns, so the next go is accepted (see C10) *)
  Theorem C09_flag_cleared : forall (s0 : St mv) (p : pos) (D : option nat),
    running mv (fst (run s0 p D)) = false.
  Proof. exact (search_clears_flag pos mv moves legal make in_check evalf is_cap is_promo cap_score mv_eqb key
                                   halfmove repeated default_mv lim clock ext_stop tt_on). Qed.
End C09.

Print Assumptions C09_answer.
Print Assumptions C09_flag_cleared.
