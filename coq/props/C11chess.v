(* C11 for the chess instance: the abstract theorem C11_search instantiated with the chess model
   (move generator, legality filter, make_move, check test, evaluation of model/*.v).  The
   invariant of the positions of the tree is wf_rules (preserved by legal moves: C03_wf_step)
   together with at most 16 non-king pieces a side (preserved because captures only remove pieces
   and a promotion replaces a pawn), under which the evaluation is in range (C17_value). *)
From Coq Require Import NArith ZArith List Lia Bool.
Import ListNotations.
From RCE Require Import lib.Bits model.Board model.Movegen model.Wf model.WfFull model.Eval model.Search
  model.ChessSearch spec.Game proofs.ChessSearchProofs.
Open Scope Z_scope.

(* the invariant is preserved along the search tree and bounds the evaluation *)
Theorem C11_chess_inv_make : forall b m,
  chess_inv b -> In m (get_all_moves b) -> is_legal_move b m = true -> chess_inv (make_move b m).
Proof. exact chess_inv_make. Qed.
Theorem C11_chess_inv_eval : forall b, chess_inv b -> -32000 < evaluate b < 32000.
Proof. exact chess_inv_eval. Qed.

(* the chess search with the cache neutralised, no limits, no stop, to depth D: the announced move is
   legal and its value, like the reported score, is the exact negamax value of the look-ahead game *)
Theorem C11_chess : forall (s0 : CSt) (b : Board) (D : nat),
  running Ply s0 = true -> chess_inv b -> (1 <= D <= 255)%nat -> get_legal_moves b <> [] ->
  let r := c_search no_limits (fun _ => 0%N) (fun _ => false) false s0 b (Some D) in
  exists m, last (snd r) (Bestmove Ply ply_default) = Bestmove Ply m
            /\ In m (get_legal_moves b)
            /\ best_score Ply (fst r)
               = Vroot Board Ply get_all_moves is_legal_move make_move c_in_check evaluate is_capture
                       halfmove_clock c_repeated D b
            /\ Some (move_value Board Ply get_all_moves is_legal_move make_move c_in_check evaluate is_capture
                                halfmove_clock c_repeated D b m)
               = Vroot Board Ply get_all_moves is_legal_move make_move c_in_check evaluate is_capture
                       halfmove_clock c_repeated D b.
Proof. exact chess_search_exact. Qed.

Example C11_chess_start : chess_inv start_board.
Proof. split; vm_compute; reflexivity. Qed.

Print Assumptions C11_chess_inv_make.
Print Assumptions C11_chess_inv_eval.
Print Assumptions C11_chess.
