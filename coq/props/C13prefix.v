(* C13 (second form) — whatever interrupts a search (the node budget, the move time, the game
   clock, a stop from the input thread: ANY limits, ANY monotone clock, ANY monotone stop oracle),
   the cache writes it made are an initial segment of the cache writes of the SAME search left
   uninterrupted (no limits, no stop).  The uninterrupted search computes every value it stores
   from a subtree it searched completely (nothing in it is ever cut), so: no entry written by an
   interrupted search stems from an unfinished part of the tree, and nothing is written after the
   cut.  Entries are compared as (key, entry, node counter); the fourth component of a write
   event, the flag as seen at the moment of the write, is not compared: a stop that lands between
   the last poll and the write of a completed subtree is legitimate. *)
From Coq Require Import NArith ZArith List Lia Bool.
Import ListNotations.
From RCE Require Import model.Search proofs.SearchPrefixProofs.
Open Scope Z_scope.

Section C13prefix.
  Variables pos mv : Type.
  Variable moves : pos -> list mv.
  Variable legal : pos -> mv -> bool.
  Variable make : pos -> mv -> pos.
  Variable in_check : pos -> bool.
  Variable evalf : pos -> Z.
  Variable is_cap is_promo : mv -> bool.
  Variable cap_score : mv -> N.
  Variable mv_eqb : mv -> mv -> bool.
  Variable key : pos -> N.
  Variable halfmove : pos -> N.
  Variable repeated : pos -> bool.
  Variable default_mv : mv.
  Variable tt_on : bool.

  Definition mono_clock (clock : nat -> N) : Prop := forall i j, (i <= j)%nat -> (clock i <= clock j)%N.
  Definition mono_stop (ext_stop : nat -> bool) : Prop :=
    forall i j, (i <= j)%nat -> ext_stop i = true -> ext_stop j = true.

  Let run lim clock ext_stop :=
    search pos mv moves legal make in_check evalf is_cap is_promo cap_score mv_eqb key
           halfmove repeated default_mv lim clock ext_stop tt_on.

  (* a write without the flag component *)
  Definition wr (w : WriteEv mv) : N * TTEntry mv * N := fst w.

  Theorem C13_prefix : forall (lim : Limits) (clock clock' : nat -> N) (ext_stop : nat -> bool)
                              (s0 : St mv) (p : pos) (D : option nat),
    mono_clock clock -> mono_stop ext_stop -> running mv s0 = true ->
    exists later,
      map wr (trace mv (fst (run no_limits clock' (fun _ => false) s0 p D)))
      = later ++ map wr (trace mv (fst (run lim clock ext_stop s0 p D))).
  Proof. exact (cut_writes_prefix pos mv moves legal make in_check evalf is_cap is_promo cap_score mv_eqb key
                                  halfmove repeated default_mv tt_on). Qed.

  (* the cut run and the full run agree on the cache content as long as the cut run writes:
     after its last write the cut run's cache is the full run's cache at that same point *)
  Theorem C13_cut_cache_is_a_full_run_cache : forall (lim : Limits) (clock clock' : nat -> N) (ext_stop : nat -> bool)
                              (s0 : St mv) (p : pos) (D : option nat),
    mono_clock clock -> mono_stop ext_stop -> running mv s0 = true -> tt_on = true ->
    forall k, tt_get mv (fst (run lim clock ext_stop s0 p D)) k
              = match find (fun w => N.eqb (fst (fst (wr w))) k)
                           (firstn (length (trace mv (fst (run lim clock ext_stop s0 p D))) - length (trace mv s0))
                                   (trace mv (fst (run lim clock ext_stop s0 p D)))) with
                | Some w => Some (snd (fst (wr w)))
                | None => tt_get mv s0 k
                end.
  Proof. exact (cut_cache_from_trace pos mv moves legal make in_check evalf is_cap is_promo cap_score mv_eqb key
                                     halfmove repeated default_mv tt_on). Qed.
End C13prefix.

Print Assumptions C13_prefix.
Print Assumptions C13_cut_cache_is_a_full_run_cache.
