(* C12 (cache ON) — A MATE IN TWO WITH A QUIET KEY MOVE IS ALWAYS SEEN, under the hypothesis that makes the cache path-independent.
   With the cache active and holding anything that is mate-sound (props/C12sound.v) and short-mate complete (`tt_complete`: below) — the
   empty cache is, and every completed iteration of every depth re-establishes both, so: earlier iterations, earlier searches of any
   depth — a completed iteration of depth >= 3 on a position with a mate in two of the look-ahead game whose key move does NOT give check,
   and no mate in one, leaves a score >= 32000, and (by C12sound) the move it chose forces checkmate: clause 2 of C12, "keeps a forced
   mate", cache on.
   PROVED FOR MATES IN TWO WITH A QUIET KEY MOVE ONLY.  For a key move that gives check the statement is FALSE of the model
   (props/C12seenRefuted.v: closed counterexamples, one iteration and a whole `go depth 3`), because of an asymmetry in alpha_beta: the
   cache is probed with the depth the node was called with, then the depth is extended by one when the side to move is in check, and the
   result is stored with the extended depth — a node in check launders a depth-d lower bound into a depth-(d+1) exact entry, and no
   invariant on the cache that speaks of entry depths survives that.  At a node that is not in check the stored depth is the probed depth.
   THE hypothesis: `key_inj`, the key determines the position — INCLUDING what the draw tests look at (`halfmove`, `repeated`).  For
   chess this fails in exactly one way besides 64-bit collisions: the key ignores the half-move clock and the path, so an entry written
   where a mating move happened to run into the fifty-move limit or a repetition is reused where it does not (graph-history
   interaction).  The second hypothesis is about an observable of the run: the search never came near the ply cap (`seldepth < 254`; the
   engine prints seldepth; at the cap a node returns 0 without looking, which would be cached as "no win").  No limits, no stop: the
   property speaks of COMPLETED iterations.  Nothing is assumed about `mv_eqb` (move ordering is irrelevant).
   "Mate in two of the look-ahead game with a quiet key move" (`W2q`): some move leads to a position that is not in check, not drawn, has
   a legal move, and all of whose moves lead to undrawn positions with a mating move whose result is seen as mate (not drawn); for a
   position given without prior history and with a small half-move clock this is a mate in two of chess (C12off: `fresh`). *)
From Coq Require Import NArith ZArith List Lia Bool FMapPositive.
Import ListNotations.
From RCE Require Import model.Search spec.Mate proofs.SearchMateSoundProofs proofs.SearchMateSeenProofs.
Open Scope Z_scope.

Section C12seen.
  Variables pos mv : Type.
  Variable moves : pos -> list mv.
  Variable legal : pos -> mv -> bool.
  Variable make : pos -> mv -> pos.
  Variable in_check : pos -> bool.
  Variable evalf : pos -> Z.
  Variable is_cap is_promo : mv -> bool.
  Variable cap_score : mv -> N.
  Variable mv_eqb : mv -> mv -> bool.
  Variable key : pos -> N.
  Variable halfmove : pos -> N.
  Variable repeated : pos -> bool.
  Variable default_mv : mv.
  Variable clock : nat -> N.

  Local Notation Lost := (Lost pos mv moves legal make in_check).
  Local Notation lmoves := (lmoves pos mv moves legal).
  Local Notation tt_sound := (SearchMateSoundProofs.tt_sound pos mv moves legal make in_check key).
  Local Notation best_sound := (SearchMateSoundProofs.best_sound pos mv moves legal make in_check).
  Local Notation no_mate1 := (SearchMateSoundProofs.no_mate1 pos mv moves legal make in_check).
  Local Notation drawn := (SearchMateSeenProofs.drawn pos halfmove repeated).
  Local Notation M0 := (SearchMateSeenProofs.M0 pos mv moves legal in_check halfmove repeated).
  Local Notation W1 := (SearchMateSeenProofs.W1 pos mv moves legal make in_check halfmove repeated).
  Local Notation L1 := (SearchMateSeenProofs.L1 pos mv moves legal make in_check halfmove repeated).
  Local Notation L1q := (SearchMateSeenProofs.L1q pos mv moves legal make in_check halfmove repeated).
  Local Notation W2q := (SearchMateSeenProofs.W2q pos mv moves legal make in_check halfmove repeated).
  Local Notation tt_complete := (SearchMateSeenProofs.tt_complete pos mv moves legal make in_check key halfmove repeated).

  (* the notions (proofs/SearchMateSeenProofs.v, Section Defs), restated so that the statements can be read *)
  Goal forall p, drawn p = ((100 <=? halfmove p)%N || repeated p).
  Proof. reflexivity. Qed.
  Goal forall p, M0 p <-> (lmoves p = [] /\ in_check p = true /\ drawn p = false).
  Proof. intros p. reflexivity. Qed.
  Goal forall p, W1 p <-> (drawn p = false /\ exists m, In m (lmoves p) /\ M0 (make p m)).
  Proof. intros p. reflexivity. Qed.
  Goal forall p, L1 p <-> (drawn p = false /\ lmoves p <> [] /\ forall m, In m (lmoves p) -> W1 (make p m)).
  Proof. intros p. reflexivity. Qed.
  Goal forall p, L1q p <-> (L1 p /\ in_check p = false).
  Proof. intros p. reflexivity. Qed.
  Goal forall p, W2q p <-> (exists m, In m (lmoves p) /\ L1q (make p m)).
  Proof. intros p. reflexivity. Qed.
  Local Notation best_avoid := (SearchMateSeenProofs.best_avoid pos mv moves legal make in_check halfmove repeated).
  Goal forall root s, best_avoid root s <->
    (forall sc, best_score mv s = Some sc -> -32000 < sc -> exists m, best_move mv s = Some m /\ ~ W1 (make root m)).
  Proof. intros root s. reflexivity. Qed.
  Goal forall s, tt_complete s <->
    (forall p e, tt_get mv s (key p) = Some e ->
       lmoves p <> []
       /\ (W1 p -> e_bound mv e <> Lower -> 32000 <= e_score mv e)
       /\ (L1q p -> (2 <= e_depth mv e)%nat -> e_bound mv e <> Upper -> e_score mv e <= -32000)).
  Proof. intros s. reflexivity. Qed.

  Variable Inv : pos -> Prop.
  Hypothesis Inv_make : forall p m, Inv p -> In m (moves p) -> legal p m = true -> Inv (make p m).
  Hypothesis Inv_eval : forall p, Inv p -> -32000 < evalf p < 32000.
  Hypothesis key_inj : forall p q, key p = key q -> p = q.

  Let start := alpha_beta_start pos mv moves legal make in_check evalf is_cap is_promo cap_score mv_eqb key
                       halfmove repeated default_mv no_limits clock (fun _ => false) true.

  (* every completed iteration, of any depth, keeps the three invariants (so they hold after iterations 1 and 2, after earlier
     searches, ...) *)
  Theorem C12_seen_preserved : forall (s : St mv) (root : pos) (d : nat),
    Inv root -> no_mate1 root -> running mv s = true ->
    tt_sound s -> best_sound root s -> tt_complete s ->
    (seldepth mv (start s root d) < 254)%nat ->
    tt_sound (start s root d) /\ best_sound root (start s root d) /\ tt_complete (start s root d)
    /\ running mv (start s root d) = true.
  Proof. exact (mate_seen_preserved pos mv moves legal make in_check evalf is_cap is_promo cap_score mv_eqb key
                  halfmove repeated default_mv clock Inv Inv_make Inv_eval key_inj). Qed.

  (* a completed iteration of depth >= 3 sees the mate in two with a quiet key move: mate score, and the chosen move forces mate *)
  Theorem C12_quiet_mate_in_two_seen : forall (s : St mv) (root : pos) (d : nat),
    Inv root -> no_mate1 root -> W2q root -> (3 <= d)%nat -> running mv s = true ->
    tt_sound s -> best_sound root s -> tt_complete s ->
    (seldepth mv (start s root d) < 254)%nat ->
    exists m sc, best_move mv (start s root d) = Some m /\ best_score mv (start s root d) = Some sc
                 /\ 32000 <= sc /\ In m (lmoves root) /\ Lost (make root m).
  Proof. exact (quiet_mate_in_two_seen pos mv moves legal make in_check evalf is_cap is_promo cap_score mv_eqb key
                  halfmove repeated default_mv clock Inv Inv_make Inv_eval key_inj). Qed.

  (* the whole search `go depth D`, D >= 3 (iterations 1..D sharing the cache), from fresh best-move slots and any cache satisfying
     the invariants: the announced move forces mate, and the invariants hold again for the next search *)
  Theorem C12_quiet_mate_in_two_seen_search : forall (s0 : St mv) (root : pos) (D : nat),
    Inv root -> no_mate1 root -> W2q root -> (3 <= D <= 255)%nat -> running mv s0 = true ->
    tt_sound s0 -> tt_complete s0 -> best_move mv s0 = None -> best_score mv s0 = None ->
    let r := search pos mv moves legal make in_check evalf is_cap is_promo cap_score mv_eqb key
                    halfmove repeated default_mv no_limits clock (fun _ => false) true s0 root (Some D) in
    (seldepth mv (fst r) < 254)%nat ->
    tt_sound (fst r) /\ tt_complete (fst r)
    /\ exists sc, best_score mv (fst r) = Some sc /\ 32000 <= sc
                  /\ Lost (make root (announced pos mv moves legal default_mv (fst r) root)).
  Proof. exact (quiet_mate_in_two_seen_search pos mv moves legal make in_check evalf is_cap is_promo cap_score mv_eqb key
                  halfmove repeated default_mv clock Inv Inv_make Inv_eval key_inj). Qed.

  (* clause 3 of C12 with the cache on: unless the score says "lost" (<= -32000), a completed iteration of depth >= 2 never chooses a
     move that allows a mate in one (of the look-ahead game: W1).  `best_avoid` is that property of the best-move slots, in the style
     of best_sound; the hypothesis on the slots of the start state matters only when the root has no legal move (then the iteration
     leaves the slots alone); fresh slots satisfy it.  An iteration of depth 1 does not establish it (the replies are only evaluated
     by quiescence), which is why it is not stated as an invariant of every iteration. *)
  Theorem C12_avoids_mate_in_one_cache_on : forall (s : St mv) (root : pos) (d : nat),
    Inv root -> no_mate1 root -> (2 <= d)%nat -> running mv s = true ->
    tt_sound s -> tt_complete s -> (lmoves root = [] -> best_avoid root s) ->
    (seldepth mv (start s root d) < 254)%nat ->
    best_avoid root (start s root d)
    /\ (forall m sc, best_move mv (start s root d) = Some m -> best_score mv (start s root d) = Some sc ->
                     -32000 < sc -> ~ W1 (make root m)).
  Proof. exact (avoids_mate_in_one_cache_on pos mv moves legal make in_check evalf is_cap is_promo cap_score mv_eqb key
                  halfmove repeated default_mv clock Inv Inv_make Inv_eval key_inj). Qed.

  (* the whole search `go depth D`, D >= 2, from fresh slots: every iteration completes and overwrites the slots, so the final slots are
     those of iteration D *)
  Theorem C12_avoids_mate_in_one_cache_on_search : forall (s0 : St mv) (root : pos) (D : nat),
    Inv root -> no_mate1 root -> (2 <= D <= 255)%nat -> running mv s0 = true ->
    tt_sound s0 -> tt_complete s0 -> best_move mv s0 = None -> best_score mv s0 = None ->
    let r := search pos mv moves legal make in_check evalf is_cap is_promo cap_score mv_eqb key
                    halfmove repeated default_mv no_limits clock (fun _ => false) true s0 root (Some D) in
    (seldepth mv (fst r) < 254)%nat ->
    forall sc, best_score mv (fst r) = Some sc -> -32000 < sc ->
      ~ W1 (make root (announced pos mv moves legal default_mv (fst r) root)).
  Proof. exact (avoids_mate_in_one_cache_on_search pos mv moves legal make in_check evalf is_cap is_promo cap_score mv_eqb key
                  halfmove repeated default_mv clock Inv Inv_make Inv_eval key_inj). Qed.

  (* the empty cache is short-mate complete *)
  Theorem C12_empty_cache_complete : tt_complete (init_st mv).
  Proof. exact (empty_cache_complete pos mv moves legal make in_check key halfmove repeated). Qed.
End C12seen.

Print Assumptions C12_seen_preserved.
Print Assumptions C12_quiet_mate_in_two_seen.
Print Assumptions C12_quiet_mate_in_two_seen_search.
Print Assumptions C12_avoids_mate_in_one_cache_on.
Print Assumptions C12_avoids_mate_in_one_cache_on_search.
Print Assumptions C12_empty_cache_complete.

(* NON-VACUITY: a concrete game satisfying every hypothesis of C12_quiet_mate_in_two_seen_search, and what the search computes on it.
   Positions and moves are numbers, every listed move is legal, evaluation 0, no captures, key = position number, half-move clock 0,
   nothing repeated.   0 (root): move 0 -> 4 (no moves, not in check), move 1 -> 1;   1 (NOT in check): move 0 -> 2;   2: move 0 -> 3;
   3: in check, no moves.   The key move 1 is quiet; 1 is mated in one whatever it plays; the root has no mate in one. *)
Module SeenInstance.
  Definition mvs (p : nat) : list nat := match p with 0 => [0; 1] | 1 | 2 => [0] | _ => [] end%nat.
  Definition mk (p m : nat) : nat := match p, m with 0, 0 => 4 | 0, _ => 1 | 1, _ => 2 | 2, _ => 3 | _, _ => p end%nat.
  Definition chk (p : nat) : bool := Nat.eqb p 3.
  Definition lg (p m : nat) : bool := true.
  Definition ev (p : nat) : Z := 0.
  Definition hm (p : nat) : N := 0%N.
  Definition rep (p : nat) : bool := false.
  Definition nf (m : nat) : bool := false.
  Definition cs (m : nat) : N := 0%N.
  Definition clk (k : nat) : N := 0%N.
  Local Notation go := (search nat nat mvs lg mk chk ev nf nf cs Nat.eqb N.of_nat hm rep 0%nat no_limits clk (fun _ => false) true).
  Local Notation W2q := (SearchMateSeenProofs.W2q nat nat mvs lg mk chk hm rep).
  Local Notation no_mate1 := (SearchMateSoundProofs.no_mate1 nat nat mvs lg mk chk).
  Local Notation tt_sound := (SearchMateSoundProofs.tt_sound nat nat mvs lg mk chk N.of_nat).
  Local Notation tt_complete := (SearchMateSeenProofs.tt_complete nat nat mvs lg mk chk N.of_nat hm rep).
  Local Notation LostG := (Lost nat nat mvs lg mk chk).

  Lemma Inv_make : forall (p m : nat), True -> In m (mvs p) -> lg p m = true -> True.
  Proof. intros; exact I. Qed.
  Lemma Inv_eval : forall p : nat, True -> -32000 < ev p < 32000.
  Proof. intros p _. unfold ev. lia. Qed.
  Lemma key_inj : forall p q : nat, N.of_nat p = N.of_nat q -> p = q.
  Proof. intros p q. apply Nat2N.inj. Qed.
  Lemma no_mate1_root : no_mate1 0%nat.
  Proof. intros m [<-|[<-|[]]] [H1 H2]; [discriminate H2 | discriminate H1]. Qed.
  Lemma W2q_root : W2q 0%nat.
  Proof.
    exists 1%nat. split; [right; left; reflexivity|]. split; [|reflexivity].
    split; [reflexivity|]. split; [discriminate|]. intros m [<-|[]].
    split; [reflexivity|]. exists 0%nat. split; [left; reflexivity|]. repeat split.
  Qed.
  Lemma sel_small : (seldepth nat (fst (go (init_st nat) 0%nat (Some 3%nat))) < 254)%nat.
  Proof. apply Nat.ltb_lt. vm_compute. reflexivity. Qed.

  (* every hypothesis of the theorem holds, and this is what the search computes *)
  Example C12_seen_nonvacuous :
    (forall (p m : nat), True -> In m (mvs p) -> lg p m = true -> True)
    /\ (forall p : nat, True -> -32000 < ev p < 32000)
    /\ (forall p q : nat, N.of_nat p = N.of_nat q -> p = q)
    /\ no_mate1 0%nat /\ W2q 0%nat /\ (3 <= 3 <= 255)%nat
    /\ running nat (init_st nat) = true /\ tt_sound (init_st nat) /\ tt_complete (init_st nat)
    /\ best_move nat (init_st nat) = None /\ best_score nat (init_st nat) = None
    /\ (seldepth nat (fst (go (init_st nat) 0%nat (Some 3%nat))) < 254)%nat
    (* computed: *)
    /\ seldepth nat (fst (go (init_st nat) 0%nat (Some 3%nat))) = 3%nat
    /\ best_score nat (fst (go (init_st nat) 0%nat (Some 3%nat))) = Some 32765
    /\ announced nat nat mvs lg 0%nat (fst (go (init_st nat) 0%nat (Some 3%nat))) 0%nat = 1%nat
    /\ last (snd (go (init_st nat) 0%nat (Some 3%nat))) (Bestmove nat 9%nat) = Bestmove nat 1%nat.
  Proof.
    split; [exact Inv_make|]. split; [exact Inv_eval|]. split; [exact key_inj|].
    split; [exact no_mate1_root|]. split; [exact W2q_root|]. split; [lia|]. split; [reflexivity|].
    split; [exact (empty_cache_sound nat nat mvs lg mk chk N.of_nat)|].
    split; [exact (empty_cache_complete nat nat mvs lg mk chk N.of_nat hm rep)|].
    split; [reflexivity|]. split; [reflexivity|]. split; [exact sel_small|].
    repeat split; vm_compute; reflexivity.
  Qed.

  (* the theorem applied to the instance *)
  Example C12_seen_instance :
    exists sc, best_score nat (fst (go (init_st nat) 0%nat (Some 3%nat))) = Some sc /\ 32000 <= sc
               /\ LostG (mk 0%nat (announced nat nat mvs lg 0%nat (fst (go (init_st nat) 0%nat (Some 3%nat))) 0%nat)).
  Proof.
    pose proof (C12_quiet_mate_in_two_seen_search nat nat mvs lg mk chk ev nf nf cs Nat.eqb N.of_nat hm rep 0%nat clk
                  (fun _ => True) Inv_make Inv_eval key_inj (init_st nat) 0%nat 3%nat I no_mate1_root W2q_root ltac:(lia) eq_refl
                  (empty_cache_sound nat nat mvs lg mk chk N.of_nat)
                  (empty_cache_complete nat nat mvs lg mk chk N.of_nat hm rep) eq_refl eq_refl) as H.
    cbv zeta in H. exact (proj2 (proj2 (H sel_small))).
  Qed.
End SeenInstance.

Print Assumptions SeenInstance.C12_seen_nonvacuous.
Print Assumptions SeenInstance.C12_seen_instance.
