(* C12 (cache ON) — MATE SCORES ARE NEVER A LIE.
   For an arbitrary game, with the position cache ACTIVE and holding ANYTHING that earlier iterations and earlier searches left in it
   (any depths, any number of them, interrupted or not), for ANY limits, clock and stop timing:
     * whenever an iteration leaves a score >= 32000 (every "score mate N" line, N > 0) the move it chose really forces checkmate
       (the opponent is `Lost` after it: spec/Mate.v, unbounded forced mate over the bare game);
     * whenever it leaves a score <= -32000 the searched position really is lost;
     * and the cache stays `tt_sound`: every entry that claims a won (lost) position belongs to a position that IS won (lost) —
       so the statement applies again to the next iteration and to the next search.
   This is the soundness half of clause 2 of C12 ("keeps a forced mate"), cache on: ply-relative mate scores reused at other plies blur
   the DISTANCE of a mate (the engine does prefer a mate in three to a mate in two now and then: `1k6/8/2RK4/8/3Q4/8/8/8 w`, depth 3,
   empty cache, plays d4b4), never its EXISTENCE.
   Hypotheses: the evaluation stays inside (-32000, 32000) on the positions of the tree (invariant `Inv`; C17_value for chess);
   a key collision never confuses a won/lost position with one that is not (`key_sem`; trivially true when the key is injective);
   the searched position has no mate in one (`no_mate1`) — with a mate in one the root window degenerates and unsound bounds ARE
   stored (props/C12.v, MateCex), which is why clause 1 has its own theorem with its own invariant.
   NOT proved here (see DESIGN.md, C12): completeness with the cache on (that a mate in two is always SEEN) — entries written under a
   repetition or fifty-move draw of one line are reused in another (graph-history interaction), so it holds only under extra hypotheses. *)
From Coq Require Import NArith ZArith List Lia Bool FMapPositive.
Import ListNotations.
From RCE Require Import model.Search spec.Mate proofs.SearchMateSoundProofs.
Open Scope Z_scope.

Section C12sound.
  Variables pos mv : Type.
  Variable moves : pos -> list mv.
  Variable legal : pos -> mv -> bool.
  Variable make : pos -> mv -> pos.
  Variable in_check : pos -> bool.
  Variable evalf : pos -> Z.
  Variable is_cap is_promo : mv -> bool.
  Variable cap_score : mv -> N.
  Variable mv_eqb : mv -> mv -> bool.
  Variable key : pos -> N.
  Variable halfmove : pos -> N.
  Variable repeated : pos -> bool.
  Variable default_mv : mv.

  Local Notation Won := (Won pos mv moves legal make in_check).
  Local Notation Lost := (Lost pos mv moves legal make in_check).
  Local Notation lmoves := (lmoves pos mv moves legal).

  Variable Inv : pos -> Prop.
  Hypothesis Inv_make : forall p m, Inv p -> In m (moves p) -> legal p m = true -> Inv (make p m).
  Hypothesis Inv_eval : forall p, Inv p -> -32000 < evalf p < 32000.
  Hypothesis key_sem : forall p q, key p = key q -> (Won p -> Won q) /\ (Lost p -> Lost q).

  (* tt_sound, best_sound, no_mate1: proofs/SearchMateSoundProofs.v (Section Defs); restated here so that the statement can be read *)
  Local Notation tt_sound := (SearchMateSoundProofs.tt_sound pos mv moves legal make in_check key).
  Local Notation best_sound := (SearchMateSoundProofs.best_sound pos mv moves legal make in_check).
  Local Notation no_mate1 := (SearchMateSoundProofs.no_mate1 pos mv moves legal make in_check).

  Goal forall s, tt_sound s <->
    (forall p e, tt_get mv s (key p) = Some e ->
       -32766 <= e_score mv e <= 32766
       /\ (e_bound mv e <> Upper -> 32000 <= e_score mv e -> Won p)
       /\ (e_bound mv e <> Lower -> e_score mv e <= -32000 -> Lost p)).
  Proof. intros s. reflexivity. Qed.
  Goal forall root s, best_sound root s <->
    (forall sc, best_score mv s = Some sc ->
       (32000 <= sc -> exists m, best_move mv s = Some m /\ Lost (make root m)) /\ (sc <= -32000 -> Lost root)).
  Proof. intros root s. reflexivity. Qed.
  Goal forall root, no_mate1 root <->
    (forall m, In m (lmoves root) -> ~ (lmoves (make root m) = [] /\ in_check (make root m) = true)).
  Proof. intros root. reflexivity. Qed.

  (* one iteration (alpha_beta_start), cache ON, any limits / clock / stop oracle, any depth *)
  Theorem C12_mate_scores_sound_iteration :
    forall (lim : Limits) (clock : nat -> N) (ext_stop : nat -> bool) (s : St mv) (root : pos) (d : nat),
      Inv root -> no_mate1 root -> tt_sound s -> best_sound root s ->
      let s' := alpha_beta_start pos mv moves legal make in_check evalf is_cap is_promo cap_score mv_eqb key
                                 halfmove repeated default_mv lim clock ext_stop true s root d in
      tt_sound s' /\ best_sound root s'.
  Proof. exact (mate_scores_sound_iteration pos mv moves legal make in_check evalf is_cap is_promo cap_score mv_eqb key
                  halfmove repeated default_mv Inv Inv_make Inv_eval key_sem). Qed.

  (* a whole search (iterative deepening to any depth bound, any limits, interrupted anywhere), from a state whose best-move slots
     are fresh (as Search::new leaves them): the cache stays sound, and if the final score is a mate score the ANNOUNCED move
     forces mate *)
  Theorem C12_mate_scores_sound_search :
    forall (lim : Limits) (clock : nat -> N) (ext_stop : nat -> bool) (s0 : St mv) (root : pos) (md : option nat),
      Inv root -> no_mate1 root -> tt_sound s0 -> best_move mv s0 = None -> best_score mv s0 = None ->
      let r := search pos mv moves legal make in_check evalf is_cap is_promo cap_score mv_eqb key
                      halfmove repeated default_mv lim clock ext_stop true s0 root md in
      tt_sound (fst r)
      /\ (forall sc, best_score mv (fst r) = Some sc ->
            (32000 <= sc -> Lost (make root (announced pos mv moves legal default_mv (fst r) root)))
            /\ (sc <= -32000 -> Lost root)).
  Proof. exact (mate_scores_sound_search pos mv moves legal make in_check evalf is_cap is_promo cap_score mv_eqb key
                  halfmove repeated default_mv Inv Inv_make Inv_eval key_sem). Qed.

  (* the empty cache is sound *)
  Theorem C12_empty_cache_sound : tt_sound (init_st mv).
  Proof. exact (empty_cache_sound pos mv moves legal make in_check key). Qed.
End C12sound.

(* the bounded oracle evaluated by the checks implies the unbounded notion *)
Theorem C12_oracle_sound : forall pos mv moves legal make in_check n p,
  wins_within pos mv moves legal make in_check n p = true -> Won pos mv moves legal make in_check p.
Proof. exact wins_within_Won. Qed.
Theorem C12_oracle_keeps_sound : forall pos mv moves legal make in_check n p m,
  keeps_within pos mv moves legal make in_check n p m = true -> Lost pos mv moves legal make in_check (make p m).
Proof. exact keeps_within_Lost. Qed.

Print Assumptions C12_mate_scores_sound_iteration.
Print Assumptions C12_mate_scores_sound_search.
Print Assumptions C12_empty_cache_sound.
Print Assumptions C12_oracle_sound.
Print Assumptions C12_oracle_keeps_sound.
