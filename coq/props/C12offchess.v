(* C12 with the cache neutralised, for the chess instance: the three clauses of props/C12off.v
   (and the value characterisation behind them) instantiated with the chess model (move generator,
   legality filter, make_move, check test, evaluation, half-move clock and repetition test of
   model/*.v) and the invariant chess_inv of props/C11chess.v (wf_rules and at most 16 non-king
   pieces a side).  The notions are exactly those of props/C12off.v (has_legal, mated, mates:
   proofs/SearchMateProofs.v Section Defs; lmove, within, fresh, keeps_mate2, allows_mate1:
   proofs/MateValueProofs.v Section Defs2) applied to the chess functions; they are then related
   to get_legal_moves and to the boolean mate oracle of model/ChessSearch.v (is_mated,
   mating_moves, keeps_mate 1, allows_mate_in_one), and `fresh` to a boolean test, so that all
   hypotheses can be checked by computation on a concrete position (two examples at the end). *)
From Coq Require Import NArith ZArith List Lia Bool String.
Import ListNotations.
From RCE Require Import lib.Bits model.Board model.Movegen model.Fen model.Wf model.WfFull model.Eval model.Search
  model.ChessSearch spec.Game proofs.SearchMateProofs proofs.MateValueProofs proofs.ChessSearchProofs
  proofs.ChessMateProofs.
Open Scope Z_scope.

Local Notation lmove := (MateValueProofs.lmove Board Ply get_all_moves is_legal_move).
Local Notation has_legal := (SearchMateProofs.has_legal Board Ply get_all_moves is_legal_move).
Local Notation mated := (SearchMateProofs.mated Board Ply get_all_moves is_legal_move c_in_check).
Local Notation mates := (SearchMateProofs.mates Board Ply get_all_moves is_legal_move make_move c_in_check).
(* no position within three plies of the root is a fifty-move or repetition draw *)
Local Notation fresh :=
  (MateValueProofs.fresh Board Ply get_all_moves is_legal_move make_move halfmove_clock c_repeated).
Local Notation freshb :=
  (MateValueProofs.freshb Board Ply get_all_moves is_legal_move make_move halfmove_clock c_repeated).
Local Notation keeps_mate2 :=
  (MateValueProofs.keeps_mate2 Board Ply get_all_moves is_legal_move make_move c_in_check).
Local Notation allows_mate1 :=
  (MateValueProofs.allows_mate1 Board Ply get_all_moves is_legal_move make_move c_in_check).
Local Notation mval :=
  (move_value Board Ply get_all_moves is_legal_move make_move c_in_check evaluate is_capture
              halfmove_clock c_repeated).

(* the move announced by the chess search to depth D with the cache neutralised, no limits, no stop *)
Definition announces (s0 : CSt) (b : Board) (D : nat) (m : Ply) : Prop :=
  last (snd (c_search no_limits (fun _ => 0%N) (fun _ => false) false s0 b (Some D))) (Bestmove Ply ply_default)
  = Bestmove Ply m.

(* clause 1: if a mate in one exists, the announced move mates *)
Theorem C12off_chess_mate_in_one : forall (s0 : CSt) (b : Board) (D : nat) (m : Ply),
  running Ply s0 = true -> chess_inv b -> (1 <= D <= 255)%nat -> fresh b ->
  (exists m1, mates b m1) -> announces s0 b D m -> mates b m.
Proof. exact chess_off_mate_in_one. Qed.

(* clause 2: if some move keeps a forced mate in two, so does the announced move *)
Theorem C12off_chess_keeps_mate_in_two : forall (s0 : CSt) (b : Board) (D : nat) (m : Ply),
  running Ply s0 = true -> chess_inv b -> (3 <= D <= 255)%nat -> fresh b ->
  (exists m1, keeps_mate2 b m1) -> announces s0 b D m -> keeps_mate2 b m.
Proof. exact chess_off_keeps_mate_in_two. Qed.

(* clause 3: if some legal move does not allow a mate in one, neither does the announced move *)
Theorem C12off_chess_avoids_mate_in_one : forall (s0 : CSt) (b : Board) (D : nat) (m : Ply),
  running Ply s0 = true -> chess_inv b -> (2 <= D <= 255)%nat -> fresh b ->
  (exists m1, lmove b m1 /\ ~ allows_mate1 b m1) -> announces s0 b D m -> ~ allows_mate1 b m.
Proof. exact chess_off_avoids_mate_in_one. Qed.

(* the values behind the three clauses *)
Theorem C12off_chess_value_characterisation : forall (b : Board) (D : nat) (m : Ply),
  chess_inv b -> (3 <= D <= 255)%nat -> fresh b -> lmove b m ->
  (mval D b m = 32767 <-> mates b m)
  /\ (mval D b m >= 32765 <-> keeps_mate2 b m)
  /\ (mval D b m <= -32766 <-> allows_mate1 b m).
Proof. exact chess_off_value_characterisation. Qed.

(* the notions in terms of get_legal_moves and the boolean mate oracle of model/ChessSearch.v *)
Theorem C12off_chess_lmove : forall b m, lmove b m <-> In m (get_legal_moves b).
Proof. exact c_lmove_iff. Qed.
Theorem C12off_chess_mated : forall b, mated b <-> is_mated b = true.
Proof. exact c_mated_iff. Qed.
Theorem C12off_chess_mates : forall b m, mates b m <-> In m (mating_moves b).
Proof. exact c_mates_iff. Qed.
Theorem C12off_chess_keeps_mate2 : forall b m,
  keeps_mate2 b m <-> In m (get_legal_moves b) /\ keeps_mate 1 b m = true.
Proof. exact c_keeps_mate2_iff. Qed.
Theorem C12off_chess_allows_mate1 : forall b m,
  allows_mate1 b m <-> In m (get_legal_moves b) /\ allows_mate_in_one b m = true.
Proof. exact c_allows_mate1_iff. Qed.
Theorem C12off_chess_fresh : forall b, freshb 3 b = true -> fresh b.
Proof. exact c_freshb_sound. Qed.

(* the hypotheses are satisfiable: the start position (also an instance of clause 3: depth >= 2
   searches of it never allow a mate in one, since 1.a3, say, does not) ... *)
Example C12off_chess_start : chess_inv start_board /\ fresh start_board.
Proof. exact chess_start_example. Qed.

(* ... and a back-rank mate in one (Ra8#): every search of it to a depth 1..255 announces a1a8 *)
Definition back_rank : Board :=
  match from_fen "6k1/5ppp/8/8/8/8/8/R3K3 w - - 0 1" with Some b => b | None => start_board end.
Example C12off_chess_back_rank : forall (s0 : CSt) (D : nat) (m : Ply),
  running Ply s0 = true -> (1 <= D <= 255)%nat -> announces s0 back_rank D m ->
  to_notation m = "a1a8"%string /\ mates back_rank m.
Proof. exact chess_back_rank_example. Qed.

Print Assumptions C12off_chess_mate_in_one.
Print Assumptions C12off_chess_keeps_mate_in_two.
Print Assumptions C12off_chess_avoids_mate_in_one.
Print Assumptions C12off_chess_value_characterisation.
Print Assumptions C12off_chess_keeps_mate2.
Print Assumptions C12off_chess_allows_mate1.
Print Assumptions C12off_chess_mates.
Print Assumptions C12off_chess_fresh.
Print Assumptions C12off_chess_start.
Print Assumptions C12off_chess_back_rank.
