(* RulesPerft.v — validation of the SPECIFICATION: the coordinate-level rules of spec/Rules.v, read
   through the independent FEN reader of spec/SpecFen.v (no engine model involved), reproduce the
   published perft totals (number of leaf nodes of the legal-move tree) of the standard test
   positions, which exercise castling, en passant, promotions, pins and discovered checks.
   Closed computations in the kernel VM. *)
From Coq Require Import NArith List String.
Import ListNotations.
From RCE Require Import model.Board spec.Rules spec.SpecFen.
Open Scope string_scope.

Definition perft_of (fen : string) (d : nat) : option N :=
  match SpecFen.parse fen with Some p => Some (perft d p) | None => None end.

Theorem perft_start_3 : perft_of "rnbqkbnr/pppppppp/8/8/8/8/PPPPPPPP/RNBQKBNR w KQkq - 0 1" 3 = Some 8902%N.
Proof. vm_compute. reflexivity. Qed.
Theorem perft_kiwipete_2 : perft_of "r3k2r/p1ppqpb1/bn2pnp1/3PN3/1p2P3/2N2Q1p/PPPBBPPP/R3K2R w KQkq - 0 1" 2 = Some 2039%N.
Proof. vm_compute. reflexivity. Qed.
Theorem perft_pos3_3 : perft_of "8/2p5/3p4/KP5r/1R3p1k/8/4P1P1/8 w - - 0 1" 3 = Some 2812%N.
Proof. vm_compute. reflexivity. Qed.
Theorem perft_pos4_2 : perft_of "r3k2r/Pppp1ppp/1b3nbN/nP6/BBP1P3/q4N2/Pp1P2PP/R2Q1RK1 w kq - 0 1" 2 = Some 264%N.
Proof. vm_compute. reflexivity. Qed.
Theorem perft_pos5_2 : perft_of "rnbq1k1r/pp1Pbppp/2p5/8/2B5/8/PPP1NnPP/RNBQK2R w KQ - 1 8" 2 = Some 1486%N.
Proof. vm_compute. reflexivity. Qed.
Theorem perft_pos6_2 : perft_of "r4rk1/1pp1qppp/p1np1n2/2b1p1B1/2B1P1b1/P1NP1N2/1PP1QPPP/R4RK1 w - - 0 10" 2 = Some 2079%N.
Proof. vm_compute. reflexivity. Qed.
(* en passant uncovering a line to the king (rank, and diagonal), promotion with capture of a rook carrying a right *)
Theorem perft_ep_rank_pin_1 : perft_of "8/8/8/KPp4r/8/8/8/7k w - c6 0 2" 1 = Some 4%N.
Proof. vm_compute. reflexivity. Qed.
Theorem perft_ep_diagonal_pin_1 : perft_of "8/5bk1/8/2Pp4/8/1K6/8/8 w - d6 0 2" 1 = Some 8%N.
Proof. vm_compute. reflexivity. Qed.

Print Assumptions perft_start_3.
Print Assumptions perft_kiwipete_2.
Print Assumptions perft_pos3_3.
Print Assumptions perft_pos4_2.
Print Assumptions perft_pos5_2.
Print Assumptions perft_pos6_2.
Print Assumptions perft_ep_rank_pin_1.
Print Assumptions perft_ep_diagonal_pin_1.
