(* C12 (cache ON) — WHY "a mate in two is always seen" IS FALSE WHEN THE KEY MOVE GIVES CHECK.
   The mechanism (a property of the engine's code, mirrored by model/Search.v):
     alpha_beta PROBES the cache with the depth it was called with (d), THEN extends the depth by one if the side to move is in check,
     and STORES its result with the extended depth (d + 1).
   So a node that is in check launders cache information of depth d into an entry of depth d + 1:
     let Y be in check and mated in one whatever it plays (L1), and let the cache hold (Lower 5, depth 1) for Y — a harmless entry:
     its score is no mate score, it is a mere lower bound, its depth is too small for it to claim anything about a mate in one.
     Searched with d = 1 and a window containing 5, Y accepts the entry (1 >= d), starts its move loop at alpha = 5, is extended to depth 2;
     every reply leads to a position with a mate in one, which is found and cut off at the child's beta = -5, so every reply scores 5,
     none raises alpha, and Y stores (Exact 5, depth 2): "searched to depth 2: worth exactly 5".  The next probe of Y with d = 2
     returns 5 at once and the mate below Y is never looked at again at that depth.
   Hence the invariant first proposed for C12seen (`tt_complete0` below: an entry of depth >= 2 that is not a mere upper bound for a
   position that is mated in one whatever it plays says "lost") is NOT preserved by the search, and a completed iteration of depth 3 —
   and a whole `go depth 3` — on a position with a mate in two (key move with check) and no mate in one, from a cache that is mate-sound
   (props/C12sound.v) and satisfies that invariant, ends with the score -5.  No threshold on the depth repairs the invariant for
   positions in check: at d = T - 1 the node reads unconstrained entries of depth T - 1 and writes a constrained one of depth T.
   props/C12seen.v proves the statement for mates in two with a QUIET key move (the stored depth is then the probed depth).

   The game: positions and moves are numbers, every listed move is legal, evaluation 0, no captures, key = position number (injective),
   half-move clock 0, nothing repeated.
     0 (root):  move 0 -> 10 (A, in check),  move 1 -> 1 (Y, in check)
     10 (A):    move 0 -> 11 (B)            11 (B):  move 0 -> 1 (Y)
     1 (Y):     move 0 -> 2                  2:       move 0 -> 3             3: in check, no moves (checkmated)
   2 has a mate in one, Y is mated in one whatever it plays, the root has a mate in two (move 1) and no mate in one.
   Start states: s1 = the empty cache + Y |-> (Lower 5, depth 1);  s2 = s1 + A |-> (Exact 0, depth 1) (A is neither W1 nor L1).
   Iteration of depth 3 from s1: the first root move runs 0 -> A -> B -> Y with full windows; A is in check, so Y is reached with d = 1.
   `go depth 3` from s2: A's entry answers the probes of A in iterations 1 and 2 (so Y is not reached below A, and as second root move
   it returns its lower bound 5 at once: its entry survives), iteration 3 (d = 2 at A) searches below A and the same happens. *)
From Coq Require Import NArith ZArith List Lia Bool FMapPositive.
Import ListNotations.
From RCE Require Import model.Search spec.Mate proofs.SearchMateProofs proofs.SearchMateSoundProofs.
Open Scope Z_scope.

(* the notions of the refuted statement (the ORIGINAL short-mate completeness, with the unrestricted L1 clause) *)
Section Defs0.
  Variables pos mv : Type.
  Variable moves : pos -> list mv.
  Variable legal : pos -> mv -> bool.
  Variable make : pos -> mv -> pos.
  Variable in_check : pos -> bool.
  Variable key : pos -> N.
  Variable halfmove : pos -> N.
  Variable repeated : pos -> bool.
  Local Notation lmoves := (lmoves pos mv moves legal).

  Definition drawn0 (p : pos) : bool := (100 <=? halfmove p)%N || repeated p.
  Definition M0 (p : pos) : Prop := lmoves p = [] /\ in_check p = true /\ drawn0 p = false.
  Definition W1 (p : pos) : Prop := drawn0 p = false /\ exists m, In m (lmoves p) /\ M0 (make p m).
  Definition L1 (p : pos) : Prop := drawn0 p = false /\ lmoves p <> [] /\ forall m, In m (lmoves p) -> W1 (make p m).
  Definition W2 (p : pos) : Prop := exists m, In m (lmoves p) /\ L1 (make p m).
  Definition tt_complete0 (s : St mv) : Prop :=
    forall p e, tt_get mv s (key p) = Some e ->
      lmoves p <> []
      /\ (W1 p -> (1 <= e_depth mv e)%nat -> e_bound mv e <> Lower -> 32000 <= e_score mv e)
      /\ (L1 p -> (2 <= e_depth mv e)%nat -> e_bound mv e <> Upper -> e_score mv e <= -32000).
End Defs0.

Module SeenCex.
  Definition mvs (p : nat) : list nat := match p with 0 => [0; 1] | 1 | 2 | 10 | 11 => [0] | _ => [] end%nat.
  Definition mk (p m : nat) : nat :=
    match p, m with 0, 0 => 10 | 0, _ => 1 | 10, _ => 11 | 11, _ => 1 | 1, _ => 2 | 2, _ => 3 | _, _ => p end%nat.
  Definition chk (p : nat) : bool := Nat.eqb p 1 || Nat.eqb p 3 || Nat.eqb p 10.
  Definition lg (p m : nat) : bool := true.
  Definition hm (p : nat) : N := 0%N.
  Definition rep (p : nat) : bool := false.
  (* cache on, no limits, no stop *)
  Definition start : St nat -> nat -> nat -> St nat :=
    alpha_beta_start nat nat mvs lg mk chk (fun _ => 0) (fun _ => false) (fun _ => false)
      (fun _ => 0%N) Nat.eqb N.of_nat hm rep 0%nat no_limits (fun _ => 0%N) (fun _ => false) true.
  Definition srch : St nat -> nat -> option nat -> St nat * list (Output nat) :=
    search nat nat mvs lg mk chk (fun _ => 0) (fun _ => false) (fun _ => false)
      (fun _ => 0%N) Nat.eqb N.of_nat hm rep 0%nat no_limits (fun _ => 0%N) (fun _ => false) true.

  Definition eY := mkE nat 5 1 Lower 0%nat.       (* for Y = 1 *)
  Definition eA := mkE nat 0 1 Exact 0%nat.       (* for A = 10 *)
  Definition s1 : St nat := set_tt nat (init_st nat) (PositiveMap.add (kpos 1) eY (PositiveMap.empty _)).
  Definition s2 : St nat :=
    set_tt nat (init_st nat) (PositiveMap.add (kpos 10) eA (PositiveMap.add (kpos 1) eY (PositiveMap.empty _))).

  Local Notation LostG := (Lost nat nat mvs lg mk chk).
  Local Notation WonG := (Won nat nat mvs lg mk chk).
  Local Notation tt_sound := (SearchMateSoundProofs.tt_sound nat nat mvs lg mk chk N.of_nat).
  Local Notation no_mate1 := (SearchMateSoundProofs.no_mate1 nat nat mvs lg mk chk).
  Local Notation tt_complete0 := (tt_complete0 nat nat mvs lg mk chk N.of_nat hm rep).
  Local Notation W1 := (W1 nat nat mvs lg mk chk hm rep).
  Local Notation L1 := (L1 nat nat mvs lg mk chk hm rep).
  Local Notation W2 := (W2 nat nat mvs lg mk chk hm rep).
  Local Notation M0 := (M0 nat nat mvs lg chk hm rep).

  (* ---- the game ---- *)
  Lemma M0_3 : M0 3%nat.
  Proof. repeat split. Qed.
  Lemma W1_2 : W1 2%nat.
  Proof. split; [reflexivity|]. exists 0%nat. split; [left; reflexivity | exact M0_3]. Qed.
  Lemma L1_Y : L1 1%nat.
  Proof. split; [reflexivity|]. split; [discriminate|]. intros m [<-|[]]. exact W1_2. Qed.
  Lemma Y_in_check : chk 1 = true.
  Proof. reflexivity. Qed.
  Lemma W2_root : W2 0%nat.
  Proof. exists 1%nat. split; [right; left; reflexivity | exact L1_Y]. Qed.
  Lemma no_mate1_root : no_mate1 0%nat.
  Proof. intros m [<-|[<-|[]]] [H1 _]; discriminate H1. Qed.
  Lemma not_W1_A : ~ W1 10%nat.
  Proof. intros [_ [m [[<-|[]] [Hn _]]]]. discriminate Hn. Qed.
  Lemma key_inj : forall p q : nat, N.of_nat p = N.of_nat q -> p = q.
  Proof. intros p q. apply Nat2N.inj. Qed.

  (* ---- the start states satisfy the hypotheses ---- *)
  Lemma get_s2 p e : tt_get nat s2 (N.of_nat p) = Some e -> (p = 10%nat /\ e = eA) \/ (p = 1%nat /\ e = eY).
  Proof.
    unfold tt_get. cbn [tt s2 set_tt]. intros F.
    destruct (Pos.eq_dec (kpos (N.of_nat p)) (kpos 10)) as [E|NE].
    - rewrite E, PositiveMap.gss in F. apply kpos_inj in E. left. split; [lia | congruence].
    - rewrite PositiveMap.gso in F by exact NE.
      destruct (Pos.eq_dec (kpos (N.of_nat p)) (kpos 1)) as [E|NE'].
      + rewrite E, PositiveMap.gss in F. apply kpos_inj in E. right. split; [lia | congruence].
      + rewrite PositiveMap.gso, PositiveMap.gempty in F by exact NE'. discriminate.
  Qed.
  Lemma get_s1 p e : tt_get nat s1 (N.of_nat p) = Some e -> p = 1%nat /\ e = eY.
  Proof.
    unfold tt_get. cbn [tt s1 set_tt]. intros F.
    destruct (Pos.eq_dec (kpos (N.of_nat p)) (kpos 1)) as [E|NE'].
    - rewrite E, PositiveMap.gss in F. apply kpos_inj in E. split; [lia | congruence].
    - rewrite PositiveMap.gso, PositiveMap.gempty in F by exact NE'. discriminate.
  Qed.
  Lemma okY_s : -32766 <= 5 <= 32766 /\ (Lower <> Upper -> 32000 <= 5 -> WonG 1%nat) /\ (Lower <> Lower -> 5 <= -32000 -> LostG 1%nat).
  Proof. split; [lia|]. split; intros; [lia | congruence]. Qed.
  Lemma okY_c : lmoves nat nat mvs lg 1%nat <> []
      /\ (W1 1%nat -> (1 <= 1)%nat -> Lower <> Lower -> 32000 <= 5)
      /\ (L1 1%nat -> (2 <= 1)%nat -> Lower <> Upper -> 5 <= -32000).
  Proof. split; [discriminate|]. split; intros; [congruence | lia]. Qed.

  Theorem s1_sound : tt_sound s1.
  Proof. intros p e F. destruct (get_s1 p e F) as [-> ->]. exact okY_s. Qed.
  Theorem s1_complete0 : tt_complete0 s1.
  Proof. intros p e F. destruct (get_s1 p e F) as [-> ->]. exact okY_c. Qed.
  Theorem s2_sound : tt_sound s2.
  Proof.
    intros p e F. destruct (get_s2 p e F) as [[-> ->]|[-> ->]]; [|exact okY_s].
    cbn [e_score e_bound eA]. split; [lia|]. split; intros; lia.
  Qed.
  Theorem s2_complete0 : tt_complete0 s2.
  Proof.
    intros p e F. destruct (get_s2 p e F) as [[-> ->]|[-> ->]]; [|exact okY_c].
    cbn [e_score e_bound e_depth eA]. split; [discriminate|]. split; intros; [|lia].
    exfalso. apply not_W1_A. assumption.
  Qed.
  Lemma s1_fresh : running nat s1 = true /\ best_move nat s1 = None /\ best_score nat s1 = None.
  Proof. repeat split. Qed.
  Lemma s2_fresh : running nat s2 = true /\ best_move nat s2 = None /\ best_score nat s2 = None.
  Proof. repeat split. Qed.

  (* ---- one iteration of depth 3 from s1 ---- *)
  Theorem C12_seen_refuted_iteration :
    (* the hypotheses of the refuted statement hold *)
    (no_mate1 0%nat /\ W2 0%nat /\ tt_sound s1 /\ tt_complete0 s1 /\ running nat s1 = true /\ best_score nat s1 = None)
    (* the run stays far from the ply cap and completes *)
    /\ seldepth nat (start s1 0%nat 3%nat) = 5%nat /\ running nat (start s1 0%nat 3%nat) = true
    (* Y (in check, mated in one whatever it plays) now has an entry "depth 2, exactly 5" *)
    /\ (L1 1%nat /\ chk 1 = true /\ tt_get nat (start s1 0%nat 3%nat) (N.of_nat 1) = Some (mkE nat 5 2 Exact 0%nat))
    (* the mate in two is not seen *)
    /\ best_move nat (start s1 0%nat 3%nat) = Some 0%nat /\ best_score nat (start s1 0%nat 3%nat) = Some (-5).
  Proof.
    split; [exact (conj no_mate1_root (conj W2_root (conj s1_sound (conj s1_complete0 (conj eq_refl eq_refl)))))|].
    split; [vm_compute; reflexivity|]. split; [vm_compute; reflexivity|].
    split; [split; [exact L1_Y | split; [reflexivity | vm_compute; reflexivity]]|].
    split; vm_compute; reflexivity.
  Qed.

  Corollary C12_complete0_not_preserved : tt_complete0 s1 /\ ~ tt_complete0 (start s1 0%nat 3%nat).
  Proof.
    split; [exact s1_complete0|]. intros H.
    destruct C12_seen_refuted_iteration as [_ [_ [_ [[_ [_ F]] _]]]].
    destruct (H 1%nat _ F) as [_ [_ HL]]. cbn [e_score e_depth e_bound] in HL.
    specialize (HL L1_Y ltac:(lia) ltac:(discriminate)). lia.
  Qed.

  (* ---- the whole search from s2: `go depth 3` misses the mate, `go depth 4` sees it ---- *)
  Theorem C12_seen_refuted_search :
    (no_mate1 0%nat /\ W2 0%nat /\ tt_sound s2 /\ tt_complete0 s2
     /\ running nat s2 = true /\ best_move nat s2 = None /\ best_score nat s2 = None)
    /\ seldepth nat (fst (srch s2 0%nat (Some 3%nat))) = 5%nat
    /\ best_score nat (fst (srch s2 0%nat (Some 3%nat))) = Some (-5)
    /\ last (snd (srch s2 0%nat (Some 3%nat))) (Bestmove nat 9%nat) = Bestmove nat 0%nat
    /\ best_score nat (fst (srch s2 0%nat (Some 4%nat))) = Some 32765
    /\ last (snd (srch s2 0%nat (Some 4%nat))) (Bestmove nat 9%nat) = Bestmove nat 1%nat.
  Proof.
    split; [exact (conj no_mate1_root (conj W2_root (conj s2_sound (conj s2_complete0 (conj eq_refl (conj eq_refl eq_refl))))))|].
    repeat split; vm_compute; reflexivity.
  Qed.
End SeenCex.
Export SeenCex.   (* the gate audits the theorems by their short names *)

Print Assumptions SeenCex.C12_seen_refuted_iteration.
Print Assumptions SeenCex.C12_complete0_not_preserved.
Print Assumptions SeenCex.C12_seen_refuted_search.
