(* C04 — the position key is a function of the position, however it was reached. *)
From Coq Require Import NArith List Bool String.
Import ListNotations.
From RCE Require Import lib.Bits model.Board model.Movegen model.Wf model.Ops model.Fen proofs.BoardProofs.

(* after every make the incrementally maintained key is the from-scratch key *)
Theorem C04_make : forall b m,
  wfb b = true -> move_okb b m = true -> KeyOK b -> KeyOK (make_move b m).
Proof. exact key_make. Qed.

(* ... and after every interleaving of moves and take-backs, of any length *)
Theorem C04_history : forall ops b0 b,
  wfb b0 = true -> KeyOK b0 -> run_ops b0 0 ops = Some b -> KeyOK b /\ wfb b = true.
Proof. exact key_history. Qed.

(* path independence: the from-scratch key only reads placement, side, rights and en-passant
   file, so two games arriving at the same such position have the same key *)
Theorem C04_function : forall b1 b2, abs4 b1 = abs4 b2 -> key_from_scratch b1 = key_from_scratch b2.
Proof. exact key_function. Qed.

Theorem C04_transposition : forall b1 b2,
  KeyOK b1 -> KeyOK b2 -> abs4 b1 = abs4 b2 -> zkey b1 = zkey b2.
Proof. exact key_transposition. Qed.

(* a position loaded from FEN, and the start position, carry the from-scratch key *)
Theorem C04_fen : forall s b, from_fen s = Some b -> KeyOK b.
Proof. exact key_fen. Qed.
Theorem C04_start : KeyOK start_board.
Proof. exact key_start. Qed.

Check (C04_history : forall ops b0 b,
  wfb b0 = true -> KeyOK b0 -> run_ops b0 0 ops = Some b -> KeyOK b /\ wfb b = true).
Print Assumptions C04_make.
Print Assumptions C04_history.
Print Assumptions C04_function.
Print Assumptions C04_transposition.
Print Assumptions C04_fen.
Print Assumptions C04_start.
