(* C08 — the UCI position command sets up exactly the described game, or nothing. *)
From Coq Require Import NArith List Lia Bool Ascii String.
Import ListNotations.
From RCE Require Import model.Board model.Movegen model.Fen model.Uci proofs.UciProofs.

(* play_game, start_of, moves_of (the game described: play the named legal moves one after the
   other) are defined in proofs/UciProofs.v *)

(* accepted: the session position becomes the described game's position, whatever it was before *)
Theorem C08_accept : forall s k ms b0 b,
  start_of k = Some b0 -> play_game b0 (moves_of ms) = Some b ->
  exists s', execute s (CPosition k ms) = Ok s' /\ s_board s' = b /\ s_events s' = s_events s.
Proof. exact position_accept. Qed.

(* refused as a whole: if some move does not name a legal move the command fails and the loop goes
   on with the previous position *)
Theorem C08_reject : forall s k ms b0,
  start_of k = Some b0 -> play_game b0 (moves_of ms) = None ->
  execute s (CPosition k ms) = Err.
Proof. exact position_reject. Qed.
Theorem C08_reject_keeps : forall s line k ms,
  parse_command (tokens line) = Ok (CPosition k ms) -> execute s (CPosition k ms) = Err ->
  exists s', step s line = SCont s' /\ s_board s' = s_board s.
Proof. exact reject_keeps. Qed.

(* a move string is accepted exactly when it is the coordinate notation of a legal move *)
Theorem C08_find_move : forall b m,
  (forall p, find_move b m = Some p -> In p (get_legal_moves b) /\ to_notation p = m) /\
  (find_move b m = None <-> forall p, In p (get_legal_moves b) -> to_notation p <> m).
Proof. exact find_move_spec. Qed.

(* the notation determines start square, destination square and promotion piece type *)
Theorem C08_notation_inj : forall m1 m2,
  sq_valid (p_start m1) = true -> sq_valid (p_dest m1) = true ->
  sq_valid (p_start m2) = true -> sq_valid (p_dest m2) = true ->
  to_notation m1 = to_notation m2 ->
  p_start m1 = p_start m2 /\ p_dest m1 = p_dest m2 /\
  promo_letter (p_promoted m1) = promo_letter (p_promoted m2).
Proof. exact notation_inj. Qed.

(* token slicing: what `position ...` lines parse to *)
Theorem C08_tokens_startpos : forall ms,
  ms <> [] -> parse_command ("position" :: "startpos" :: "moves" :: ms) = Ok (CPosition StartPos (Some ms)).
Proof. exact tokens_startpos. Qed.
Theorem C08_tokens_fen : forall f1 f2 f3 f4 f5 f6 ms,
  ms <> [] ->
  parse_command ("position" :: "fen" :: f1 :: f2 :: f3 :: f4 :: f5 :: f6 :: "moves" :: ms)
  = Ok (CPosition (FenPos (join [f1; f2; f3; f4; f5; f6])) (Some ms)).
Proof. exact tokens_fen. Qed.

Example C08_example :
  exists s', execute init_session (CPosition StartPos (Some ["e2e4"; "e7e5"; "g1f3"])) = Ok s'
             /\ get_piece (s_board s') (mkSq 2 5) = Some (Knight, White)
             /\ execute s' (CPosition StartPos (Some ["e2e4"; "e7e6"; "e4e6"])) = Err.
Proof. eexists. split; [vm_compute; reflexivity|]. split; vm_compute; reflexivity. Qed.

Print Assumptions C08_accept.
Print Assumptions C08_reject.
Print Assumptions C08_reject_keeps.
Print Assumptions C08_find_move.
Print Assumptions C08_notation_inj.
Print Assumptions C08_tokens_startpos.
Print Assumptions C08_tokens_fen.
