(* C10 — stop is never lost and go is never dropped, under any timing.
   Every statement quantifies over ALL reachable states of the protocol: any command list, any
   schedule (interleaving of the input thread with any number of search threads), any length. *)
From Coq Require Import List Lia Bool Arith.
Import ListNotations.
From RCE Require Import model.Threads proofs.ThreadsProofs.

(* each search announces at most one move, and exactly one once it has passed the print *)
Theorem C10_one_bestmove : forall cmds s k,
  Reach fixed cmds s -> (k < length (pcs s))%nat ->
  count_bestmoves s k = (match pc s k with Printed | Exited => 1 | _ => 0 end)%nat.
Proof. exact one_bestmove. Qed.

(* when every thread has exited, the number of bestmoves equals the number of accepted go's *)
Theorem C10_answers : forall cmds s,
  Reach fixed cmds s -> all_exited s = true -> total_bestmoves s = total_accepted s.
Proof. exact answers. Qed.

(* a processed go is either accepted or refused with a message: never silently discarded *)
Theorem C10_go_not_silent : forall cmds s s' rest,
  Reach fixed cmds s -> pending s = CmdGo :: rest -> step fixed s LInput = Some s' ->
  (total_accepted s' + total_busy s' = S (total_accepted s + total_busy s))%nat /\ pending s' = rest.
Proof. exact go_not_silent. Qed.

(* ... and it is refused only while the previous search has neither been told to stop nor
   announced its move *)
Theorem C10_refused_only_if_searching : forall cmds s s' rest,
  Reach fixed cmds s -> pending s = CmdGo :: rest -> step fixed s LInput = Some s' ->
  total_busy s' = S (total_busy s) ->
  exists k, latest s = Some k /\ flag s k = true /\ count_bestmoves s k = 0%nat /\ pc s k <> Exited.
Proof. exact refused_only_if_searching. Qed.

(* stop is not lost: it clears the flag of the latest search, and no step of anybody ever sets a
   flag back to true *)
Theorem C10_stop_clears : forall cmds s s' rest k,
  Reach fixed cmds s -> pending s = CmdStop :: rest -> latest s = Some k ->
  step fixed s LInput = Some s' -> flag s' k = false.
Proof. exact stop_clears. Qed.
Theorem C10_flag_stays_cleared : forall cmds s l s' k,
  Reach fixed cmds s -> (k < length (pcs s))%nat -> flag s k = false ->
  step fixed s l = Some s' -> flag s' k = false.
Proof. exact flag_stays_cleared. Qed.

(* promptness in steps: a search whose flag is false always can move, and each of its own steps
   brings it strictly closer to having exited (at most 5 steps: see steps_left) *)
Theorem C10_stopped_thread_progresses : forall cmds s k fin,
  Reach fixed cmds s -> (k < length (pcs s))%nat -> flag s k = false -> pc s k <> Exited ->
  exists s', step fixed s (LThread k fin) = Some s'
             /\ (steps_left (pc s' k) < steps_left (pc s k))%nat /\ flag s' k = false.
Proof. exact stopped_thread_progresses. Qed.

(* the input thread can only be blocked in the join of a search that has been stopped or has
   finished searching — which exits within 5 of its own steps — and is never blocked otherwise *)
Theorem C10_blocked_only_on_stopped : forall cmds s,
  Reach fixed cmds s -> pending s <> [] -> step fixed s LInput = None ->
  exists k, latest s = Some k /\ flag s k = false /\ pc s k <> Exited /\ (k < length (pcs s))%nat.
Proof. exact blocked_only_on_stopped. Qed.
Theorem C10_bestmove_after_clear : forall cmds s k,
  Reach fixed cmds s -> (k < length (pcs s))%nat ->
  (match pc s k with Cleared | Printed | Exited => flag s k = false | _ => True end).
Proof. exact bestmove_after_clear. Qed.

(* the unrepaired code, for the record: with the flag re-armed at entry a stop is lost, and with
   the old go test a go is refused although the first search has already announced its move *)
Theorem C10_stop_lost_refuted : exists ls,
  let s := run (mkVariant true false) (init [CmdGo; CmdStop]) ls in
  pending s = [] /\ flag s 0 = true /\ pc s 0 = Running.
Proof. exact stop_lost_witness. Qed.
Theorem C10_go_dropped_refuted : exists ls,
  let s := run (mkVariant false true) (init [CmdGo; CmdGo]) ls in
  total_busy s = 1%nat /\ count_bestmoves s 0 = 1%nat /\ pending s = [].
Proof. exact go_dropped_witness. Qed.

(* non-vacuity: a reachable state with two searches, a stop and a blocked join *)
Example C10_example :
  let s := run fixed (init [CmdGo; CmdStop; CmdGo; CmdIsReady])
               [LInput; LThread 0 false; LInput; LInput; LThread 0 false; LThread 0 false;
                LThread 0 false; LThread 0 false; LInput; LInput; LThread 1 true; LThread 1 true;
                LThread 1 true; LThread 1 true; LThread 1 true] in
  total_bestmoves s = 2%nat /\ total_accepted s = 2%nat /\ total_busy s = 0%nat /\ all_exited s = true.
Proof. vm_compute. repeat split. Qed.

Print Assumptions C10_one_bestmove.
Print Assumptions C10_answers.
Print Assumptions C10_go_not_silent.
Print Assumptions C10_refused_only_if_searching.
Print Assumptions C10_stop_clears.
Print Assumptions C10_flag_stays_cleared.
Print Assumptions C10_stopped_thread_progresses.
Print Assumptions C10_blocked_only_on_stopped.
Print Assumptions C10_bestmove_after_clear.
Print Assumptions C10_stop_lost_refuted.
Print Assumptions C10_go_dropped_refuted.
