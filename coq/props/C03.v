(* C03 — game state bookkeeping follows the rules along any game. *)
From Coq Require Import NArith List Bool.
Import ListNotations.
From RCE Require Import lib.Bits lib.Geometry model.Board model.Movegen model.Wf model.WfFull model.Abs model.Play
  spec.Rules proofs.RulesProofs.

(* one move: placement, side to move, the four castling rights, the en-passant file, the half-move
   clock and the full-move number after make_move are exactly those of the rules *)
Theorem C03_step : forall b m,
  wf_rules b = true -> In m (get_legal_moves b) ->
  (Board.fullmove b < 65535)%N -> (halfmove_clock b < 65535)%N ->
  abs (make_move b m) = apply (abs b) (move_of m).
Proof. exact step_refines. Qed.

(* well-formedness (incl. rights only with king and rook at home, en-passant file only behind a
   just-advanced pawn, mover not left in check) is preserved by every legal move *)
Theorem C03_wf_step : forall b m,
  wf_rules b = true -> In m (get_legal_moves b) -> wf_rules (make_move b m) = true.
Proof. exact wf_rules_step. Qed.

(* any game of any length: fold of make_move refines fold of apply *)
Theorem C03_game : forall ms b,
  wf_rules b = true -> legal_game b ms ->
  (Board.fullmove b + N.of_nat (length ms) < 65535)%N -> (halfmove_clock b + N.of_nat (length ms) < 65535)%N ->
  abs (play_plies b ms) = fold_left apply (map move_of ms) (abs b) /\ wf_rules (play_plies b ms) = true.
Proof. exact game_refines. Qed.

(* the engine remembers exactly the earlier positions of the game *)
Theorem C03_remembers : forall ms b,
  pos_hist (play_plies b ms) = rev (keys_along b ms) ++ pos_hist b.
Proof. exact remembers_positions. Qed.

(* rules-level facts about the specification itself: a right once lost is never regained; the
   en-passant file is present exactly after a double pawn push *)
Theorem C03_rights_monotone : forall p m k, get_right (rights (apply p m)) k = true -> get_right (rights p) k = true.
Proof. exact rights_monotone. Qed.
Theorem C03_ep_iff_double_push : forall p m,
  (exists f, ep (apply p m) = Some f) <-> is_double_push (cells p) m = true.
Proof. exact ep_iff_double_push. Qed.

Print Assumptions C03_step.
Print Assumptions C03_wf_step.
Print Assumptions C03_game.
Print Assumptions C03_remembers.
Print Assumptions C03_rights_monotone.
Print Assumptions C03_ep_iff_double_push.
