(* C09 for the chess instance: the invariant-relative theorem search_answers_inv instantiated with the
   chess model.  For every chess position satisfying chess_inv (wf_rules and at most 16 non-king pieces
   a side) that has a legal move, EVERY limit combination, clock oracle and stop oracle, cache on or
   off: the chess search prints info lines followed by exactly one bestmove, and the move is one of the
   legal moves of the position. *)
From Coq Require Import NArith ZArith List Lia Bool FMapPositive.
Import ListNotations.
From RCE Require Import lib.Bits model.Board model.Movegen model.Eval model.Search model.ChessSearch
  proofs.SearchAbortProofs proofs.ChessSearchProofs.
Open Scope Z_scope.

Lemma chess_inv_eval_i16 : forall p, chess_inv p -> -32768 < evaluate p <= 32767.
Proof. intros p Hp. pose proof (chess_inv_eval p Hp) as H. lia. Qed.

Theorem C09_chess : forall (lim : Limits) (clock : nat -> N) (ext_stop : nat -> bool) (tt_on : bool)
                           (s0 : CSt) (b : Board) (D : option nat),
  chess_inv b -> best_move Ply s0 = None -> best_score Ply s0 = None ->
  (forall k e, PositiveMap.find k (tt Ply s0) = Some e -> -32768 < e_score Ply e <= 32767) ->
  get_legal_moves b <> [] ->
  exists infos m,
    snd (c_search lim clock ext_stop tt_on s0 b D) = infos ++ [Bestmove Ply m]
    /\ (forall o, In o infos -> match o with Bestmove _ _ => true | _ => false end = false)
    /\ In m (get_legal_moves b).
Proof.
  intros lim clock ext_stop tt_on s0 b D Hinv Hbm Hbs Htt Hleg.
  assert (Hex : exists m, In m (get_all_moves b) /\ is_legal_move b m = true).
  { destruct (get_legal_moves b) as [|m t] eqn:E; [contradiction|].
    exists m. apply filter_In. unfold get_legal_moves in E. rewrite E. left. reflexivity. }
  destruct (search_answers_inv Board Ply get_all_moves is_legal_move make_move c_in_check evaluate
              is_capture is_promotion cap_score ply_eqb zkey halfmove_clock c_repeated ply_default
              lim clock ext_stop tt_on chess_inv chess_inv_make
              chess_inv_eval_i16
              s0 b D Hinv Hbm Hbs Htt Hex) as [infos [m [H1 [H2 [H3 H4]]]]].
  exists infos, m. split; [exact H1|]. split; [exact H2|].
  unfold get_legal_moves. apply filter_In. split; assumption.
Qed.

Print Assumptions C09_chess.
