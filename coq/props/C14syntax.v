(* C14 (syntax clause) — every info line and the bestmove line, as formatted by the model of
   Search::log_uci_info (model/InfoLine.v, compared character by character with the real engine's
   lines on every run), is syntactically valid UCI (spec/UciSyntax.v): for every depth, seldepth,
   node count, elapsed time, score and principal variation. *)
From Coq Require Import NArith ZArith List Bool Ascii String.
Import ListNotations.
From RCE Require Import model.Board model.Movegen model.InfoLine spec.UciSyntax proofs.SyntaxProofs.
Open Scope string_scope.

(* coordinate notation of a move with squares on the board is a well-formed move token *)
Theorem C14_move_token : forall m : Ply,
  sq_valid (p_start m) = true -> sq_valid (p_dest m) = true -> is_move (to_notation m) = true.
Proof. exact move_token_valid. Qed.

(* every info line is valid, whatever the numbers; the score is present whenever an iteration has
   completed (best_score = Some _) *)
Theorem C14_info_syntax : forall depth seldepth nodes t sc pv,
  forallb is_move pv = true ->
  valid_info (tokens_sp (info_string depth seldepth nodes t sc pv)) = true.
Proof. exact info_line_valid. Qed.

Theorem C14_bestmove_syntax : forall m : Ply,
  sq_valid (p_start m) = true -> sq_valid (p_dest m) = true ->
  valid_bestmove (tokens_sp (bestmove_string m)) = true.
Proof. exact bestmove_line_valid. Qed.

Example C14_syntax_example :
  info_string 3 5 612 (Some 8%N) (Some 0%Z) ["b1a3"; "a7a6"; "a1b1"]
  = "info depth 3 seldepth 5 nodes 612 time 8 nps 76500 score cp 0 pv b1a3 a7a6 a1b1".
Proof. vm_compute. reflexivity. Qed.

Print Assumptions C14_move_token.
Print Assumptions C14_info_syntax.
Print Assumptions C14_bestmove_syntax.
