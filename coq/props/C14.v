(* C14 — search progress reports are truthful and well-formed (the structured part; the
   character-level syntax of the real lines is validated on real output by the check). *)
From Coq Require Import NArith ZArith List Lia Bool FMapPositive.
Import ListNotations.
From RCE Require Import model.Search proofs.SearchInfoProofs.
Open Scope Z_scope.

Section C14.
  Variables pos mv : Type.
  Variable moves : pos -> list mv.
  Variable legal : pos -> mv -> bool.
  Variable make : pos -> mv -> pos.
  Variable in_check : pos -> bool.
  Variable evalf : pos -> Z.
  Variable is_cap is_promo : mv -> bool.
  Variable cap_score : mv -> N.
  Variable mv_eqb : mv -> mv -> bool.
  Variable key : pos -> N.
  Variable halfmove : pos -> N.
  Variable repeated : pos -> bool.
  Variable default_mv : mv.
  Variable lim : Limits.
  Variable clock : nat -> N.
  Variable ext_stop : nat -> bool.
  Variable tt_on : bool.

  Let run := search pos mv moves legal make in_check evalf is_cap is_promo cap_score mv_eqb key
                    halfmove repeated default_mv lim clock ext_stop tt_on.

  (* info_depth (the depth field of an info line, None for bestmove) is defined in
     proofs/SearchInfoProofs.v *)

  (* for EVERY limit combination and every oracle: the info lines report depths 1, 2, ..., k in
     this order without gap or repeat (k <= the depth bound), followed by the single bestmove *)
  Theorem C14_depths_in_order : forall (s0 : St mv) (p : pos) (D : option nat),
    exists k m, (k <= match D with Some d => d | None => 255 end)%nat
                /\ map (info_depth mv) (snd (run s0 p D)) = map Some (seq 1 k) ++ [None]
                /\ last (snd (run s0 p D)) (Bestmove mv default_mv) = Bestmove mv m.
  Proof. exact (depths_in_order pos mv moves legal make in_check evalf is_cap is_promo cap_score mv_eqb key
                                halfmove repeated default_mv lim clock ext_stop tt_on). Qed.

  (* every reported principal variation only contains moves that pass the engine's legality test
     in the position reached so far *)
  (* pv_ok (defined in proofs/SearchInfoProofs.v):
       pv_ok p [] = true,  pv_ok p (m :: t) = legal p m && pv_ok (make p m) t *)
  Theorem C14_pv_checked : forall (s0 : St mv) (p : pos) (D : option nat) d sd n k sc pv,
    In (Info mv d sd n k sc pv) (snd (run s0 p D)) -> pv_ok pos mv legal make p pv = true /\ (length pv <= d)%nat.
  Proof. exact (pv_checked pos mv moves legal make in_check evalf is_cap is_promo cap_score mv_eqb key
                           halfmove repeated default_mv lim clock ext_stop tt_on). Qed.
End C14.

Section C14_depth_only.
  Variables pos mv : Type.
  Variable moves : pos -> list mv.
  Variable legal : pos -> mv -> bool.
  Variable make : pos -> mv -> pos.
  Variable in_check : pos -> bool.
  Variable evalf : pos -> Z.
  Variable is_cap is_promo : mv -> bool.
  Variable cap_score : mv -> N.
  Variable mv_eqb : mv -> mv -> bool.
  Variable key : pos -> N.
  Variable halfmove : pos -> N.
  Variable repeated : pos -> bool.
  Variable default_mv : mv.
  Variable clock : nat -> N.
  Variable tt_on : bool.

  (* a search limited to depth N and nothing else, not stopped, reports EVERY depth 1..N before
     its bestmove (this is what `go depth N` failed to do before the repair of D3) *)
  Theorem C14_depth_only : forall (s0 : St mv) (p : pos) (N : nat),
    running mv s0 = true -> (N <= 255)%nat ->
    map (info_depth mv)
        (snd (search pos mv moves legal make in_check evalf is_cap is_promo cap_score mv_eqb key
                     halfmove repeated default_mv no_limits clock (fun _ => false) tt_on s0 p (Some N)))
    = map Some (seq 1 N) ++ [None].
  Proof. exact (depth_only_reports_all pos mv moves legal make in_check evalf is_cap is_promo cap_score mv_eqb key
                                       halfmove repeated default_mv clock tt_on). Qed.
End C14_depth_only.

Print Assumptions C14_depths_in_order.
Print Assumptions C14_pv_checked.
Print Assumptions C14_depth_only.
