(* C17 — evaluation is colour-symmetric. *)
From Coq Require Import NArith ZArith List Bool.
Import ListNotations.
From RCE Require Import lib.Bits generated.Consts model.Board model.Eval model.Fen proofs.EvalProofs.
Open Scope Z_scope.

(* mirror image: same evaluation from the mover's point of view — for EVERY board whose
   bitboards are 64-bit, whatever the material (saturation and wrap-around included) *)
Theorem C17_mirror : forall b, boards_lt64 (bbs b) = true -> evaluate (mirror_board b) = evaluate b.
Proof. exact eval_mirror. Qed.

(* other side to move: exact negation, for every board with at most 16 non-king pieces a side *)
Theorem C17_antisym : forall b,
  values_ok = true -> material_bounded b = true -> evaluate (swap_turn b) = - evaluate b.
Proof. exact eval_antisym. Qed.

(* the result is the plain material difference under that bound *)
Theorem C17_value : forall b,
  values_ok = true -> material_bounded b = true ->
  evaluate b = fold_left (fun s tv => s + Z.of_nat (popcount (bb_get (bbs b) (fst tv, current_turn b))) * snd tv
                                       - Z.of_nat (popcount (bb_get (bbs b) (fst tv, opposite (current_turn b)))) * snd tv)
                         piece_values 0
  /\ -32000 < evaluate b < 32000.
Proof. exact eval_value. Qed.

(* the bound is not decorative: with 36 queens and a rook the i16 saturation breaks antisymmetry *)
Theorem C17_guard_needed : exists b, boards_lt64 (bbs b) = true /\ evaluate (swap_turn b) <> - evaluate b.
Proof. exact eval_guard_needed. Qed.

Example C17_values_ok : values_ok = true.
Proof. vm_compute. reflexivity. Qed.
Example C17_start : material_bounded start_board = true /\ boards_lt64 (bbs start_board) = true
                    /\ evaluate start_board = 0.
Proof. repeat split; vm_compute; reflexivity. Qed.

Check (C17_mirror : forall b, boards_lt64 (bbs b) = true -> evaluate (mirror_board b) = evaluate b).
Check (C17_antisym : forall b,
  values_ok = true -> material_bounded b = true -> evaluate (swap_turn b) = - evaluate b).
Print Assumptions C17_mirror.
Print Assumptions C17_antisym.
Print Assumptions C17_value.
Print Assumptions C17_guard_needed.
