(* ChessInstances.v — the search theorems that hold for an ARBITRARY game, instantiated with the
   chess model (c_search of model/ChessSearch.v: the move generator, legality filter, make_move,
   check test, evaluation, capture scores, ply equality, key, clocks and repetition test of
   model/*.v).  No extra hypothesis is needed for these. (C11 and C09 need an invariant on the
   positions of the tree; C11's chess instance is props/C11chess.v.) *)
From Coq Require Import NArith ZArith List Lia Bool FMapPositive.
Import ListNotations.
From RCE Require Import lib.Bits model.Board model.Movegen model.Eval model.Search model.ChessSearch
  proofs.SearchAbortProofs proofs.SearchInfoProofs props.C13 props.C14 props.C16.
Open Scope Z_scope.

(* C13 for chess: every cache write of a node-budgeted search is made below the budget, flag set *)
Theorem C13_chess : forall (n : N) (clock : nat -> N) (tt_on : bool) (s0 : CSt) (b : Board) (D : option nat),
  running Ply s0 = true ->
  exists new, trace Ply (fst (c_search (budget_limits n) clock (fun _ => false) tt_on s0 b D)) = new ++ trace Ply s0
              /\ forall k e c f, In (k, e, c, f) new -> (c < n)%N /\ f = true.
Proof.
  intros n clock tt_on s0 b D H. unfold c_search.
  exact (C13_budget Board Ply get_all_moves is_legal_move make_move c_in_check evaluate is_capture is_promotion
                    cap_score ply_eqb zkey halfmove_clock c_repeated ply_default clock tt_on n s0 b D H).
Qed.

(* C14 for chess: depths 1..k in order then the single bestmove, whatever the limits and oracles *)
Theorem C14_chess_depths : forall lim clock ext_stop tt_on (s0 : CSt) (b : Board) (D : option nat),
  exists k m, (k <= match D with Some d => d | None => 255 end)%nat
              /\ map (info_depth Ply) (snd (c_search lim clock ext_stop tt_on s0 b D)) = map Some (seq 1 k) ++ [None]
              /\ last (snd (c_search lim clock ext_stop tt_on s0 b D)) (Bestmove Ply ply_default) = Bestmove Ply m.
Proof.
  intros. unfold c_search.
  exact (C14_depths_in_order Board Ply get_all_moves is_legal_move make_move c_in_check evaluate is_capture is_promotion
                             cap_score ply_eqb zkey halfmove_clock c_repeated ply_default lim clock ext_stop tt_on s0 b D).
Qed.

(* ... and `go depth N` alone reports every depth 1..N *)
Theorem C14_chess_depth_only : forall clock tt_on (s0 : CSt) (b : Board) (N : nat),
  running Ply s0 = true -> (N <= 255)%nat ->
  map (info_depth Ply) (snd (c_search no_limits clock (fun _ => false) tt_on s0 b (Some N))) = map Some (seq 1 N) ++ [None].
Proof.
  intros. unfold c_search.
  exact (C14_depth_only Board Ply get_all_moves is_legal_move make_move c_in_check evaluate is_capture is_promotion
                        cap_score ply_eqb zkey halfmove_clock c_repeated ply_default clock tt_on s0 b N H H0).
Qed.

(* C16 for chess: without time limits the chess search does not depend on the clock *)
Theorem C16_chess : forall (l : Limits) (clock1 clock2 : nat -> N) ext_stop tt_on (s0 : CSt) (b : Board) (D : option nat),
  l_movetime l = None /\ l_any_clock l = false ->
  c_search l clock1 ext_stop tt_on s0 b D = c_search l clock2 ext_stop tt_on s0 b D.
Proof.
  intros. unfold c_search.
  exact (C16_clock_free Board Ply get_all_moves is_legal_move make_move c_in_check evaluate is_capture is_promotion
                        cap_score ply_eqb zkey halfmove_clock c_repeated ply_default ext_stop tt_on l clock1 clock2 s0 b D H).
Qed.

Print Assumptions C13_chess.
Print Assumptions C14_chess_depths.
Print Assumptions C14_chess_depth_only.
Print Assumptions C16_chess.
