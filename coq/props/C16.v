(* C16 — fixed-depth search from a fresh cache is deterministic.
   The model is a function, so "same inputs, same outputs" is reflexivity; the content is WHICH
   inputs: with no time limit of any kind the result does not depend on the wall clock at all
   (whatever the readings), so a fixed-depth search is a function of (position, depth bound,
   initial cache and killer tables, node budget) only.  That the real engine is this function is
   the correspondence: exact equality of best move, score, node count, seldepth and the complete
   cache-write trace with the model. *)
From Coq Require Import NArith ZArith List Lia Bool FMapPositive.
Import ListNotations.
From RCE Require Import model.Search proofs.SearchInfoProofs.
Open Scope Z_scope.

Section C16.
  Variables pos mv : Type.
  Variable moves : pos -> list mv.
  Variable legal : pos -> mv -> bool.
  Variable make : pos -> mv -> pos.
  Variable in_check : pos -> bool.
  Variable evalf : pos -> Z.
  Variable is_cap is_promo : mv -> bool.
  Variable cap_score : mv -> N.
  Variable mv_eqb : mv -> mv -> bool.
  Variable key : pos -> N.
  Variable halfmove : pos -> N.
  Variable repeated : pos -> bool.
  Variable default_mv : mv.
  Variable ext_stop : nat -> bool.
  Variable tt_on : bool.

  (* limits without any time component: depth bound and/or node budget only *)
  Definition clock_free (l : Limits) : Prop := l_movetime l = None /\ l_any_clock l = false.

  Theorem C16_clock_free : forall (l : Limits) (clock1 clock2 : nat -> N) (s0 : St mv) (p : pos) (D : option nat),
    clock_free l ->
    search pos mv moves legal make in_check evalf is_cap is_promo cap_score mv_eqb key
           halfmove repeated default_mv l clock1 ext_stop tt_on s0 p D
    = search pos mv moves legal make in_check evalf is_cap is_promo cap_score mv_eqb key
             halfmove repeated default_mv l clock2 ext_stop tt_on s0 p D.
  Proof. exact (search_clock_free pos mv moves legal make in_check evalf is_cap is_promo cap_score mv_eqb key
                                  halfmove repeated default_mv ext_stop tt_on). Qed.
End C16.

Print Assumptions C16_clock_free.
