(* EndToEndMate.v — FROM THE TEXT OF A UCI SESSION TO "THE ANNOUNCED MOVE FORCES MATE UNDER THE RULES OF CHESS".
   props/EndToEnd.v (C08 + C03 + C01 + the chess invariant + C09) composed with props/C12rules.v (C12sound carried to spec/Rules.v):

   after `position startpos moves m1 .. mk` (resp. `position fen F moves m1 .. mk` for any valid position given as a FEN), where
   m1 .. mk are coordinate strings naming a legal move of the rules each in turn, the engine's board IS (through `abs`) the rules'
   position P reached by those moves; if P has no mate in one (said over the RULES: no legal move of P leads to a position that has no
   legal move and is in check), then a following `go` — ANY limits, clock oracle, stop oracle and depth bound, cache ON and holding
   anything mate-sound (`c_tt_sound`: the empty cache of a fresh process, or whatever earlier searches of positions without a mate in
   one left), best-move slots fresh as Search::new leaves them — prints info lines and then exactly one bestmove, and
     IF the final best score is >= 32000 THEN the move named by that bestmove is a legal move of P under the rules and after it the
     opponent is `Lost` under the rules of chess (spec/Mate.v over spec/Rules.v: checkmated, or every legal move leads to a position
     `Won` for the other side — a forced mate of unbounded length);
     IF the final best score is <= -32000 THEN P itself is `Lost` under the rules;
   and the cache is mate-sound afterwards — so the statement applies again to the next `go` of the session, and chains over a whole game
   as long as no position with a mate in one is searched (for those props/C12.v has its own theorem, and the unsound bounds such a
   search may leave in the cache are exhibited in props/C12.v, MateCex).
   Not discharged: `key_sem` (as in props/C12soundchess.v / C12rules.v: a 64-bit key collision never confuses a won (lost) position with
   one that is not).  No hypothesis on the move counters beyond those of props/EndToEnd.v (they come from the `position` command).
   About the printed info lines: the statement speaks of the FINAL best score.  With a stop oracle that is not monotone, the slots can
   be overwritten by a later iteration whose info line is never printed (the root loop completes, the check after it aborts), so
   "the last info line says mate" does not determine the final score in the model; nothing is claimed from the printed score. *)
From Coq Require Import NArith ZArith List Lia Bool Ascii String FMapPositive.
Import ListNotations.
From RCE Require Import lib.Bits lib.Geometry model.Board model.Movegen model.Fen model.Wf model.WfFull model.Abs
  model.Play model.Eval model.Search model.ChessSearch model.Uci spec.Rules spec.Notation spec.Mate spec.ValidPos
  proofs.SearchMateSoundProofs proofs.ChessSearchProofs proofs.MateRulesProofs proofs.EndToEndMateProofs.
From RCE Require Import props.EndToEnd.      (* rules_play: the rules' game named by a list of coordinate strings *)
Local Open Scope list_scope.

(* no mate in one, over the rules *)
Goal forall p, rules_no_mate1 p <->
  (forall mv, In mv (Rules.legal_moves p) ->
     ~ (Rules.legal_moves (Rules.apply p mv) = []
        /\ Rules.in_check (cells (Rules.apply p mv)) (side (Rules.apply p mv)) = true)).
Proof. intros p. reflexivity. Qed.

Section EndToEndMate.
  Local Notation RLost := (Lost Rules.Pos Rules.Move Rules.legal_moves r_legal Rules.apply r_in_check).
  Local Notation CWon := (Won Board Ply get_all_moves is_legal_move make_move c_in_check).
  Local Notation CLost := (Lost Board Ply get_all_moves is_legal_move make_move c_in_check).
  Local Notation c_tt_sound := (tt_sound Board Ply get_all_moves is_legal_move make_move c_in_check zkey).

  Hypothesis key_sem : forall p q : Board, zkey p = zkey q -> (CWon p -> CWon q) /\ (CLost p -> CLost q).

  Theorem E2E_mate_announced_is_mate :
    forall (sess : Session) (ms : list string) (q : Rules.Pos),
      (List.length ms < 60000)%nat ->
      rules_play (abs start_board) ms = Some q ->
      rules_no_mate1 q ->
      exists sess',
        execute sess (CPosition StartPos (Some ms)) = Ok sess'
        /\ abs (s_board sess') = q
        /\ forall (l : GoLimits) (lim : Limits) (clock : nat -> N) (ext_stop : nat -> bool) (s0 : CSt) (D : option nat),
             c_tt_sound s0 -> best_move Ply s0 = None -> best_score Ply s0 = None ->
             exists sess'',
               execute sess' (CGo l) = Ok sess''
               /\ s_events sess'' = EGo (s_board sess') l :: s_events sess'
               /\ let r := c_search lim clock ext_stop true s0 (s_board sess') D in
                  exists infos m,
                    snd r = infos ++ [Bestmove Ply m]
                    /\ (forall o, In o infos -> match o with Bestmove _ _ => true | _ => false end = false)
                    /\ c_tt_sound (fst r)
                    /\ forall sc, best_score Ply (fst r) = Some sc ->
                         ((32000 <= sc)%Z -> In (move_of m) (Rules.legal_moves q) /\ RLost (Rules.apply q (move_of m)))
                         /\ ((sc <= -32000)%Z -> RLost q).
  Proof. exact (e2e_mate_announced_is_mate key_sem). Qed.

  Theorem E2E_fen_mate_announced_is_mate :
    forall (sess : Session) (fen : string) (p0 : Rules.Pos) (ms : list string) (q : Rules.Pos),
      SpecFen.parse fen = Some p0 -> valid_pos p0 = true ->
      (halfmove p0 + N.of_nat (List.length ms) < 65535)%N -> (fullmove p0 + N.of_nat (List.length ms) < 65535)%N ->
      rules_play p0 ms = Some q ->
      rules_no_mate1 q ->
      exists sess',
        execute sess (CPosition (FenPos fen) (Some ms)) = Ok sess'
        /\ abs (s_board sess') = q
        /\ forall (lim : Limits) (clock : nat -> N) (ext_stop : nat -> bool) (s0 : CSt) (D : option nat),
             c_tt_sound s0 -> best_move Ply s0 = None -> best_score Ply s0 = None ->
             let r := c_search lim clock ext_stop true s0 (s_board sess') D in
             exists infos m,
               snd r = infos ++ [Bestmove Ply m]
               /\ (forall o, In o infos -> match o with Bestmove _ _ => true | _ => false end = false)
               /\ c_tt_sound (fst r)
               /\ forall sc, best_score Ply (fst r) = Some sc ->
                    ((32000 <= sc)%Z -> In (move_of m) (Rules.legal_moves q) /\ RLost (Rules.apply q (move_of m)))
                    /\ ((sc <= -32000)%Z -> RLost q).
  Proof. exact (e2e_fen_mate_announced_is_mate key_sem). Qed.
End EndToEndMate.

(* the hypothesis on the cache is satisfiable: the cache of a fresh process (and its slots) *)
Theorem E2E_mate_fresh_state :
  tt_sound Board Ply get_all_moves is_legal_move make_move c_in_check zkey (init_st Ply)
  /\ best_move Ply (init_st Ply) = None /\ best_score Ply (init_st Ply) = None.
Proof. split; [exact (empty_cache_sound Board Ply get_all_moves is_legal_move make_move c_in_check zkey) | split; reflexivity]. Qed.

(* the start position has no mate in one under the rules (a session `position startpos` followed by `go` satisfies every hypothesis) *)
Theorem E2E_mate_start_no_mate1 : rules_no_mate1 (abs start_board).
Proof.
  intros mv Hmv [Hn _].
  assert (H : forallb (fun mv => match Rules.legal_moves (Rules.apply (abs start_board) mv) with [] => false | _ => true end)
                      (Rules.legal_moves (abs start_board)) = true) by (vm_compute; reflexivity).
  rewrite forallb_forall in H. specialize (H mv Hmv). rewrite Hn in H. discriminate H.
Qed.

Print Assumptions E2E_mate_announced_is_mate.
Print Assumptions E2E_fen_mate_announced_is_mate.
Print Assumptions E2E_mate_fresh_state.
Print Assumptions E2E_mate_start_no_mate1.
