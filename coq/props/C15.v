(* C15 — no input line can kill or wedge the engine; quit and end of input end it. *)
From Coq Require Import NArith List Lia Bool Ascii String.
Import ListNotations.
From RCE Require Import model.Board model.Fen model.Uci proofs.UciProofs.

(* the parser never panics: no slice, index, unwrap or assert of the parsing code can fail,
   whatever the token list *)
Theorem C15_parse_total : forall args : list string, parse_command args <> Panic.
Proof. exact parse_total. Qed.

(* one line never crashes the loop (FEN arguments assumed valid, as the property states) *)
Theorem C15_step_total : forall s line,
  (forall f ms, parse_command (tokens line) = Ok (CPosition (FenPos f) ms) -> from_fen f <> None) ->
  step s line <> SCrash.
Proof. exact step_total. Qed.

(* the loop ends at the first quit or at end of input, whatever the lines: it neither crashes nor
   spins (the fuel, one unit per iteration, never runs out) *)
Theorem C15_loop_ends : forall input s,
  fens_valid input ->
  fst (uci_loop (S (List.length input)) s input) = EndQuit \/ fst (uci_loop (S (List.length input)) s input) = EndEof.
Proof. exact loop_ends. Qed.

(* ... and every isready read before that has been answered by exactly one readyok *)
Theorem C15_ready_answered : forall input s,
  fens_valid input ->
  count_readyok (snd (uci_loop (S (List.length input)) s input)) = count_readyok s + count_ready (before_quit input).
Proof. exact ready_answered. Qed.

(* non-vacuity and the former crashers as regression examples *)
Example C15_examples :
  parse_command ["go"; "wtime"] = Err /\ parse_command ["setoption"; "name"; "value"] = Err
  /\ parse_command ["setoption"; "value"; "x"; "name"; "y"] = Err
  /\ parse_command ["go"; "depth"; "3"; "nodes"; "+7"] = Ok (CGo (mkGo (Some 3%N) (Some 7%N) None None None None None))
  /\ fst (uci_loop 3 init_session ["isready"; "bogus"]) = EndEof.
Proof. repeat split; vm_compute; reflexivity. Qed.

Check (C15_parse_total : forall args : list string, parse_command args <> Panic).
Print Assumptions C15_parse_total.
Print Assumptions C15_step_total.
Print Assumptions C15_loop_ends.
Print Assumptions C15_ready_answered.
