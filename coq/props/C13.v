(* C13 — an interrupted search leaves nothing behind that can mislead a later one.
   For EVERY node budget N (every point at which the search can be cut), every game, every
   position, every depth, cache on or off, any initial cache and killer tables: every cache write
   of the run is made with the node counter still below the budget and the running flag still
   set.  Because the node counter only grows and the budget test is made at every node entry and
   again after every child returns, this means no score that stems from an interrupted child is
   ever compared, stored or used to narrow a window. *)
From Coq Require Import NArith ZArith List Lia Bool.
Import ListNotations.
From RCE Require Import model.Search proofs.SearchAbortProofs.
Open Scope Z_scope.

Section C13.
  Variables pos mv : Type.
  Variable moves : pos -> list mv.
  Variable legal : pos -> mv -> bool.
  Variable make : pos -> mv -> pos.
  Variable in_check : pos -> bool.
  Variable evalf : pos -> Z.
  Variable is_cap is_promo : mv -> bool.
  Variable cap_score : mv -> N.
  Variable mv_eqb : mv -> mv -> bool.
  Variable key : pos -> N.
  Variable halfmove : pos -> N.
  Variable repeated : pos -> bool.
  Variable default_mv : mv.
  Variable clock : nat -> N.
  Variable tt_on : bool.

  Definition budget_limits (n : N) : Limits := mkLimits (Some n) None false 0.

  Let run (n : N) := search pos mv moves legal make in_check evalf is_cap is_promo cap_score mv_eqb key
                            halfmove repeated default_mv (budget_limits n) clock (fun _ => false) tt_on.

  (* the new writes of a budgeted run: all made below the budget, with the flag set *)
  Theorem C13_budget : forall (n : N) (s0 : St mv) (p : pos) (D : option nat),
    running mv s0 = true ->
    exists new, trace mv (fst (run n s0 p D)) = new ++ trace mv s0
                /\ forall k e c f, In (k, e, c, f) new -> (c < n)%N /\ f = true.
  Proof. exact (budget_writes pos mv moves legal make in_check evalf is_cap is_promo cap_score mv_eqb key
                              halfmove repeated default_mv clock tt_on). Qed.

  (* once the budget is reached nothing more is searched below the node that noticed: an inner
     call made at or over the budget returns the dummy 0 without touching cache, killers or trace *)
  Theorem C13_over_budget_is_inert : forall (n : N) fuel (s : St mv) p a b d ply,
    (n <= nodes mv s)%N -> running mv s = true ->
    let r := alpha_beta pos mv moves legal make in_check evalf is_cap is_promo cap_score mv_eqb key
                        halfmove repeated default_mv (budget_limits n) clock (fun _ => false) tt_on
                        fuel s p a b d ply in
    fst r = 0 /\ trace mv (snd r) = trace mv s /\ tt mv (snd r) = tt mv s /\ kill mv (snd r) = kill mv s
    /\ nodes mv (snd r) = nodes mv s.
  Proof. exact (over_budget_inert pos mv moves legal make in_check evalf is_cap is_promo cap_score mv_eqb key
                                  halfmove repeated default_mv clock tt_on). Qed.
End C13.

Print Assumptions C13_budget.
Print Assumptions C13_over_budget_is_inert.
