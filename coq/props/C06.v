(* C06 — attack tables are exact for every square and every occupancy.
   Only statements, `exact` proofs, Check pins and Print Assumptions live here. *)
From Coq Require Import NArith ZArith List Lia.
Import ListNotations.
From RCE Require Import lib.Bits lib.Geometry generated.Consts model.Tables proofs.TablesProofs
  proofs.SweepRook0 proofs.SweepRook1 proofs.SweepRook2 proofs.SweepRook3 proofs.SweepBishop
  proofs.SweepLeapers proofs.C06Lemmas.
Open Scope N_scope.

(* every square, EVERY occupancy (all of N, not only the enumerated subsets) *)
Theorem C06_rook : forall s, (s < 64)%nat -> forall occ : N,
  rook_get_attacks s occ = Some (set_of (slider_attacks rook_dirs s (tb occ))).
Proof. exact rook_exact. Qed.

Theorem C06_bishop : forall s, (s < 64)%nat -> forall occ : N,
  bishop_get_attacks s occ = Some (set_of (slider_attacks bishop_dirs s (tb occ))).
Proof. exact bishop_exact. Qed.

Theorem C06_queen : forall s, (s < 64)%nat -> forall occ : N,
  queen_get_attacks s occ
  = Some (set_of (slider_attacks rook_dirs s (tb occ) ++ slider_attacks bishop_dirs s (tb occ))).
Proof. exact queen_exact. Qed.

Theorem C06_knight : forall s, (s < 64)%nat -> knight_model s = set_of (leaper_targets knight_deltas s).
Proof. exact (leaper_sweep_exact _ _ knight_sweep_ok). Qed.
Theorem C06_king : forall s, (s < 64)%nat -> king_model s = set_of (leaper_targets king_deltas s).
Proof. exact (leaper_sweep_exact _ _ king_sweep_ok). Qed.
Theorem C06_wpawn : forall s, (s < 64)%nat -> wpawn_model s = set_of (leaper_targets wpawn_deltas s).
Proof. exact (leaper_sweep_exact _ _ wpawn_sweep_ok). Qed.
Theorem C06_bpawn : forall s, (s < 64)%nat -> bpawn_model s = set_of (leaper_targets bpawn_deltas s).
Proof. exact (leaper_sweep_exact _ _ bpawn_sweep_ok). Qed.

(* results never leave the board: no wrap round an edge, no bit >= 64 *)
Theorem C06_on_board : forall s occ, (s < 64)%nat ->
  (forall a, rook_get_attacks s occ = Some a -> a < 2^64) /\
  (forall a, bishop_get_attacks s occ = Some a -> a < 2^64).
Proof. exact sliders_on_board. Qed.

(* the engine's dumped tables (masks, rays, leapers) are those of the modelled init code *)
Theorem C06_tables_tie : gen_tables_agree = true.
Proof. exact gen_tables_agree_ok. Qed.

(* non-vacuity: a concrete lookup with blockers on both sides of a rook on d4 *)
Example C06_example :
  rook_get_attacks 27%nat (bit 25 + bit 30 + bit 43 + bit 3 + bit 59)
  = Some (set_of [35; 43; 28; 29; 30; 19; 11; 3; 26; 25]%nat).
Proof. vm_compute. reflexivity. Qed.

Check (C06_rook : forall s, (s < 64)%nat -> forall occ : N,
  rook_get_attacks s occ = Some (set_of (slider_attacks rook_dirs s (tb occ)))).
Check (C06_bishop : forall s, (s < 64)%nat -> forall occ : N,
  bishop_get_attacks s occ = Some (set_of (slider_attacks bishop_dirs s (tb occ)))).
Print Assumptions C06_rook.
Print Assumptions C06_bishop.
Print Assumptions C06_queen.
Print Assumptions C06_knight.
Print Assumptions C06_king.
Print Assumptions C06_wpawn.
Print Assumptions C06_bpawn.
Print Assumptions C06_on_board.
Print Assumptions C06_tables_tie.
