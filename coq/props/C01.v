(* C01 — legal move generation and check status are exactly the rules of chess. *)
From Coq Require Import NArith List Bool.
Import ListNotations.
From RCE Require Import lib.Bits lib.Geometry model.Board model.Movegen model.Wf model.WfFull model.Abs
  spec.Rules proofs.RulesProofs.

(* check status: exact for both colours, on any board with consistent bitboards (so also on the
   board AFTER a pseudo-legal move, where it implements the legality filter) *)
Theorem C01_check : forall b c, pbb_wf (bbs b) = true -> is_in_check b c = in_check (cells (abs b)) c.
Proof. exact in_check_spec. Qed.

(* the generated pseudo-legal moves are exactly the rules' pseudo-legal moves *)
Theorem C01_pseudo : forall b, wf_rules b = true ->
  forall mv, In mv (map move_of (get_all_moves b)) <-> In mv (pseudo_moves (abs b)).
Proof. exact pseudo_spec. Qed.

(* every generated move satisfies the preconditions of make/unmake and carries the right flags *)
Theorem C01_moves_ok : forall b m, wf_rules b = true -> In m (get_all_moves b) ->
  move_okb b m = true /\ flags_ok b m = true.
Proof. exact generated_moves_ok. Qed.

(* the moves offered are exactly the legal moves (castling, en passant, the four promotions, pins,
   check evasions included), for every well-formed position and both colours *)
Theorem C01_legal : forall b, wf_rules b = true ->
  (Board.fullmove b < 65535)%N -> (halfmove_clock b < 65535)%N ->
  forall mv, In mv (map move_of (get_legal_moves b)) <-> In mv (legal_moves (abs b)).
Proof. exact legal_spec. Qed.

(* without duplicates *)
Theorem C01_nodup : forall b, wf_rules b = true -> NoDup (map move_of (get_legal_moves b)).
Proof. exact legal_nodup. Qed.

(* consequently mate and stalemate are recognised exactly *)
Theorem C01_mate_stalemate : forall b, wf_rules b = true ->
  (Board.fullmove b < 65535)%N -> (halfmove_clock b < 65535)%N ->
  (get_legal_moves b = [] /\ is_in_check b (current_turn b) = true <-> checkmate (abs b) = true)
  /\ (get_legal_moves b = [] /\ is_in_check b (current_turn b) = false <-> stalemate (abs b) = true).
Proof. exact mate_stalemate_spec. Qed.

Print Assumptions C01_check.
Print Assumptions C01_pseudo.
Print Assumptions C01_moves_ok.
Print Assumptions C01_legal.
Print Assumptions C01_nodup.
Print Assumptions C01_mate_stalemate.
