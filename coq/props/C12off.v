(* C12 with the cache neutralised — all three clauses, for an arbitrary game, as consequences of
   C11 (the search returns the exact negamax value of the look-ahead game and a move attaining
   it) and of what that value says about short mates.  "Without prior history and with a small
   half-move clock" is the hypothesis `fresh`: no position within three plies of the root is a
   fifty-move or repetition draw.  The cache-ON counterpart of clause 1 is props/C12.v; clauses 2
   and 3 with the cache on are judged by the correspondence and the mate oracle (see DESIGN.md). *)
From Coq Require Import NArith ZArith List Lia Bool.
Import ListNotations.
From RCE Require Import model.Search spec.Game proofs.SearchProofs proofs.SearchMateProofs proofs.MateValueProofs.
Open Scope Z_scope.

Section C12off.
  Variables pos mv : Type.
  Variable moves : pos -> list mv.
  Variable legal : pos -> mv -> bool.
  Variable make : pos -> mv -> pos.
  Variable in_check : pos -> bool.
  Variable evalf : pos -> Z.
  Variable is_cap is_promo : mv -> bool.
  Variable cap_score : mv -> N.
  Variable mv_eqb : mv -> mv -> bool.
  Variable key : pos -> N.
  Variable halfmove : pos -> N.
  Variable repeated : pos -> bool.
  Variable default_mv : mv.
  Variable Inv : pos -> Prop.
  Hypothesis Inv_make : forall p m, Inv p -> In m (moves p) -> legal p m = true -> Inv (make p m).
  Hypothesis Inv_eval : forall p, Inv p -> -32000 < evalf p < 32000.

  Let run := search pos mv moves legal make in_check evalf is_cap is_promo cap_score mv_eqb key
                    halfmove repeated default_mv no_limits (fun _ => 0%N) (fun _ => false) false.

  Local Notation has_legal := (SearchMateProofs.has_legal pos mv moves legal).
  Local Notation mated := (SearchMateProofs.mated pos mv moves legal in_check).
  Local Notation mates := (SearchMateProofs.mates pos mv moves legal make in_check).

  Definition lmove (p : pos) (m : mv) : Prop := In m (moves p) /\ legal p m = true.
  (* positions at most n plies below p; the inductive predicate is defined in
     proofs/MateValueProofs.v (Section Defs2), so that the proofs there can refer to it:
       Inductive within : nat -> pos -> pos -> Prop :=
       | W0 : forall n p, within n p p
       | WS : forall n p m q, lmove p m -> within n (make p m) q -> within (S n) p q. *)
  Local Notation within := (MateValueProofs.within pos mv moves legal make).
  Definition fresh (root : pos) : Prop :=
    forall q, within 3 root q -> (halfmove q < 100)%N /\ repeated q = false.

  (* after m the opponent is mated at once, or has moves and each of them runs into a mate in one *)
  Definition keeps_mate2 (p : pos) (m : mv) : Prop :=
    lmove p m /\ (mated (make p m)
                  \/ (has_legal (make p m)
                      /\ forall r, lmove (make p m) r -> exists m2, mates (make (make p m) r) m2)).
  Definition allows_mate1 (p : pos) (m : mv) : Prop := lmove p m /\ exists r, mates (make p m) r.

  (* the move announced by a depth-D search with the cache neutralised *)
  Definition announces (s0 : St mv) (p : pos) (D : nat) (m : mv) : Prop :=
    last (snd (run s0 p (Some D))) (Bestmove mv default_mv) = Bestmove mv m.

  Theorem C12off_mate_in_one : forall s0 root D m,
    running mv s0 = true -> Inv root -> (1 <= D <= 255)%nat -> fresh root ->
    (exists m1, mates root m1) -> announces s0 root D m -> mates root m.
  Proof. exact (off_mate_in_one pos mv moves legal make in_check evalf is_cap is_promo cap_score mv_eqb key
                                halfmove repeated default_mv Inv Inv_make Inv_eval). Qed.

  Theorem C12off_keeps_mate_in_two : forall s0 root D m,
    running mv s0 = true -> Inv root -> (3 <= D <= 255)%nat -> fresh root ->
    (exists m1, keeps_mate2 root m1) -> announces s0 root D m -> keeps_mate2 root m.
  Proof. exact (off_keeps_mate_in_two pos mv moves legal make in_check evalf is_cap is_promo cap_score mv_eqb key
                                      halfmove repeated default_mv Inv Inv_make Inv_eval). Qed.

  Theorem C12off_avoids_mate_in_one : forall s0 root D m,
    running mv s0 = true -> Inv root -> (2 <= D <= 255)%nat -> fresh root ->
    (exists m1, lmove root m1 /\ ~ allows_mate1 root m1) -> announces s0 root D m -> ~ allows_mate1 root m.
  Proof. exact (off_avoids_mate_in_one pos mv moves legal make in_check evalf is_cap is_promo cap_score mv_eqb key
                                       halfmove repeated default_mv Inv Inv_make Inv_eval). Qed.

  (* the values behind the three clauses: what the exact value of a root move says about mates *)
  Let mval := move_value pos mv moves legal make in_check evalf is_cap halfmove repeated.
  Theorem C12off_value_characterisation : forall root D m,
    Inv root -> (3 <= D <= 255)%nat -> fresh root -> lmove root m ->
    (mval D root m = 32767 <-> mates root m)
    /\ (mval D root m >= 32765 <-> keeps_mate2 root m)
    /\ (mval D root m <= -32766 <-> allows_mate1 root m).
  Proof. exact (off_value_characterisation pos mv moves legal make in_check evalf is_cap halfmove repeated
                                           Inv Inv_make Inv_eval). Qed.
End C12off.

Print Assumptions C12off_mate_in_one.
Print Assumptions C12off_keeps_mate_in_two.
Print Assumptions C12off_avoids_mate_in_one.
Print Assumptions C12off_value_characterisation.
