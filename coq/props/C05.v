(* C05 — different positions get different keys.
   Full injectivity of 10^44 positions into 64 bits is false by counting and is not claimed.
   What is proved, for the table of the running engine (regenerated on every run): every position
   component contributes its own word (the key is the XOR of the words of the atoms present), and
   no XOR of 1, 2, 3 or 4 distinct table words is zero — so ANY two positions whose atom sets
   differ in one to four atoms have different keys.  That covers every single-component change
   of every position (a piece added, removed or replaced on a square, the side to move, a single
   castling right, the en-passant file set, cleared or moved) and more (e.g. a quiet move: 2 atoms
   + side to move). *)
From Coq Require Import NArith List Bool Arith Lia.
Import ListNotations.
From RCE Require Import lib.Bits generated.ZTable model.Board model.Atoms proofs.KeyProofs.
Open Scope N_scope.

Theorem C05_table_ok : table_ok = true.
Proof. exact table_ok_holds. Qed.

(* every component is hashed: the from-scratch key is exactly the XOR over the atoms present *)
Theorem C05_every_component_hashed : forall b, key_from_scratch b = xor_atoms (atoms b).
Proof. exact key_is_xor_of_atoms. Qed.

(* the combinatorial core *)
Theorem C05_no_small_xor_is_zero : forall d : list nat,
  NoDup d -> (forall a, In a d -> (a < 781)%nat) -> (1 <= length d <= 4)%nat -> xor_atoms d <> 0.
Proof. exact small_xor_nonzero. Qed.

(* positions differing in 1..4 atoms have different keys *)
Theorem C05_small_diff : forall b1 b2,
  (forall f, ep_file b1 = Some f -> (f < 8)%nat) -> (forall f, ep_file b2 = Some f -> (f < 8)%nat) ->
  (1 <= length (sym_diff (atoms b1) (atoms b2)) <= 4)%nat ->
  key_from_scratch b1 <> key_from_scratch b2.
Proof. exact small_diff_keys_differ. Qed.

(* single-component corollaries, for every board *)
Theorem C05_side_to_move : forall b b',
  atoms b' = atoms b ++ [turn_atom] \/ atoms b = atoms b' ++ [turn_atom] ->
  (forall f, ep_file b = Some f -> (f < 8)%nat) -> (forall f, ep_file b' = Some f -> (f < 8)%nat) ->
  key_from_scratch b <> key_from_scratch b'.
Proof. exact side_to_move_differs. Qed.

Example C05_start_atoms : length (atoms start_board) = 37%nat /\ NoDup (atoms start_board).
Proof. exact start_atoms_ok. Qed.

Print Assumptions C05_table_ok.
Print Assumptions C05_every_component_hashed.
Print Assumptions C05_no_small_xor_is_zero.
Print Assumptions C05_small_diff.
Print Assumptions C05_side_to_move.
