(* C02 / C04 with their hypotheses discharged: `move_okb` holds for every generated move of a
   position satisfying wf_rules (C01_moves_ok), and wf_rules is preserved by legal play (C03_wf_step),
   so the statements below mention only wf_rules of the starting position. *)
From Coq Require Import NArith List Bool.
Import ListNotations.
From RCE Require Import lib.Bits model.Board model.Movegen model.Wf model.WfFull model.Ops model.Play
  proofs.BoardProofs proofs.RulesProofs.

Lemma wf_rules_wfb : forall b, wf_rules b = true -> wfb b = true.
Proof.
  intros b H. apply wf_rules_full in H. unfold wf_full in H.
  apply andb_true_iff in H; destruct H as [H _].
  apply andb_true_iff in H; destruct H as [H _].
  apply andb_true_iff in H; destruct H as [H _].
  apply andb_true_iff in H; destruct H as [H _]. exact H.
Qed.

(* every pseudo-legal move of a well-formed position: unmake restores the whole board *)
Theorem C02_generated_moves_restore : forall b m,
  wf_rules b = true -> In m (get_all_moves b) -> unmake_move (make_move b m) = Some b.
Proof.
  intros b m Hw Hm. apply make_unmake; [apply wf_rules_wfb; exact Hw|].
  exact (proj1 (generated_moves_ok b m Hw Hm)).
Qed.

(* asking for the legal moves leaves a well-formed position exactly as it was *)
Theorem C02_query_pure_closed : forall b,
  wf_rules b = true -> get_legal_moves_st b = (get_legal_moves b, Some b).
Proof.
  intros b Hw. apply query_pure; [apply wf_rules_wfb; exact Hw|].
  apply forallb_forall. intros m Hm. exact (proj1 (generated_moves_ok b m Hw Hm)).
Qed.

(* along any legal game from a well-formed position with the right key, the incremental key stays
   the from-scratch key *)
Theorem C04_legal_game : forall ms b,
  wf_rules b = true -> KeyOK b -> legal_game b ms -> KeyOK (play_plies b ms) /\ wf_rules (play_plies b ms) = true.
Proof.
  induction ms as [|m t IH]; intros b Hw Hk Hg; cbn [play_plies legal_game] in *.
  - split; assumption.
  - destruct Hg as [Hm Hg].
    assert (Hall : In m (get_all_moves b)).
    { unfold get_legal_moves in Hm. apply filter_In in Hm. exact (proj1 Hm). }
    apply IH.
    + exact (wf_rules_step b m Hw Hm).
    + apply key_make; [apply wf_rules_wfb; exact Hw | exact (proj1 (generated_moves_ok b m Hw Hall)) | exact Hk].
    + exact Hg.
Qed.

Print Assumptions C02_generated_moves_restore.
Print Assumptions C02_query_pure_closed.
Print Assumptions C04_legal_game.
