(* C12, cache ON — what is NOT true of the engine, as a closed computation on the chess model (the guidance's `_refuted` shape):
   the STRICT reading of clause 2, "after a completed 3-ply iteration the chosen move is the first move of a mate in TWO", fails.
   Position 1k6/8/2RK4/8/3Q4/8/8/8 w (no history, clock 0), a single `go depth 3` from an EMPTY cache (iterations 1, 2, 3 share the
   cache): a mate in two exists, there is no mate in one, the search chooses d4b4 with the score 32765 ("mate at ply 2 after this
   move", i.e. it believes it is playing a mate in two), but after d4b4 the fastest forced mate needs two more moves (keeps_mate 1 =
   false, keeps_mate 2 = true): the DISTANCE of a mate is blurred by ply-relative scores cached at one ply and reused at another,
   its EXISTENCE is not (props/C12sound.v).  The real engine plays the same move with the same score (checked by C12's correspondence
   on corpus/mate_fens.txt, where this position is committed).  The property's own wording — "keeps a forced mate" — holds here. *)
From Coq Require Import NArith ZArith List String.
Import ListNotations.
From RCE Require Import lib.Bits model.Board model.Movegen model.Fen model.Search model.ChessSearch.
Open Scope string_scope.

Definition blur_fen := "1k6/8/2RK4/8/3Q4/8/8/8 w - - 0 1".
Definition blur_result :=
  match from_fen blur_fen with
  | Some b =>
    let s := fst (c_search no_limits (fun _ => 0%N) (fun _ => false) true (init_st Ply) b (Some 3%nat)) in
    match best_move _ s with
    | Some m => Some (to_notation m, best_score _ s,
                      wins_in 2 b, match mating_moves b with [] => true | _ => false end,
                      keeps_mate 1 b m, keeps_mate 2 b m)
    | None => None
    end
  | None => None
  end.

(* (chosen move, its score, a mate in two exists, no mate in one exists, the chosen move keeps the mate in two, it keeps a mate in three) *)
Theorem C12_chess_mate_distance_blurred :
  blur_result = Some ("d4b4", Some 32765%Z, true, true, false, true).
Proof. vm_compute. reflexivity. Qed.

Print Assumptions C12_chess_mate_distance_blurred.
