(* EndToEnd.v — the layers fit together.  One statement that runs from the text of a UCI session to
   the rules of chess, composed from C08 (the position command), C03 (bookkeeping refines the
   rules along any game), C01 (the generator offers exactly the legal moves), the invariant of
   C11/C17 (evaluation in range along any game from the start position) and C09 (exactly one
   bestmove, naming a legal move, under ANY limits, clock, stop oracle and cache content):

   after `position startpos moves m1 .. mk`, where m1 .. mk are coordinate strings naming a legal
   move each in turn, the engine's board IS (through the abstraction `abs`) the rules' position
   reached by playing those moves from the rules' starting position, and a following `go`, whatever
   its limits, whenever the stop arrives and however the clock runs, prints info lines and then
   exactly one bestmove which is a legal move of that rules position. *)
From Coq Require Import NArith ZArith List Lia Bool Ascii String FMapPositive.
Import ListNotations.
From RCE Require Import lib.Bits lib.Geometry model.Board model.Movegen model.Fen model.Wf model.WfFull model.Abs
  model.Play model.Eval model.Search model.ChessSearch model.Uci spec.Rules spec.Notation
  proofs.UciProofs proofs.RulesProofs proofs.ChessSearchProofs proofs.EndToEndProofs.
(* the imported model files leave string_scope/N_scope/Z_scope/nat_scope open; `++`, `::`, `[..]` below are the list ones *)
Local Open Scope list_scope.

(* the rules' game named by a list of coordinate strings: at each step the unique legal move of
   the rules with that notation (file letter, rank digit, file letter, rank digit, promotion letter) *)
Definition rules_notation (m : Rules.Move) : string := to_notation_rules m.   (* spec/Notation.v *)
Fixpoint rules_play (p : Rules.Pos) (ms : list string) : option Rules.Pos :=
  match ms with
  | [] => Some p
  | s :: t => match filter (fun m => String.eqb (rules_notation m) s) (Rules.legal_moves p) with
              | m :: _ => rules_play (Rules.apply p m) t
              | [] => None
              end
  end.

Theorem E2E_position_then_go :
  forall (sess : Session) (ms : list string) (q : Rules.Pos),
    (List.length ms < 60000)%nat ->
    rules_play (abs start_board) ms = Some q ->
    exists sess',
      execute sess (CPosition StartPos (Some ms)) = Ok sess'
      /\ abs (s_board sess') = q
      /\ forall (l : GoLimits) (lim : Limits) (clock : nat -> N) (ext_stop : nat -> bool) (tt_on : bool)
                (s0 : CSt) (D : option nat),
           best_move Ply s0 = None -> best_score Ply s0 = None ->
           (forall k e, PositiveMap.find k (tt Ply s0) = Some e -> (-32768 < e_score Ply e <= 32767)%Z) ->
           Rules.legal_moves q <> [] ->
           exists sess'' infos m,
             execute sess' (CGo l) = Ok sess''
             /\ s_events sess'' = EGo (s_board sess') l :: s_events sess'
             /\ snd (c_search lim clock ext_stop tt_on s0 (s_board sess') D) = infos ++ [Bestmove Ply m]
             /\ (forall o, In o infos -> match o with Bestmove _ _ => true | _ => false end = false)
             /\ In (move_of m) (Rules.legal_moves q).
Proof. exact e2e_position_then_go. Qed.

(* the rules' starting position is what the engine's starting board abstracts to *)
Theorem E2E_start : cells (abs start_board) =
  map Some [(Rook,White);(Knight,White);(Bishop,White);(Queen,White);(King,White);(Bishop,White);(Knight,White);(Rook,White)]
  ++ repeat (Some (Pawn,White)) 8 ++ repeat None 32 ++ repeat (Some (Pawn,Black)) 8
  ++ map Some [(Rook,Black);(Knight,Black);(Bishop,Black);(Queen,Black);(King,Black);(Bishop,Black);(Knight,Black);(Rook,Black)]
  /\ side (abs start_board) = White /\ ep (abs start_board) = None
  /\ halfmove (abs start_board) = 0%N /\ fullmove (abs start_board) = 1%N.
Proof. exact e2e_start. Qed.

Print Assumptions E2E_position_then_go.
Print Assumptions E2E_start.
