(* C12sound for the chess instance: the abstract theorem C12_mate_scores_sound_search instantiated with the chess model
   (move generator, legality filter, make_move, check test, evaluation, Zobrist key of model/*.v).  For every chess position satisfying
   chess_inv (wf_rules and at most 16 non-king pieces a side, preserved by every legal move) that has no mate in one, EVERY limit
   combination, clock oracle, stop oracle and depth bound, with the cache ON and holding anything mate-sound (the empty cache; whatever
   earlier searches of such positions left): the cache stays mate-sound, and a final mate score means that the announced move forces
   checkmate (resp. that the position is lost) in the sense of spec/Mate.v over the chess model's own rules (which C01 proves to be the
   rules of chess).  The one hypothesis that is NOT discharged is `key_sem`: two positions with the same 64-bit key are never one won
   and one not (resp. lost) — Zobrist keys are not injective (C05 proves what can be proved about them); a collision between a won and
   a not-won position inside one search is the residual risk every hashing engine accepts. *)
From Coq Require Import NArith ZArith List Lia Bool FMapPositive.
Import ListNotations.
From RCE Require Import lib.Bits model.Board model.Movegen model.Eval model.Search model.ChessSearch spec.Mate
  proofs.SearchMateSoundProofs proofs.ChessSearchProofs.
Open Scope Z_scope.

Section C12soundchess.
  Local Notation CWon := (Won Board Ply get_all_moves is_legal_move make_move c_in_check).
  Local Notation CLost := (Lost Board Ply get_all_moves is_legal_move make_move c_in_check).
  Local Notation c_tt_sound := (tt_sound Board Ply get_all_moves is_legal_move make_move c_in_check zkey).
  Local Notation c_no_mate1 := (no_mate1 Board Ply get_all_moves is_legal_move make_move c_in_check).

  Hypothesis key_sem : forall p q : Board, zkey p = zkey q -> (CWon p -> CWon q) /\ (CLost p -> CLost q).

  Theorem C12_chess_mate_scores_sound :
    forall (lim : Limits) (clock : nat -> N) (ext_stop : nat -> bool) (s0 : CSt) (b : Board) (md : option nat),
      chess_inv b -> c_no_mate1 b -> c_tt_sound s0 -> best_move Ply s0 = None -> best_score Ply s0 = None ->
      let r := c_search lim clock ext_stop true s0 b md in
      c_tt_sound (fst r)
      /\ (forall sc, best_score Ply (fst r) = Some sc ->
            (32000 <= sc -> CLost (make_move b (announced Board Ply get_all_moves is_legal_move ply_default (fst r) b)))
            /\ (sc <= -32000 -> CLost b)).
  Proof.
    intros lim clock ext_stop s0 b md Hinv Hn1 Htt Hbm Hbs.
    exact (mate_scores_sound_search Board Ply get_all_moves is_legal_move make_move c_in_check evaluate
             is_capture is_promotion cap_score ply_eqb zkey halfmove_clock c_repeated ply_default
             chess_inv chess_inv_make chess_inv_eval key_sem lim clock ext_stop s0 b md Hinv Hn1 Htt Hbm Hbs).
  Qed.

  (* the empty cache is mate-sound *)
  Theorem C12_chess_empty_cache_sound : c_tt_sound (init_st Ply).
  Proof. exact (empty_cache_sound Board Ply get_all_moves is_legal_move make_move c_in_check zkey). Qed.
End C12soundchess.

(* the hypotheses are satisfiable: the start position satisfies chess_inv and has no mate in one *)
Example C12_chess_start_no_mate1 :
  chess_inv start_board /\
  forallb (fun m => match filter (is_legal_move (make_move start_board m)) (get_all_moves (make_move start_board m)) with
                    | [] => negb (c_in_check (make_move start_board m)) | _ => true end)
          (filter (is_legal_move start_board) (get_all_moves start_board)) = true.
Proof. split; [split; vm_compute; reflexivity | vm_compute; reflexivity]. Qed.

Print Assumptions C12_chess_mate_scores_sound.
Print Assumptions C12_chess_empty_cache_sound.
