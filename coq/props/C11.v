(* C11 — pruning, move ordering and re-searches never change the search result.
   Stated for an ARBITRARY game (any move generator, evaluation within the i16 range, any
   ordering the scores induce, any initial killer table and cache content) with result caching
   neutralised (the cache is emptied before every probe, as the guarded hook does), no limits and
   no stop: the root score is the exact negamax value Vroot of the engine's look-ahead game and
   the chosen move attains it. *)
From Coq Require Import NArith ZArith List Lia Bool.
Import ListNotations.
From RCE Require Import model.Search spec.Game proofs.SearchProofs.
Open Scope Z_scope.

Section C11.
  Variables pos mv : Type.
  Variable moves : pos -> list mv.
  Variable legal : pos -> mv -> bool.
  Variable make : pos -> mv -> pos.
  Variable in_check : pos -> bool.
  Variable evalf : pos -> Z.
  Variable is_cap is_promo : mv -> bool.
  Variable cap_score : mv -> N.
  Variable mv_eqb : mv -> mv -> bool.
  Variable key : pos -> N.
  Variable halfmove : pos -> N.
  Variable repeated : pos -> bool.
  Variable default_mv : mv.
  (* an invariant of the positions of the tree under which the evaluation stays in range *)
  Variable Inv : pos -> Prop.
  Hypothesis Inv_make : forall p m, Inv p -> In m (moves p) -> legal p m = true -> Inv (make p m).
  Hypothesis Inv_eval : forall p, Inv p -> -32000 < evalf p < 32000.

  Let ab := alpha_beta pos mv moves legal make in_check evalf is_cap is_promo cap_score mv_eqb key
                       halfmove repeated default_mv no_limits (fun _ => 0%N) (fun _ => false) false.
  Let start := alpha_beta_start pos mv moves legal make in_check evalf is_cap is_promo cap_score mv_eqb key
                       halfmove repeated default_mv no_limits (fun _ => 0%N) (fun _ => false) false.
  Let run := search pos mv moves legal make in_check evalf is_cap is_promo cap_score mv_eqb key
                       halfmove repeated default_mv no_limits (fun _ => 0%N) (fun _ => false) false.
  Let Vn := V pos mv moves legal make in_check evalf is_cap halfmove repeated.
  Let Vr := Vroot pos mv moves legal make in_check evalf is_cap halfmove repeated.
  Let mval := move_value pos mv moves legal make in_check evalf is_cap halfmove repeated.

  (* what a window search may claim about the true value x when it returns r *)
  Definition contract (a b r x : Z) : Prop :=
    (r <= a -> x <= r) /\ (r >= b -> x >= r) /\ (a < r < b -> r = x).

  (* every inner node, every window, every depth, every ply, EVERY search state (killers, cache
     content, counters): the returned score relates to the true value as a window search must *)
  Theorem C11_contract : forall fuel (s : St mv) p a b d ply,
    running mv s = true -> Inv p -> (1 <= ply <= 255)%nat -> (255 < fuel + ply)%nat ->
    -32767 <= a -> a < b -> b <= 32767 ->
    contract a b (fst (ab fuel s p a b d ply)) (Vn fuel d p ply)
    /\ running mv (snd (ab fuel s p a b d ply)) = true.
  Proof. exact (ab_contract pos mv moves legal make in_check evalf is_cap is_promo cap_score mv_eqb key
                            halfmove repeated default_mv Inv Inv_make Inv_eval). Qed.

  (* the root of one iteration *)
  Theorem C11_root : forall (s : St mv) p d,
    running mv s = true -> Inv p -> (1 <= d)%nat ->
    (exists m, In m (moves p) /\ legal p m = true) ->
    exists m, best_move mv (start s p d) = Some m
              /\ In m (moves p) /\ legal p m = true
              /\ best_score mv (start s p d) = Vr d p
              /\ Some (mval d p m) = Vr d p
              /\ running mv (start s p d) = true.
  Proof. exact (root_exact pos mv moves legal make in_check evalf is_cap is_promo cap_score mv_eqb key
                           halfmove repeated default_mv Inv Inv_make Inv_eval). Qed.

  (* the whole iterative-deepening search to depth D announces a move whose value is the exact
     value of the position at depth D *)
  Theorem C11_search : forall (s0 : St mv) p D,
    running mv s0 = true -> Inv p -> (1 <= D <= 255)%nat ->
    (exists m, In m (moves p) /\ legal p m = true) ->
    exists m, last (snd (run s0 p (Some D))) (Bestmove mv default_mv) = Bestmove mv m
              /\ In m (moves p) /\ legal p m = true
              /\ best_score mv (fst (run s0 p (Some D))) = Vr D p
              /\ Some (mval D p m) = Vr D p.
  Proof. exact (search_exact pos mv moves legal make in_check evalf is_cap is_promo cap_score mv_eqb key
                             halfmove repeated default_mv Inv Inv_make Inv_eval). Qed.
End C11.

Check C11_search.
Print Assumptions C11_contract.
Print Assumptions C11_root.
Print Assumptions C11_search.
