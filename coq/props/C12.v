(* C12 — with caching on, short forced mates are found and avoidable ones avoided.
   PARTIAL.  What is proved here, for an arbitrary game and with the cache ON, for ANY cache
   content that satisfies an invariant which the search itself maintains (so: an empty
   cache, a cache filled by earlier iterations, by earlier searches of the same position at other
   depths, ...): a completed iteration of any depth >= 1 chooses a MATING move whenever one
   exists (clause 1 of the property).  The invariant (`cache_ok`, defined in
   proofs/SearchMateProofs.v): only positions that have a legal move are cached, cached scores are
   i16 values, and EITHER all cached scores lie strictly between the two "mate at ply 1" values
   (-32767 and 32767) OR the root's own entry names a mating move as its best move.
   Why it has this two-mode shape (counterexamples closed by vm_compute in
   proofs/SearchMateProofs.v, module MateCex): no bound on the cached SCORES alone is maintained.
   After the root has found a mate in one (alpha = 32767 = beta) the remaining root moves are
   searched with the window (-32768, -32767); their children get the degenerate window
   (32767, 32767), the grandchildren (-32767, -32767), and cut-offs there leave UNSOUND bound
   entries such as (Lower, 32767) or (Lower/Upper, -32767) for positions that are neither won nor
   lost (`unsound_lower_bound_stored`: from the EMPTY cache, depth 3).  A later iteration that
   searched a non-mating root move before the mating one could hit such an entry and give that move
   the mate score (`chaining_without_tt_move_first_refuted`).  What protects later iterations is
   that the root entry written at the end of the iteration names the mating move and the move
   orderer puts the cached move first; this needs the two extra hypotheses below (move equality is
   real equality; capture scores are small, so that only the cached move gets SCORE_TT) — both
   hold for the chess instance.  Scores at the root's own key cannot be excepted from the bound
   either, since the root position may recur inside the tree (`root_key_exception_refuted`,
   `root_key_max_refuted`).  Key collisions are excluded by hypothesis (key injective on positions).
   Clauses 2 and 3 (keeping a forced mate in two; never allowing an avoidable mate in one) are NOT
   proved with the cache on: scores are stored relative to the ply at which they were found and
   are reused at other plies, which blurs mate DISTANCES, so two losing moves can in principle swap
   — those clauses are validated only by the
   correspondence (exact agreement of the engine with the model on sequences of searches sharing
   the cache) and by a mate solver evaluated on the rules specification.  With the cache
   neutralised all three clauses follow from C11 (exact negamax value). *)
From Coq Require Import NArith ZArith List Lia Bool FMapPositive.
Import ListNotations.
From RCE Require Import model.Search spec.Game proofs.SearchMateProofs.
Open Scope Z_scope.

Section C12.
  Variables pos mv : Type.
  Variable moves : pos -> list mv.
  Variable legal : pos -> mv -> bool.
  Variable make : pos -> mv -> pos.
  Variable in_check : pos -> bool.
  Variable evalf : pos -> Z.
  Variable is_cap is_promo : mv -> bool.
  Variable cap_score : mv -> N.
  Variable mv_eqb : mv -> mv -> bool.
  Variable key : pos -> N.
  Variable halfmove : pos -> N.
  Variable repeated : pos -> bool.
  Variable default_mv : mv.
  Variable clock : nat -> N.
  Hypothesis eval_range : forall p, -32000 < evalf p < 32000.
  Hypothesis key_inj : forall p q, key p = key q -> p = q.          (* NoCollision *)
  Hypothesis mv_eqb_spec : forall m x, mv_eqb m x = true <-> m = x.  (* move equality is equality *)
  Hypothesis cap_small : forall m, (cap_score m < 2 ^ 32)%N.        (* only the cached move scores SCORE_TT *)

  Let start := alpha_beta_start pos mv moves legal make in_check evalf is_cap is_promo cap_score mv_eqb key
                       halfmove repeated default_mv no_limits clock (fun _ => false) true.

  (* has_legal, mated, mates, cache_ok: see proofs/SearchMateProofs.v (Section Defs) *)
  Local Notation mates := (SearchMateProofs.mates pos mv moves legal make in_check).
  Local Notation cache_ok := (SearchMateProofs.cache_ok pos mv moves legal make in_check key).

  (* clause 1: a completed iteration chooses a mating move whenever one exists; and the invariant
     is re-established, so the statement applies again to the next iteration / the next search *)
  Theorem C12_mate_in_one : forall (s : St mv) (root : pos) (d : nat),
    running mv s = true -> cache_ok root s -> (1 <= d)%nat ->
    (forall m, mates root m -> (halfmove (make root m) < 100)%N /\ repeated (make root m) = false) ->
    (exists m, mates root m) ->
    (exists m, best_move mv (start s root d) = Some m /\ mates root m
               /\ best_score mv (start s root d) = Some 32767)
    /\ cache_ok root (start s root d) /\ running mv (start s root d) = true.
  Proof. exact (mate_in_one_found pos mv moves legal make in_check evalf is_cap is_promo cap_score mv_eqb key
                                  halfmove repeated default_mv clock eval_range key_inj mv_eqb_spec cap_small). Qed.

  (* the invariant holds for the empty cache *)
  Theorem C12_empty_cache_ok : forall root, cache_ok root (init_st mv).
  Proof. exact (empty_cache_ok pos mv moves legal make in_check key). Qed.
End C12.

Print Assumptions C12_mate_in_one.
Print Assumptions C12_empty_cache_ok.
