(* C12 — with caching on, short forced mates are found and avoidable ones avoided.
   PARTIAL.  What is proved here, for an arbitrary game and with the cache ON, for ANY cache
   content that satisfies a simple invariant which the search itself maintains (so: an empty
   cache, a cache filled by earlier iterations, by earlier searches of the same position at other
   depths, ...): a completed iteration of any depth >= 1 chooses a MATING move whenever one
   exists (clause 1 of the property).  The invariant: cached scores lie strictly between the
   two "mate at ply 1" values except at the root's own key, and only positions that have a legal
   move are cached.  Key collisions are excluded by hypothesis (key injective on positions).
   Clauses 2 and 3 (keeping a forced mate in two; never allowing an avoidable mate in one) are NOT
   proved with the cache on: scores are stored relative to the ply at which they were found and
   are reused at other plies, which blurs mate DISTANCES, so two losing moves can in principle swap
   — those clauses are validated only by the
   correspondence (exact agreement of the engine with the model on sequences of searches sharing
   the cache) and by a mate solver evaluated on the rules specification.  With the cache
   neutralised all three clauses follow from C11 (exact negamax value). *)
From Coq Require Import NArith ZArith List Lia Bool FMapPositive.
Import ListNotations.
From RCE Require Import model.Search spec.Game proofs.SearchMateProofs.
Open Scope Z_scope.

Section C12.
  Variables pos mv : Type.
  Variable moves : pos -> list mv.
  Variable legal : pos -> mv -> bool.
  Variable make : pos -> mv -> pos.
  Variable in_check : pos -> bool.
  Variable evalf : pos -> Z.
  Variable is_cap is_promo : mv -> bool.
  Variable cap_score : mv -> N.
  Variable mv_eqb : mv -> mv -> bool.
  Variable key : pos -> N.
  Variable halfmove : pos -> N.
  Variable repeated : pos -> bool.
  Variable default_mv : mv.
  Variable clock : nat -> N.
  Hypothesis eval_range : forall p, -32000 < evalf p < 32000.
  Hypothesis key_inj : forall p q, key p = key q -> p = q.          (* NoCollision *)

  Let start := alpha_beta_start pos mv moves legal make in_check evalf is_cap is_promo cap_score mv_eqb key
                       halfmove repeated default_mv no_limits clock (fun _ => false) true.

  Definition has_legal (p : pos) : Prop := exists m, In m (moves p) /\ legal p m = true.
  Definition mated (p : pos) : Prop := in_check p = true /\ ~ has_legal p.
  Definition mates (p : pos) (m : mv) : Prop := In m (moves p) /\ legal p m = true /\ mated (make p m).

  (* the cache invariant, relative to the root position *)
  Definition cache_ok (root : pos) (s : St mv) : Prop :=
    forall q e, PositiveMap.find (kpos (key q)) (tt mv s) = Some e ->
      has_legal q /\ (q <> root -> -32766 <= e_score mv e <= 32766) /\ -32767 <= e_score mv e <= 32767.

  (* clause 1: a completed iteration chooses a mating move whenever one exists; and the invariant
     is re-established, so the statement applies again to the next iteration / the next search *)
  Theorem C12_mate_in_one : forall (s : St mv) (root : pos) (d : nat),
    running mv s = true -> cache_ok root s -> (1 <= d)%nat ->
    (forall m, mates root m -> (halfmove (make root m) < 100)%N /\ repeated (make root m) = false) ->
    (exists m, mates root m) ->
    (exists m, best_move mv (start s root d) = Some m /\ mates root m
               /\ best_score mv (start s root d) = Some 32767)
    /\ cache_ok root (start s root d) /\ running mv (start s root d) = true.
  Proof. exact (mate_in_one_found pos mv moves legal make in_check evalf is_cap is_promo cap_score mv_eqb key
                                  halfmove repeated default_mv clock eval_range key_inj). Qed.

  (* the invariant holds for the empty cache *)
  Theorem C12_empty_cache_ok : forall root, cache_ok root (init_st mv).
  Proof. exact (empty_cache_ok pos mv moves legal key). Qed.
End C12.

Print Assumptions C12_mate_in_one.
Print Assumptions C12_empty_cache_ok.
