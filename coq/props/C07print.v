(* C07 (completeness side) — every position a FEN can describe HAS a FEN (PrintFen.print), the
   independent reader reads it back exactly, and therefore (C07_parse) the engine loads it into a
   board with exactly that content.  So "for every valid FEN" in C07 ranges over descriptions of
   ALL positions: 64 arbitrary cells, either side, any subset of castling rights, any en-passant
   file, both counters up to 65535 — the theorem is not about a thin set of strings. *)
From Coq Require Import NArith List Bool Ascii String.
Import ListNotations.
From RCE Require Import lib.Bits model.Board model.Movegen model.Wf model.Ops model.Fen model.Abs
  spec.Rules spec.SpecFen spec.PrintFen proofs.FenProofs proofs.PrintFenProofs.

Theorem C07_print_parse : forall p, describable p -> SpecFen.parse (PrintFen.print p) = Some p.
Proof. exact print_parse. Qed.

Theorem C07_every_position_loads : forall p, describable p ->
  exists b, from_fen (PrintFen.print p) = Some b /\ abs b = p /\ pbb_wf (bbs b) = true /\ pos_hist b = [].
Proof. exact every_position_loads. Qed.

(* what is read back is always describable: parse and print are inverse on their ranges *)
Theorem C07_parse_describable : forall s p, SpecFen.parse s = Some p -> describable p.
Proof. exact parse_describable. Qed.

Example C07_print_start :
  PrintFen.print (abs start_board) = "rnbqkbnr/pppppppp/8/8/8/8/PPPPPPPP/RNBQKBNR w KQkq - 0 1"%string.
Proof. vm_compute. reflexivity. Qed.

Print Assumptions C07_print_parse.
Print Assumptions C07_every_position_loads.
Print Assumptions C07_parse_describable.
