(* C07 — loading a FEN yields exactly the position the FEN describes. *)
From Coq Require Import NArith List Bool Ascii String.
Import ListNotations.
From RCE Require Import lib.Bits model.Board model.Movegen model.Wf model.Ops model.Fen model.Abs
  spec.Rules spec.SpecFen proofs.FenProofs.

(* every string the independent reader accepts is loaded by the engine's reader (no panic) into
   a board whose pieces, side to move, castling rights, en-passant file and both counters are
   exactly the described ones, with well-formed bitboards, the from-scratch key and an undo
   stack consistent with the en-passant file *)
Theorem C07_parse : forall s p,
  SpecFen.parse s = Some p ->
  exists b, from_fen s = Some b /\ abs b = p /\ pbb_wf (bbs b) = true /\ KeyOK b /\ ep_consistent b = true
            /\ pos_hist b = [].
Proof. exact fen_parse_agrees. Qed.

(* from then on it behaves like any board with the same content: the legal moves, and the
   content after any move, depend only on `core` (bitboards, side, en-passant file, rights,
   clocks) — not on how the board came about *)
Theorem C07_behaves : forall b1 b2,
  core b1 = core b2 ->
  get_legal_moves b1 = get_legal_moves b2
  /\ (forall m, core (make_move b1 m) = core (make_move b2 m))
  /\ key_from_scratch b1 = key_from_scratch b2.
Proof. exact same_core_same_behaviour. Qed.

(* and equal rules-level content means equal `core` for well-formed bitboards *)
Theorem C07_abs_core : forall b1 b2,
  pbb_wf (bbs b1) = true -> pbb_wf (bbs b2) = true -> abs b1 = abs b2 -> core b1 = core b2.
Proof. exact same_abs_same_core. Qed.

Example C07_example :
  exists p, SpecFen.parse "r3k2r/p1ppqpb1/bn2pnp1/3PN3/1p2P3/2N2Q1p/PPPBBPPP/R3K2R w KQkq - 3 17" = Some p
            /\ halfmove p = 3%N /\ fullmove p = 17%N /\ at_ (cells p) 4 = Some (King, White).
Proof. eexists. split; [vm_compute; reflexivity|]. repeat split. Qed.

Print Assumptions C07_parse.
Print Assumptions C07_behaves.
Print Assumptions C07_abs_core.
