(* C10 (no wedge) — from EVERY reachable state of the input-thread x search-threads system (any
   command list, any schedule so far), the system can still run to completion: there is a
   continuation of the schedule after which every command line has been processed and every
   search thread has exited; and then (C10_answers) the number of bestmoves equals the number of
   accepted go's.  So no interleaving of go / stop / position / isready with the search threads'
   own steps leads to a state from which some go can never be answered or some command never
   processed (a lost stop, a join that never returns, a thread that never prints).  The
   continuation lets running searches finish by their own limits (`fin = true`): a `go infinite`
   that is never stopped is of course not required to end.
   The bound: at most 6 steps per thread and 1 per pending command are needed. *)
From Coq Require Import List Lia Bool Arith.
Import ListNotations.
From RCE Require Import model.Threads proofs.ThreadsProofs proofs.ThreadsLiveProofs.

Theorem C10_never_wedged : forall cmds s,
  Reach fixed cmds s ->
  exists ls, (length ls <= 6 * (length (pcs s) + length (pending s)) + length (pending s))%nat
             /\ pending (run fixed s ls) = []
             /\ all_exited (run fixed s ls) = true
             /\ total_bestmoves (run fixed s ls) = total_accepted (run fixed s ls).
Proof. exact never_wedged. Qed.

(* the same for the stop-driven ending: if the last pending command is a stop for the latest
   search, completion is reachable WITHOUT any search deciding by itself that it is done
   (all thread labels of the continuation after the input thread has drained carry fin = false)
   — a stop alone suffices to end an otherwise unbounded search *)
Theorem C10_stop_suffices : forall s k,
  Reach fixed [CmdGo; CmdStop] s -> pending s = [] -> latest s = Some k ->
  exists ls, Forall (fun l => match l with LThread _ fin => fin = false | LInput => True end) ls
             /\ all_exited (run fixed s ls) = true
             /\ count_bestmoves (run fixed s ls) k = 1%nat.
Proof. exact stop_suffices. Qed.

(* the unrepaired code CAN wedge: with the flag re-armed at entry (defect D8) there is a reachable
   state, all input consumed, from which no continuation without a voluntary finish ends the search *)
Theorem C10_unrepaired_wedges : exists ls0,
  let s := run (mkVariant true false) (init [CmdGo; CmdStop]) ls0 in
  pending s = []
  /\ forall ls, Forall (fun l => match l with LThread _ fin => fin = false | LInput => True end) ls ->
                all_exited (run (mkVariant true false) s ls) = false.
Proof. exact unrepaired_wedges. Qed.

Print Assumptions C10_never_wedged.
Print Assumptions C10_stop_suffices.
Print Assumptions C10_unrepaired_wedges.
