#!/usr/bin/env python3
"""Hunt for violations of the three mate clauses of C12 with the cache ON: random sparse positions, searched on the real engine
(driver `matehunt`) in sequences sharing the cache, every chosen move judged by a mate oracle written over the engine's board API.
usage: matehunt.py <n_positions> <seed> [procs]"""
import json
import os
import random
import subprocess
import sys
from concurrent.futures import ThreadPoolExecutor

sys.path.insert(0, os.path.join(os.path.dirname(os.path.abspath(__file__)), "..", "lib"))
import positions as P
import common as C

SEQS = "d3;d4;d4,d3;d2,d4,d3;d3,d3;d1,d2,d4,d3;d3,d4"


def gen(rng):
    while True:
        g = {}
        sqs = [(r, f) for r in range(8) for f in range(8)]
        rng.shuffle(sqs)
        it = iter(sqs)
        wk = next(it)
        # kings near an edge more often (mates happen there)
        if rng.random() < 0.6:
            wk = rng.choice([(0, rng.randrange(8)), (7, rng.randrange(8)), (rng.randrange(8), 0), (rng.randrange(8), 7)])
        bk = next(x for x in it if max(abs(x[0] - wk[0]), abs(x[1] - wk[1])) > 1 and x != wk)
        if rng.random() < 0.6:
            cand = rng.choice([(0, rng.randrange(8)), (7, rng.randrange(8)), (rng.randrange(8), 0), (rng.randrange(8), 7)])
            if max(abs(cand[0] - wk[0]), abs(cand[1] - wk[1])) > 1:
                bk = cand
        g[wk], g[bk] = "K", "k"
        n = rng.choice([1, 2, 2, 3, 3, 4, 5])
        for _ in range(n):
            ch = rng.choice("QRRBNPQRqrrbnpqr")
            sq = next((x for x in it if x not in g and not (ch in "Pp" and x[0] in (0, 7))), None)
            if sq is None:
                break
            g[sq] = ch
        turn = rng.choice("wb")
        victim = bk if turn == "w" else wk
        if any(ch.isupper() == (turn == "w") and sq != victim and P._attacks_sq(g, sq, ch, victim) for sq, ch in g.items()):
            continue
        return P.board_to_fen(g, turn, None, None)


def main():
    n, seed = int(sys.argv[1]), int(sys.argv[2])
    procs = int(sys.argv[3]) if len(sys.argv) > 3 else 8
    rng = random.Random(seed)
    fens = [gen(rng) for _ in range(n)]
    chunks = [fens[i::procs] for i in range(procs)]

    def work(chunk):
        inp = "".join("%s | %s\n" % (f, SEQS) for f in chunk)
        p = subprocess.run([C.ENGINE, "verif", "matehunt"], input=inp, capture_output=True, text=True)
        res = [json.loads(l) for l in p.stdout.splitlines() if l.startswith("{")]
        return list(zip(chunk, res))
    with ThreadPoolExecutor(max_workers=procs) as ex:
        out = [x for part in ex.map(work, chunks) for x in part]
    facts = [0, 0, 0]
    viol = []
    for f, r in out:
        if r.get("facts"):
            for i in range(3):
                facts[i] += r["facts"][i]
        for v in r.get("violations", []):
            viol.append((f, v))
    print(json.dumps({"positions": len(out), "mate_in_one": facts[0], "mate_in_two": facts[1], "avoidable_threat": facts[2], "violations": len(viol)}))
    import collections
    print(dict(collections.Counter(v["clause"] for _, v in viol)))
    hard = [(f, v) for f, v in viol if v["clause"] in (1, 2, 3)]
    for f, v in (hard + [x for x in viol if x not in hard])[:40]:
        print(f, v)


if __name__ == "__main__":
    main()
